"""C39 - column encryption is transparent, including for nulls.

Monitor: a real ``AES256ColumnEncryptionPolicy`` is configured for generated (keyspace, table, column)
triples of every scalar type the policy can name.  Generated rows (values incl. None / UNSET) are bound
through the real ``BoundStatement`` of a ``PreparedStatement`` that carries the policy; the bound bytes
are (a) decrypted by an independent call path (AES-256-CBC of ``cryptography`` used directly with the
``iv || ciphertext`` layout the policy documents, PKCS7 removed by hand) and compared with the
independent codec's plaintext, and (b) echoed, as a server would, in a RESULT/ROWS body written by the
independent frame encoder with the encrypted columns declared ``blob``; the body is decoded by the
pure-Python protocol handler configured with the policy the way ``Session`` does it, and the rows must
equal the original values - None included.
"""
PROPERTY = "C39"
LEVEL = "exploration"
ENGINE = "spec+native"
TECHNIQUE = "runtime monitor: bind -> independent AES-CBC decrypt vs reference codec; echoed ROWS body decoded by the real handler vs original values"
LEVEL_TEXT = ("Thousands (quick) to hundreds of thousands (thorough) of generated rows over tables mixing encrypted and plain columns of all "
              "20 scalar types are bound with the real policy, checked against an independent decryption + reference encoding, echoed in an "
              "independently written ROWS body and decoded by the real pure-Python handler; decoded rows must equal the originals incl. "
              "nulls. Every frame is also decoded by the compiled (Cython) list and lazy row decoders of an offline build of the same tree. Held-on-observed.")
LEVEL_NOTE = ("Trusted base: spec/cqlcodec.py, spec/frames.py, the `cryptography` package's AES/CBC primitive. Parameterized types (list/"
              "set/map/tuple) cannot be named through add_column's type-name argument and are not generated; counters are excluded.")
WORKERS = 14
QUICK_TIMEOUT = 1500

TYPES = ['ascii', 'bigint', 'blob', 'boolean', 'date', 'decimal', 'double', 'duration', 'float', 'inet', 'int', 'smallint', 'text',
         'time', 'timestamp', 'timeuuid', 'tinyint', 'uuid', 'varchar', 'varint']
NAMES = ['a', 'b', 'c', 'secret', 'Ssn', 'v0', 'v1', 'note', 'k']


def run(ctx):
    from vlib.run import Inconclusive
    try:
        from cryptography.hazmat.primitives.ciphers import Cipher, algorithms, modes
    except Exception as e:
        raise Inconclusive("the `cryptography` package is not importable (%s): the column encryption policy cannot be exercised" % (e,))
    from props import _cqlgen as G
    from spec import cqlcodec as S
    from spec import frames as F
    import os
    import io
    from cassandra.metadata import Metadata
    from cassandra.column_encryption.policies import AES256ColumnEncryptionPolicy
    from cassandra.policies import ColDesc
    from cassandra.query import PreparedStatement, BoundStatement, UNSET_VALUE
    from cassandra.protocol import ColumnMetadata, _ProtocolHandler, ResultMessage
    from cassandra import DriverException

    rng = ctx.rng
    ctx.count("spec_selfcheck_cases", S.selfcheck())
    ctx.rule = ("case = (statement with 1-5 bind markers over 1-3 (keyspace, table) pairs (same-named columns in different tables, grouped or interleaved; PreparedStatement built directly or from a decoded PREPARED body with/without the global table spec), columns of the 20 scalar types, each encrypted with its own 256-bit key with p=0.6, policy IV fixed or random, each column registered before prepare / between prepare and the first bind / between two binds, "
                "1-4 rows of boundary-pool values, values re-reading the byte image of another cell of the result as their own type (p=0.35), None (p=0.2) / UNSET (p=0.05 at v4+), bound positionally or by name, protocol 3-5, "
                "result with inline metadata or NO_METADATA + prepared result metadata); distinct by (types, encrypted flags, values, pv); "
                "non-trivial = at least one encrypted column")
    ctx.assume("add_column's type-name argument can only name unparameterized types: collections / tuples / UDTs are not generated; counters are excluded")
    ctx.assume("a server stores an encrypted column as blob and echoes the bytes it was sent; an UNSET bound value leaves the stored cell null")
    ctx.assume("the compiled (Cython) decoders run in a worker process under an offline build of the checked tree (native/build_ext.py, the C07 helper, cached by source hash under /verif/.cache); one worker process decodes all frames of a run, with a fresh policy object per frame")

    def independent_decrypt(key, blob):
        blob = bytes(blob)
        if len(blob) < 32 or (len(blob) - 16) % 16:
            raise ValueError("not iv || whole AES blocks: %d bytes" % len(blob))
        iv, ct = blob[:16], blob[16:]
        d = Cipher(algorithms.AES(key), modes.CBC(iv)).decryptor()
        padded = d.update(ct) + d.finalize()
        n = padded[-1]
        if not 1 <= n <= 16 or padded[-n:] != bytes([n]) * n:
            raise ValueError("bad PKCS7 padding")
        return iv, padded[:-n]

    def canon_of(t, x):
        return G.canon_key(t, G.from_driver(t, x))

    def compare_rows(parsed, origin, names, types, enc_flags, rows_canon, wit):
        ok = True
        suffix = "" if origin.startswith("pure") else " (%s)" % origin
        for (canon, states), got in zip(rows_canon, parsed):
            for nm, t, e, v, x in zip(names, types, enc_flags, canon, got):
                try:
                    same = (x is None) if v is None else (x is not None and canon_of(t, x) == G.canon_key(t, v))
                except Exception:
                    same = False
                if not same:
                    ok = False
                    mech = "decoded-value-differs"
                    if v is None:
                        mech = "null-decoded-as-value"
                    elif e and isinstance(x, (bytes, bytearray)) and t[0] != 'blob':
                        mech = "encrypted-column-returned-undecrypted"
                    ctx.violation(mech + suffix, "%s: column %s %s (%s): stored %r, decoded %r" % (origin, nm, t[0], "encrypted" if e else "plain", v, x), wit)
                elif suffix:
                    ctx.count("cells_decoded_by_the_" + origin.replace(' ', '_'))
                    if e and v is not None:
                        ctx.count("encrypted_cells_decoded_by_the_compiled_decoders")
                else:
                    ctx.count("cells_equal")
                    if e:
                        ctx.count("encrypted_cells_equal")
                        if v is None:
                            ctx.count("encrypted_null_cells_equal")
        return ok

    jobs, expected, declared = [], [], {}
    n = ctx.scale(12000, 400000)
    budget = 40 if ctx.quick else 300
    hcount = 0
    for it in range(n):
        if ctx.n_violations > 100:
            ctx.note("stopped after more than 100 violations")
            break
        if it % 32 == 0 and ctx.time_left(budget) < 0:
            ctx.note("stopped by time budget after %d cases" % it)
            break
        pv = rng.choice([3, 4, 4, 5])
        # the bind markers of one prepared statement belong to 1-3 (keyspace, table) pairs (a prepared multi-table BATCH has markers
        # of several tables); with several tables the column names come from a small pool, so that same-named columns occur in
        # different tables and only some of them are registered with the policy
        ntab = rng.choice([1, 1, 1, 2, 2, 3])
        tabs = rng.sample([(k, tb) for k in ('ks1', 'Ks') for tb in ('t', 'accounts', 'users')], ntab)
        pool = NAMES if ntab == 1 else rng.sample(NAMES, 3)
        pairs = rng.sample([(ti, nm) for ti in range(ntab) for nm in pool], min(rng.randint(1, 5), ntab * len(pool)))
        if rng.random() < 0.5:
            pairs.sort(key=lambda pr: pr[0])          # markers grouped by table, or interleaved
        ncols = len(pairs)
        col_tab = [tabs[ti] for ti, _ in pairs]
        names = [nm for _, nm in pairs]
        cds = [ColDesc(kt[0], kt[1], nm) for kt, nm in zip(col_tab, names)]
        ks, table = col_tab[0]
        several_tables = len(set(col_tab)) > 1
        types = [(rng.choice(TYPES),) for _ in range(ncols)]
        enc_flags = [rng.random() < 0.6 for _ in range(ncols)]
        if rng.random() < 0.5 and not any(enc_flags):
            enc_flags[rng.randrange(ncols)] = True
        iv = bytes(rng.getrandbits(8) for _ in range(16)) if rng.random() < 0.7 else None
        as_server = rng.random() < 0.8
        nrows = rng.randint(1, 4)
        # when each encrypted column is registered with the (shared, live) policy: before the statement is prepared, or after it -
        # just before binding row r (r = 0: between prepare and the first bind; r > 0: between two binds of the same statement)
        reg_at = [(-1 if rng.random() < 0.6 else rng.randrange(nrows)) if e else None for e in enc_flags]
        wit0 = {"pv": pv, "columns": [("%s.%s.%s" % tuple(cd), t[0], "encrypted" if e else "plain") for cd, t, e in zip(cds, types, enc_flags)],
                "registered_before_row": reg_at}
        try:
            policy = AES256ColumnEncryptionPolicy(iv=iv) if iv is not None else AES256ColumnEncryptionPolicy()
            keys = {}
            # keys come from a per-table pool of 1..ncols keys: one key per column, one key for the whole table (the usual set-up)
            # and everything in between
            key_pool = [bytes(rng.getrandbits(8) for _ in range(32)) for _ in range(rng.choice([1, 1, 2, ncols]))]
            for ci, e in enumerate(enc_flags):
                if e:
                    keys[ci] = rng.choice(key_pool)
            if rng.random() < 0.5:
                # the policy is in use for another table already
                policy.add_column(ColDesc(ks, table + 'x', names[0]), key_pool[0], types[0][0])
            for ci, (t, ra) in enumerate(zip(types, reg_at)):
                if ra == -1:
                    policy.add_column(cds[ci], keys[ci], t[0])
            for cd, ra in zip(cds, reg_at):
                if policy.contains_column(cd) != (ra == -1) or policy.contains_column(ColDesc(cd.ks + 'x', cd.table, cd.col)):
                    raise AssertionError("contains_column(%r) wrong" % (cd,))
        except Exception as e:
            ctx.violation("policy-setup-raises", "configuring the policy raised %s: %s" % (type(e).__name__, e), {"types": types, "names": names})
            continue
        # bind metadata as the server reports it: the table column of an encrypted value is a blob, the policy knows the real type
        bind_types = [('blob',) if (e and as_server) else t for t, e in zip(types, enc_flags)]
        cols = [ColumnMetadata(cd.ks, cd.table, cd.col, G.driver_type(bt)) for cd, bt in zip(cds, bind_types)]
        # result metadata as the server reports it: encrypted columns are blobs
        wire_cols = [(cd.ks, cd.table, cd.col, ('blob',) if e else t) for cd, t, e in zip(cds, types, enc_flags)]
        result_md = [(cd.ks, cd.table, cd.col, G.driver_type(('blob',) if e else t)) for cd, t, e in zip(cds, types, enc_flags)]
        if rng.random() < 0.5:
            prepared = PreparedStatement(cols, b'qid', None, 'INSERT ...', ks, pv, result_md, None, column_encryption_policy=policy)
        else:
            # the way Session.prepare gets there: a PREPARED body (with the global table spec when the markers share one table and
            # the coin says so, with per-column keyspace/table otherwise) read by the real decoder, then from_message
            try:
                pbody = F.body_result_prepared(pv, b'qid', [(cd.ks, cd.table, cd.col, bt) for cd, bt in zip(cds, bind_types)], [], [],
                                               result_metadata_id=b'rm' if pv >= 5 else None, bind_global=rng.random() < 0.6)
                pmsg = ResultMessage.recv_body(io.BytesIO(pbody), pv, {}, None, None)
                prepared = PreparedStatement.from_message(pmsg.query_id, pmsg.bind_metadata, pmsg.pk_indexes, Metadata(), 'BEGIN BATCH ...', ks, pv,
                                                          result_md, pmsg.result_metadata_id, policy)
            except Exception as e:
                ctx.violation("prepare-raises", "decoding PREPARED / from_message raised %s: %s" % (type(e).__name__, e), wit0)
                continue
            ctx.count("statements_prepared_from_a_decoded_PREPARED_body")
        if several_tables:
            ctx.count("statements_with_markers_over_several_tables")
        rows_canon, rows_cells = [], []
        images = []          # (type, serialized plaintext) of every value generated for this result so far
        had_value = [False] * ncols
        bad = False
        for _r in range(nrows):
            canon, dvals, states = [], [], []
            try:
                for ci, (t, ra) in enumerate(zip(types, reg_at)):
                    if ra == _r:
                        policy.add_column(cds[ci], keys[ci], t[0])
                        ctx.count("columns_registered_after_prepare")
            except Exception as e:
                ctx.violation("policy-setup-raises", "add_column after prepare raised %s: %s" % (type(e).__name__, e), wit0)
                bad = True
                break
            for ci, t in enumerate(types):
                r = rng.random()
                if r < 0.2 or (reg_at[ci] is not None and reg_at[ci] > _r):
                    # (a column that is not registered yet is left alone: the application starts writing it once it is registered)
                    canon.append(None)
                    dvals.append(None)
                    states.append('none')
                    continue
                if r < 0.25 and pv >= 4:
                    canon.append(None)
                    dvals.append(UNSET_VALUE)
                    states.append('unset')
                    continue
                canary = not had_value[ci] and t[0] in ('bigint', 'int', 'smallint', 'tinyint', 'varint')
                if images and not canary and rng.random() < 0.35:
                    # a value of THIS column's type whose serialization is byte-identical to a value already in the result (same
                    # row or an earlier row, any column): the byte image is read back by the reference decoder as this type and
                    # kept when it is a canonical value of it (re-encodes to the same bytes, representable as a driver object)
                    st, img = rng.choice(images)
                    try:
                        tv = S.dec(t, img, pv)
                        okv = tv is not None and S.enc(t, tv, pv) == img and (t[0] != 'timestamp' or G.TS_MIN_MS <= tv <= G.TS_MAX_MS)
                        if okv:
                            dv = G.to_driver(rng, t, tv)
                    except Exception:
                        okv = False
                    if okv:
                        canon.append(tv)
                        dvals.append(dv)
                        states.append('val')
                        had_value[ci] = True
                        images.append((t[0], img))
                        if st != t[0]:
                            ctx.count("values_sharing_a_byte_image_with_a_value_of_another_type")
                        continue
                for _try in range(20):
                    v = G.gen_scalar(rng, t[0])
                    if canary:
                        # canary value: small integers first, so that a build that hands an int to bytes() (allocating that many
                        # bytes) is detected on this table before a huge value is bound
                        v = rng.randint(0, 64)
                    try:
                        S.enc(t, v, pv)
                    except (S.Undefined, S.SpecError):
                        continue
                    break
                canon.append(v)
                dvals.append(G.to_driver(rng, t, v))
                states.append('val')
                had_value[ci] = True
                try:
                    images.append((t[0], S.enc(t, v, pv)))
                except (S.Undefined, S.SpecError):
                    pass
            wit = dict(wit0, row=[repr(v)[:80] for v in canon], states=states)
            ctx.case(repr((pv, [t[0] for t in types], enc_flags, [G.canon_key(t, v) for t, v in zip(types, canon)], states)), nontrivial=any(enc_flags))
            arg = dict(zip(names, dvals)) if (rng.random() < 0.4 and len(set(names)) == ncols) else list(dvals)
            try:
                bound = prepared.bind(arg) if rng.random() < 0.5 else BoundStatement(prepared).bind(arg)
            except Exception as e:
                ctx.violation("bind-raises", "bind with the encryption policy raised %s: %s" % (type(e).__name__, str(e)[:200]), wit)
                bad = True
                break
            cells = []
            for ci, (nm, t, e, v, st, bv) in enumerate(zip(names, types, enc_flags, canon, states, bound.values)):
                nm = "%s.%s.%s" % tuple(cds[ci])
                if st == 'none':
                    if bv is not None:
                        ctx.violation("null-not-bound-as-null", "None bound for column %s became %r" % (nm, bv), wit)
                        bad = True
                    else:
                        ctx.count("nulls_bound" + ("_encrypted_column" if e else ""))
                    cells.append(None)
                    continue
                if st == 'unset':
                    if bv is not UNSET_VALUE:
                        ctx.violation("unset-not-bound-as-unset", "UNSET_VALUE bound for column %s became %r" % (nm, bv), wit)
                        bad = True
                    cells.append(None)
                    continue
                plain = S.enc(t, v, pv)
                if not e:
                    if bytes(bv) != plain:
                        ctx.violation("plain-column-bytes-differ", "unencrypted column %s %s: bound %r, reference %r" % (nm, t[0], bv, plain), wit)
                        bad = True
                    else:
                        ctx.count("plain_values_equal")
                        if any(o != ci and names[o] == names[ci] and policy.contains_column(cds[o]) for o in range(ncols)):
                            ctx.count("plain_values_of_columns_whose_name_is_registered_in_another_table_of_the_statement")
                    cells.append(bytes(bv))
                    continue
                bvb = bytes(bv)
                if bvb == plain or (len(plain) >= 8 and plain in bvb):
                    ctx.violation("encrypted-column-sent-in-clear", "column %s %s is configured for encryption but the bound bytes %s contain the plaintext %s" % (
                        nm, t[0], bvb.hex()[:80], plain.hex()[:80]), dict(wit, column=nm, bound=bvb))
                    bad = True
                    cells.append(bvb)
                    continue
                try:
                    used_iv, clear = independent_decrypt(keys[ci], bvb)
                except Exception as ex:
                    ctx.violation("bound-bytes-not-decryptable", "column %s %s: bound bytes %s are not iv||AES-256-CBC(PKCS7(value)) under the column key: %s" % (
                        nm, t[0], bvb.hex()[:80], ex), dict(wit, column=nm, bound=bvb))
                    bad = True
                    cells.append(bvb)
                    continue
                if clear != plain:
                    ctx.violation("encrypted-plaintext-differs-from-reference", "column %s %s: decrypting the bound bytes gives %s, Cassandra's encoding of %r is %s" % (
                        nm, t[0], clear.hex()[:80], v, plain.hex()[:80]), dict(wit, column=nm, bound=bvb))
                    bad = True
                elif iv is not None and used_iv != iv:
                    ctx.violation("iv-not-the-configured-one", "column %s: bound bytes start with iv %s, the policy was given %s" % (nm, used_iv.hex(), iv.hex()), wit)
                    bad = True
                else:
                    ctx.count("encrypted_values_decrypt_to_reference")
                    ctx.count("encrypted_type:" + t[0])
                    ra = reg_at[ci]
                    if col_tab[ci] != col_tab[0]:
                        ctx.count("encrypted_values_of_columns_outside_the_first_markers_table")
                    if ra == 0:
                        ctx.count("values_of_columns_registered_between_prepare_and_first_bind")
                    elif ra is not None and ra > 0:
                        ctx.count("values_of_columns_registered_between_two_binds")
                cells.append(bvb)
            rows_canon.append((canon, states))
            rows_cells.append(cells)
            if bad:
                break
        if bad:
            continue
        # the reader may be another policy object with the same keys and an IV of its own (another process, a restart): the IV
        # that matters for reading is the one stored in front of each cell
        reader = policy
        if rng.random() < 0.4:
            riv = bytes(rng.getrandbits(8) for _ in range(16)) if rng.random() < 0.5 else None
            reader = AES256ColumnEncryptionPolicy(iv=riv) if riv is not None else AES256ColumnEncryptionPolicy()
            for ci, (t, e) in enumerate(zip(types, enc_flags)):
                if e:
                    reader.add_column(cds[ci], keys[ci], t[0])
        hcount += 1
        handler = type('C39Handler%d' % hcount, (_ProtocolHandler,), {"column_encryption_policy": reader})
        if reader is not policy and any(enc_flags):
            ctx.count("results_read_by_a_second_policy_object_with_its_own_iv")
        by_cipher = {}
        for cells in rows_cells:
            for c, t, e in zip(cells, types, enc_flags):
                if e and c is not None:
                    by_cipher.setdefault(c, set()).add(t[0])
        if any(len(ts) > 1 for ts in by_cipher.values()):
            ctx.count("results_with_identical_ciphertext_in_columns_of_different_types")
        # ---- the server's answer, decoded by the real handler with the policy
        no_md = rng.random() < 0.3
        body = F.body_result_rows(pv, wire_cols, rows_cells, no_metadata=no_md, global_spec=(not several_tables) and rng.random() < 0.7)
        null_in_encrypted = any(c is None and e for cells in rows_cells for c, e in zip(cells, enc_flags))
        wit = dict(wit0, rows=[[repr(v)[:60] for v in c] for c, _ in rows_canon], no_metadata=no_md)
        try:
            msg = handler.decode_message(pv, {}, 1, 0, 0x08, body, None, result_md if no_md else None)
        except Exception as e:
            mech = "decode-raises"
            if null_in_encrypted and isinstance(e, DriverException) and 'Failed decoding result column' in str(e) and (
                    "'NoneType' object is not subscriptable" in str(e)):
                col = str(e).split('"')[1] if '"' in str(e) else None
                if any(names[ci] == col and enc_flags[ci] and cells[ci] is None for cells in rows_cells for ci in range(ncols)):
                    mech = "null-in-encrypted-column-decrypt-raises"
            ctx.violation(mech, "decoding the rows raised %s: %s" % (type(e).__name__, str(e)[:250]), wit)
            continue
        ctx.count("result_bodies_decoded")
        if not isinstance(msg, ResultMessage) or msg.parsed_rows is None or len(msg.parsed_rows) != nrows:
            ctx.violation("decoded-rows-missing", "decoded message has rows %r" % (getattr(msg, 'parsed_rows', None),), wit)
            continue
        ok = compare_rows(msg.parsed_rows, "pure-Python decoder", names, types, enc_flags, rows_canon, wit)
        if ok:
            ctx.count("rows_equal", nrows)
            if any(enc_flags) and len(ctx.samples) < 5 and rng.random() < 0.02:
                ctx.sample({"columns": wit0["columns"], "row": [repr(v)[:60] for v in rows_canon[0][0]], "bound": rows_cells[0]})
            # the same frame goes to the compiled decoders (a worker process under the compiled build, fresh policy object per job)
            jobs.append({'pv': pv, 'iv': (bytes(rng.getrandbits(8) for _ in range(16)) if rng.random() < 0.5 else None), 'body': body, 'no_md': no_md,
                         'registered': [(cd.ks, cd.table, cd.col, keys[ci], types[ci][0]) for ci, cd in enumerate(cds) if enc_flags[ci]],
                         'result_md': [(cd.ks, cd.table, cd.col, 'blob' if e else t[0]) for cd, t, e in zip(cds, types, enc_flags)]})
            expected.append((names, types, enc_flags, rows_canon, dict(wit)))
            for cd, t, e in zip(cds, types, enc_flags):
                if e:
                    declared.setdefault(tuple(cd), set()).add(t[0])

        # ---- the helper for simple statements must produce the same ciphertext layout
        for ci, (nm, t, e, v) in enumerate(zip(names, types, enc_flags, rows_canon[0][0])):
            if not e or v is None or rng.random() > 0.3:
                continue
            dv = G.to_driver(rng, t, v)
            ctx.count("encode_and_encrypt_calls")
            try:
                blob = policy.encode_and_encrypt(cds[ci], dv)
            except Exception as ex:
                mech = "encode-and-encrypt-raises"
                falsy = False
                try:
                    falsy = not dv
                except Exception:
                    pass
                if falsy and isinstance(ex, ValueError) and 'cannot be None' in str(ex):
                    mech = "encode-and-encrypt-rejects-falsy-value"
                ctx.violation(mech, "encode_and_encrypt(%s %s, %r) raised %s: %s" % (nm, t[0], dv, type(ex).__name__, ex), dict(wit0, value=repr(dv)))
                continue
            try:
                _, clear = independent_decrypt(keys[ci], blob)
            except Exception as ex:
                ctx.violation("bound-bytes-not-decryptable", "encode_and_encrypt(%s): %s" % (nm, ex), dict(wit0, value=repr(dv)))
                continue
            if clear != S.enc(t, v, 4):
                ctx.violation("encrypted-plaintext-differs-from-reference", "encode_and_encrypt(%s %s, %r) decrypts to %s, reference %s" % (
                    nm, t[0], dv, clear.hex()[:80], S.enc(t, v, 4).hex()[:80]), dict(wit0, value=repr(dv)))
            else:
                ctx.count("encode_and_encrypt_equal")

    # ---------------------------------------------------------------- the compiled (Cython) decoders
    import fcntl
    import pickle
    import subprocess
    import sys
    import tempfile
    import shutil
    from vlib.run import VERIF
    from props.c07_compiled_parity import build, QUICK_MODULES
    os.makedirs(os.path.join(VERIF, ".cache", "native"), exist_ok=True)
    with open(os.path.join(VERIF, ".cache", "native", ".c39.lock"), "w") as lock:
        fcntl.flock(lock, fcntl.LOCK_EX)          # thorough fans out over processes: one of them builds, the others find the cache
        try:
            root = build(ctx, "O0-subset", ["--opt=-O0", "--only=" + QUICK_MODULES])
        finally:
            fcntl.flock(lock, fcntl.LOCK_UN)
    tmpd = tempfile.mkdtemp(prefix="verif_c39_")
    try:
        jf, of = os.path.join(tmpd, "jobs.pkl"), os.path.join(tmpd, "out.pkl")
        with open(jf, "wb") as f:
            pickle.dump(jobs, f)
        env = dict(os.environ, PYTHONPATH='')
        r = subprocess.run([sys.executable, os.path.join(VERIF, "native", "c39_worker.py"), root, jf, of], capture_output=True, text=True,
                           timeout=1800, env=env, cwd=tempfile.gettempdir())
        if r.returncode != 0 or not os.path.exists(of):
            raise Inconclusive("compiled-decoder worker failed: %s" % ((r.stdout + r.stderr)[-600:],))
        with open(of, "rb") as f:
            results = pickle.load(f)
    finally:
        shutil.rmtree(tmpd, ignore_errors=True)
    winfo = results[0]
    if not (winfo['have_cython'] and winfo['lazy'] and winfo['obj_parser_file'].endswith('.so')):
        raise Inconclusive("the worker did not load the compiled decoders: %r" % (winfo,))
    if len(results) - 1 != len(jobs):
        raise Inconclusive("worker returned %d results for %d jobs" % (len(results) - 1, len(jobs)))
    for res, (names, types, enc_flags, rows_canon, wit) in zip(results[1:], expected):
        if 'setup' in res:
            raise Inconclusive("worker could not set a job up: %s" % (res['setup'][1],))
        for label in ('list', 'lazy'):
            origin = "compiled %s decoder" % label
            got = res[label]
            if isinstance(got, tuple) and got and got[0] == 'error':
                ctx.violation("decode-raises (%s)" % origin, "%s: decoding the rows raised %s" % (origin, got[1]), wit)
                continue
            if got is None or len(got) != len(rows_canon):
                ctx.violation("decoded-rows-missing (%s)" % origin, "%s: decoded rows %r" % (origin, got), wit)
                continue
            if compare_rows(got, origin, names, types, enc_flags, rows_canon, wit):
                ctx.count("result_bodies_decoded_by_the_" + origin.replace(' ', '_'))
    ctx.count("encrypted_columns_decoded_under_two_or_more_declared_types", sum(1 for ts in declared.values() if len(ts) > 1))
    ctx.floor_distinct = 3000 if ctx.quick else 100000
    fl = {"encrypted_values_decrypt_to_reference": 5000, "plain_values_equal": 3000, "result_bodies_decoded": 500, "encrypted_cells_equal": 2000,
          "nulls_bound_encrypted_column": 500, "encode_and_encrypt_equal": 300,
          "results_read_by_a_second_policy_object_with_its_own_iv": 200,
          "values_sharing_a_byte_image_with_a_value_of_another_type": 300,
          "values_of_columns_registered_between_prepare_and_first_bind": 300,
          "statements_with_markers_over_several_tables": 1000,
          "cells_decoded_by_the_compiled_list_decoder": 20000, "cells_decoded_by_the_compiled_lazy_decoder": 20000,
          "encrypted_cells_decoded_by_the_compiled_decoders": 20000, "result_bodies_decoded_by_the_compiled_list_decoder": 3000,
          "result_bodies_decoded_by_the_compiled_lazy_decoder": 3000, "encrypted_columns_decoded_under_two_or_more_declared_types": 40, "statements_prepared_from_a_decoded_PREPARED_body": 1000,
          "encrypted_values_of_columns_outside_the_first_markers_table": 500,
          "plain_values_of_columns_whose_name_is_registered_in_another_table_of_the_statement": 100, "values_of_columns_registered_between_two_binds": 150,
          "results_with_identical_ciphertext_in_columns_of_different_types": 100}
    for t in TYPES:
        fl["encrypted_type:" + t] = 50
    ctx.floor_counters = fl
