"""C22 - token-aware plans put live local replicas first without losing hosts.

Monitor: the real ``TokenAwarePolicy`` is run over real ``RoundRobinPolicy`` /
``DCAwareRoundRobinPolicy`` children (a recording subclass notes the plan the child produced for
each call) on top of the real ``Metadata`` token maps of C26.  Host ``is_up`` states
(True / False / None) are set independently of the child's live set.  Every plan is judged against
    expected = [replicas that are up and LOCAL] ++ [child plan minus those]
where the replica set comes from ``spec/placement.py`` (not from the driver) and LOCAL from the
topology.  Order inside the replica prefix is demanded only for SimpleStrategy without shuffling.
"""
import random as _global_random

PROPERTY = "C22"
LEVEL = "exploration"
ENGINE = "spec"
TECHNIQUE = "runtime oracle over observed plans: independent replica placement + recorded child plan"
LEVEL_TEXT = ("seeded exploration of rings x replication x child policy x child live set x host up/down/unknown x routing key x "
              "shuffle flag; each observed plan is compared element by element with the plan the property prescribes; the policy is "
              "a sequential function of (metadata, child state, host states, query), so input/state exploration is the right level")
LEVEL_NOTE = ("trusted base: spec/placement.py, spec/murmur.py, spec/md5tok.py; rings for which C26 already reports a defect "
              "(duplicate replica) are skipped and counted; the concurrent in-place shuffle race is not explored here")
QUICK_WORKERS = 4
WORKERS = 12

KNOWN_DROPPED = "local-replica-not-up-dropped-although-in-child-plan"
KNOWN_SHUFFLE = "shuffle-permutes-replica-list-shared-through-token-map"


class Query(object):
    def __init__(self, routing_key, keyspace):
        self.routing_key = routing_key
        self.keyspace = keyspace


_PREPARED = {}


def make_statement(kind, key, keyspace):
    """The statement handed to the policy: the plain stand-in, or a REAL SimpleStatement / BoundStatement whose routing
    key the driver derives itself from the value bound to the single partition-key column (blob or text)."""
    if kind == "plain-object":
        return Query(key, keyspace)
    from cassandra.query import SimpleStatement, PreparedStatement
    if kind == "simple":
        return SimpleStatement("SELECT v FROM t WHERE k = %s", routing_key=key, keyspace=keyspace)
    if keyspace is None:
        return None          # a bound statement always carries the keyspace of its prepared statement
    from cassandra.protocol import ColumnMetadata
    from cassandra.cqltypes import BytesType, UTF8Type
    value = key
    ctype = BytesType
    if kind == "bound-text":
        try:
            value = key.decode("utf-8")
        except UnicodeDecodeError:
            kind = "bound-blob"
        else:
            ctype = UTF8Type
    ck = (kind, keyspace)
    if ck not in _PREPARED:
        _PREPARED[ck] = PreparedStatement(column_metadata=[ColumnMetadata(keyspace, "t", "k", ctype)], query_id=b"id", routing_key_indexes=[0],
                                          query="SELECT v FROM t WHERE k = ?", keyspace=keyspace, protocol_version=4,
                                          result_metadata=None, result_metadata_id=None)
    bound = _PREPARED[ck].bind([value])
    if bound.routing_key != key:
        from vlib.run import Inconclusive
        raise Inconclusive("BoundStatement.routing_key %r differs from the bound value %r (C30's business)" % (bound.routing_key, key))
    return bound


def hashed_token(part, key):
    from spec import murmur, md5tok
    return {"murmur3": murmur.token, "random": md5tok.token, "bytes": (lambda k: k)}[part](key)


def boundary_probes(world):
    """(token per Cassandra, key, statement kind): the empty key, one-byte keys, keys whose Murmur3 hash is an edge value."""
    from spec import murmur, md5tok
    part = world.part
    tok = {"murmur3": murmur.token, "random": md5tok.token, "bytes": (lambda k: k)}[part]
    # Cassandra gives the empty key the partitioner's MINIMUM token (Long.MIN_VALUE / -1 / empty): it precedes every ring token
    minimum = {"murmur3": murmur.MIN_LONG, "random": -1, "bytes": b""}[part]
    out = [(minimum, b"", "simple"), (minimum, b"", "bound-blob"), (minimum, b"", "bound-text"), (minimum, b"", "plain-object")]
    for k in (b"\x00", b"\xff", b"a", b"\x80"):
        out.append((tok(k), k, "bound-blob" if k != b"a" else "bound-text"))
    if part == "murmur3":
        for target in (murmur.MIN_LONG, murmur.MIN_LONG + 1, 0, -1, murmur.MAX_LONG):
            k = murmur.key_with_hash(target, b"", 0x5EED)
            out.append((murmur.token(k), k, "simple"))
    # keys sitting exactly on ring tokens, through real statement objects
    ring_tokens = set(t for t, _o in world.ring)
    on_ring = [(t, k) for t, k in world.pool if t in ring_tokens][:3]
    for t, k in on_ring:
        out.append((t, k, "bound-blob"))
    return out


class FakeCluster(object):
    def __init__(self, metadata, endpoints):
        self.metadata = metadata
        self.endpoints_resolved = endpoints


def make_child(kind, local_dc, n_remote):
    """A real child policy whose produced plans are recorded (subclass observing make_query_plan)."""
    from cassandra.policies import RoundRobinPolicy, DCAwareRoundRobinPolicy

    if kind == "rr":
        class RecordingRR(RoundRobinPolicy):
            recorded = None

            def make_query_plan(self, working_keyspace=None, query=None):
                plan = list(RoundRobinPolicy.make_query_plan(self, working_keyspace, query))
                self.recorded.append(plan)
                return iter(plan)
        c = RecordingRR()
    else:
        class RecordingDC(DCAwareRoundRobinPolicy):
            recorded = None

            def make_query_plan(self, working_keyspace=None, query=None):
                plan = list(DCAwareRoundRobinPolicy.make_query_plan(self, working_keyspace, query))
                self.recorded.append(plan)
                return iter(plan)
        c = RecordingDC(local_dc, used_hosts_per_remote_dc=n_remote)
    c.recorded = []
    return c


class Scenario(object):
    """One world + one child configuration + one assignment of host states."""

    def __init__(self, ctx, world, kind, local_dc, n_remote, live_mask, up_states):
        from cassandra.policies import TokenAwarePolicy
        self.ctx = ctx
        self.world = world
        self.kind = kind
        self.local_dc = local_dc
        self.n_remote = n_remote
        self.live_mask = tuple(live_mask)
        self.up_states = tuple(up_states)
        hosts = world.hosts
        for h, st in zip(hosts, up_states):
            h.is_up = st
        self.cluster = FakeCluster(world.metadata, [h.endpoint for h in hosts])
        # populate as Cluster does with metadata.all_hosts(); ordered by datacenter so that the
        # groupby defect of DCAwareRoundRobinPolicy.populate (C21) is not what is being observed here
        ordered = sorted(hosts, key=lambda h: (h.datacenter, h.address, h.endpoint.port))
        self.policies = {}
        for shuffle in (False, True):
            child = make_child(kind, local_dc, n_remote)
            pol = TokenAwarePolicy(child, shuffle_replicas=shuffle)
            pol.populate(self.cluster, ordered)
            for i, h in enumerate(hosts):
                if not live_mask[i]:
                    pol.on_down(h)
            self.policies[shuffle] = (pol, child)
        self.shuffled_ranges = set()

    def is_local(self, idx):
        if self.kind == "rr":
            return True
        return self.world.locs[idx][0] == self.local_dc

    def label(self):
        return {"child": self.kind, "local_dc": self.local_dc, "used_hosts_per_remote_dc": self.n_remote,
                "child_live": [i for i, l in enumerate(self.live_mask) if l],
                "is_up": dict(("h%d" % i, s) for i, s in enumerate(self.up_states))}

    # -- one plan ---------------------------------------------------------------------
    def observe(self, shuffle, ks, strategy, options, pool_index, via_working_keyspace, phase, probe=None):
        ctx, world = self.ctx, self.world
        pol, child = self.policies[shuffle]
        stmt_kind = "plain-object"
        if probe is not None:
            key_tok, key, stmt_kind = probe
        else:
            key_tok, key = world.pool[pool_index]
        start = world.start_index(key_tok)
        want_list, want_set = world.spec_replicas(strategy, options, key_tok)
        drv_replicas = world.driver_replicas(ks, key)
        if probe is not None and len(key) == 0 and world.ring and world.start_index(hashed_token(world.part, key)) != start:
            # the driver hashes the empty key (Murmur3: 0, Random: |md5('')|) where Cassandra uses the MINIMUM token: another
            # token range, hence another replica order even where the replica sets coincide - outside C22 (see the assumption)
            ctx.count("skipped_empty_key_where_driver_token_differs_from_cassandra_minimum")
            return
        if len(drv_replicas) != len(set(drv_replicas)) or set(drv_replicas) != want_set:
            if probe is not None and len(key) == 0:
                ctx.count("skipped_empty_key_where_driver_token_differs_from_cassandra_minimum")
            else:
                ctx.count("skipped_ring_where_C26_reports_replica_defect")
            return
        q = make_statement(stmt_kind, key, None if via_working_keyspace else ks)
        if q is None:
            return
        if probe is not None:
            ctx.count("boundary_key_plans_judged")
            if len(key) == 0:
                ctx.count("empty_routing_key_plans_judged")
                if want_set:
                    ctx.count("empty_routing_key_plans_with_replicas")
            if stmt_kind != "plain-object":
                ctx.count("plans_for_real_statement_objects")
            if stmt_kind.startswith("bound"):
                ctx.count("plans_with_routing_key_derived_from_a_bound_value")
        del child.recorded[:]
        plan_hosts = list(pol.make_query_plan(ks if via_working_keyspace else "other_ks", q))
        if len(child.recorded) != 1:
            ctx.violation("child-policy-consulted-%d-times" % len(child.recorded), "child make_query_plan called %d times for one plan"
                          % len(child.recorded), self.label())
            return
        idx = world.index_of
        plan = [idx[h.endpoint] for h in plan_hosts]
        child_plan = [idx[h.endpoint] for h in child.recorded[0]]
        up = [s is True for s in self.up_states]
        prefix_set = set(r for r in want_set if up[r] and self.is_local(r))
        k = len(prefix_set)
        expected_tail = [h for h in child_plan if h not in prefix_set]
        ordered_prefix = [r for r in want_list if r in prefix_set]
        demand_order = strategy == "SimpleStrategy" and not shuffle
        if shuffle:
            self.shuffled_ranges.add((ks, start))
        nontrivial = len(world.locs) >= 2 and len(want_set) >= 1
        ctx.case((world.part, tuple(o for _t, o in world.ring), world.locs, strategy, sorted(options.items()), start,
                  self.kind, self.local_dc, self.n_remote, self.live_mask, self.up_states, shuffle), nontrivial=nontrivial)
        ctx.count("plans_judged")
        if world.shared_address:
            ctx.count("plans_on_worlds_with_hosts_sharing_an_address")
            if any(world.hosts[r].address == world.hosts[h].address for r in prefix_set for h in expected_tail):
                ctx.count("plans_where_a_tail_host_shares_the_address_of_a_prefix_replica")
        ctx.count("plan_hosts_observed", len(plan))
        if k:
            ctx.count("plans_with_replica_prefix")
        if k >= 2 and demand_order:
            ctx.count("plans_with_ring_order_demanded")
        if shuffle and k >= 2:
            ctx.count("shuffled_plans_with_2plus_prefix")
        dropped_candidates = [h for h in child_plan if h in want_set and not up[h] and self.is_local(h)]
        if dropped_candidates:
            ctx.count("plans_with_local_replica_not_up_in_child_plan")
        if any(not self.live_mask[r] for r in prefix_set):
            ctx.count("plans_with_up_local_replica_outside_child_live_set")
        if self.kind == "dc" and any((not self.is_local(r)) for r in want_set):
            ctx.count("plans_with_remote_replicas")

        got_prefix, got_tail = plan[:k], plan[k:]
        ok_prefix = set(got_prefix) == prefix_set and len(got_prefix) == k
        if ok_prefix and demand_order and got_prefix != ordered_prefix:
            ok_prefix = False
        if ok_prefix and got_tail == expected_tail:
            return True
        witness = dict(self.label())
        witness.update({"ring": [(str(t) if not isinstance(t, bytes) else t.hex(), "h%d" % o) for t, o in world.ring],
                        "hosts": dict(("h%d" % i, "%s/%s" % l) for i, l in enumerate(world.locs)),
                        "strategy": strategy, "options": options, "key": key, "shuffle": shuffle, "phase": phase,
                        "replicas_cassandra_order": ["h%d" % r for r in want_list],
                        "plan": ["h%d" % h for h in plan], "child_plan": ["h%d" % h for h in child_plan],
                        "expected": ["h%d" % h for h in (ordered_prefix + expected_tail)]})
        # --- mechanism classification -------------------------------------------------
        if ok_prefix:
            tail_without_dropped = [h for h in expected_tail if h not in dropped_candidates]
            if dropped_candidates and got_tail == tail_without_dropped:
                ctx.violation(KNOWN_DROPPED, "hosts %s are in the child's plan but not in the token-aware plan: local replicas whose "
                              "is_up is %s" % (["h%d" % h for h in dropped_candidates],
                                               sorted(set(repr(self.up_states[h]) for h in dropped_candidates))), witness)
                return False
            if len(got_tail) != len(set(got_tail)) or set(got_tail) & prefix_set:
                mech = "plan-repeats-a-host"
            elif set(expected_tail) - set(got_tail):
                mech = "plan-leaves-out-a-host-of-the-child-plan"
            elif set(got_tail) - set(expected_tail):
                mech = "plan-contains-a-host-outside-the-child-plan"
            else:
                mech = "tail-not-in-child-order"
            ctx.violation(mech, "token-aware plan %s, expected %s" % (witness["plan"], witness["expected"]), witness)
            return False
        if set(got_prefix) == prefix_set and len(got_prefix) == k and demand_order:
            # right hosts, wrong order although no shuffling was requested from this policy
            if (ks, start) in self.shuffled_ranges and phase == "shared-after-shuffle":
                ctx.violation(KNOWN_SHUFFLE, "replica prefix %s is not in ring order %s after a shuffling TokenAwarePolicy on the "
                              "same cluster metadata planned for the same token range" % (
                                  ["h%d" % h for h in got_prefix], ["h%d" % h for h in ordered_prefix]), witness)
                return False
            ctx.violation("replica-prefix-not-in-ring-order", "prefix %s, ring order %s" % (got_prefix, ordered_prefix), witness)
            return False
        # wrong prefix membership
        lead = plan[:max(k, 1)]
        if any((h in want_set and not up[h]) for h in lead if h not in prefix_set) and set(plan) >= prefix_set:
            mech = "replica-that-is-not-up-yielded-first"
        elif any((h in want_set and not self.is_local(h)) for h in lead if h not in prefix_set):
            mech = "non-local-replica-yielded-first"
        elif prefix_set - set(plan):
            mech = "live-local-replica-missing-from-plan"
        else:
            mech = "replica-prefix-wrong"
        ctx.violation(mech, "token-aware plan %s, expected %s (prefix = up and local replicas %s)" % (
            witness["plan"], witness["expected"], sorted("h%d" % r for r in prefix_set)), witness)
        return False

    def observe_stepwise(self, shuffle, ks, pool_index, rng):
        """The plan is a lazy generator and the session consumes it one host at a time while hosts go down and come
        back (a connection failing mid-request marks the host down): Host.is_up is flipped between next() calls.
        Whatever happens in between, no host may be yielded twice and no host of the child's plan may be left out."""
        ctx, world = self.ctx, self.world
        pol, child = self.policies[shuffle]
        key = world.pool[pool_index][1]
        hosts = world.hosts
        del child.recorded[:]
        it = pol.make_query_plan("other_ks", Query(key, ks))
        plan_hosts, flips = [], []
        try:
            while True:
                try:
                    h = next(it)
                except StopIteration:
                    break
                plan_hosts.append(h)
                if h.is_up is not True and not child.recorded:
                    ctx.violation("replica-that-is-not-up-yielded-first", "host %s yielded before the child's plan was consulted while its "
                                  "is_up is %r" % (h.endpoint, h.is_up), self.label())
                    return
                for _ in range(rng.choice([0, 1, 1, 2])):
                    i = rng.randrange(len(hosts))
                    # the host just tried fails most often
                    if rng.random() < 0.5:
                        i = world.index_of[h.endpoint]
                    new = rng.choice([True, False, False, None])
                    hosts[i].is_up = new
                    flips.append((len(plan_hosts), "h%d" % i, new))
        finally:
            for hh, st in zip(hosts, self.up_states):
                hh.is_up = st
        if len(child.recorded) != 1:
            return
        idx = world.index_of
        plan = [idx[h.endpoint] for h in plan_hosts]
        child_plan = [idx[h.endpoint] for h in child.recorded[0]]
        ctx.case(("stepwise", world.part, tuple(o for _t, o in world.ring), world.locs, self.kind, self.local_dc, self.n_remote, self.live_mask,
                  self.up_states, shuffle, tuple(flips)), nontrivial=len(flips) > 0 and len(plan) >= 2)
        ctx.count("stepwise_plans_judged")
        ctx.count("stepwise_state_changes_between_yields", len(flips))
        witness = dict(self.label())
        witness.update({"plan": ["h%d" % h for h in plan], "child_plan": ["h%d" % h for h in child_plan], "shuffle": shuffle,
                        "is_up_changes_after_nth_yield": flips, "key": key})
        if len(set(plan)) != len(plan):
            ctx.violation("plan-repeats-a-host-when-host-state-changes-mid-plan", "token-aware plan %s repeats a host (is_up changed between "
                          "yields: %s)" % (witness["plan"], flips), witness)
        elif set(child_plan) - set(plan):
            ctx.violation("plan-leaves-out-a-host-when-host-state-changes-mid-plan", "token-aware plan %s leaves out %s of the child's plan "
                          "(is_up changed between yields: %s)" % (witness["plan"], sorted("h%d" % h for h in set(child_plan) - set(plan)), flips),
                          witness)

    def observe_passthrough(self, shuffle, variant, ks, pool_index):
        """No routing key / no keyspace / no query: the child's plan is used as is."""
        ctx, world = self.ctx, self.world
        pol, child = self.policies[shuffle]
        key = world.pool[pool_index][1]
        del child.recorded[:]
        if variant == "no-query":
            plan_hosts = list(pol.make_query_plan(ks, None))
        elif variant == "no-routing-key":
            plan_hosts = list(pol.make_query_plan(ks, Query(None, ks)))
        else:
            plan_hosts = list(pol.make_query_plan(None, Query(key, None)))
        ctx.case(("passthrough", variant, self.kind, self.live_mask, shuffle, world.locs), nontrivial=False)
        ctx.count("passthrough_plans_judged")
        if len(child.recorded) != 1 or [h.endpoint for h in plan_hosts] != [h.endpoint for h in child.recorded[0]]:
            ctx.violation("plan-without-routing-information-differs-from-child-plan",
                          "variant %s: plan %s, child produced %s" % (variant, plan_hosts, child.recorded), self.label())


def run_world(ctx, world, configs, rng, n_scenarios, keys_per_ks):
    dcs = sorted(set(l[0] for l in world.locs))
    kss = [(world.add_keyspace(s, o, p), s, o) for (s, o, p) in configs]
    n = len(world.locs)
    for _ in range(n_scenarios):
        kind = rng.choice(["rr", "dc", "dc"])
        local_dc = rng.choice(dcs + (["dc_elsewhere"] if rng.random() < 0.05 else [])) if kind == "dc" else None
        n_remote = rng.choice([0, 1, 2, 3]) if kind == "dc" else 0
        live_mask = [rng.random() < 0.8 for _ in range(n)]
        up_states = [rng.choice([True, True, True, False, None]) for _ in range(n)]
        sc = Scenario(ctx, world, kind, local_dc, n_remote, live_mask, up_states)
        ctx.count("scenarios")
        picks = []
        for ks, s, o in kss:
            for _k in range(keys_per_ks):
                picks.append((ks, s, o, rng.randrange(len(world.pool)), rng.random() < 0.5))
        # phase 1: the non-shuffling policy before any shuffling policy touched the token map
        for ks, s, o, pi, via in picks:
            sc.observe(False, ks, s, o, pi, via, "plain")
        # boundary keys (empty, one byte, edge hashes, exact ring tokens) through real statement objects
        probes = boundary_probes(world)
        for ks, s, o in kss:
            for pr in probes[:4] + rng.sample(probes[4:], min(3, len(probes) - 4)):
                sc.observe(False, ks, s, o, None, rng.random() < 0.3, "plain", probe=pr)
        # phase 2: the shuffling policy (same metadata)
        for ks, s, o, pi, via in picks:
            for _rep in range(2):
                sc.observe(True, ks, s, o, pi, via, "shuffle")
        # phase 3: the non-shuffling policy again, on the metadata the shuffling one has used
        for ks, s, o, pi, via in picks:
            if s == "SimpleStrategy":
                ctx.count("shared_metadata_replans")
                sc.observe(False, ks, s, o, pi, via, "shared-after-shuffle")
        for ks, s, o in kss:
            for pr in rng.sample(probes, 3):
                sc.observe(True, ks, s, o, None, False, "shuffle", probe=pr)
        for ks, s, o, pi, via in picks[:4]:
            sc.observe_stepwise(rng.random() < 0.5, ks, pi, rng)
        for variant in ("no-query", "no-routing-key", "no-keyspace"):
            sc.observe_passthrough(rng.random() < 0.5, variant, kss[0][0], rng.randrange(len(world.pool)))
        # ALTER KEYSPACE (or DROP + CREATE) through the real update path on the live metadata: every keyspace - all of them
        # already routed - takes over its neighbour's replication settings; plans must follow the NEW settings
        if len(kss) >= 2:
            shift = rng.randrange(1, len(kss))
            new_settings = [(kss[(i + shift) % len(kss)][1], kss[(i + shift) % len(kss)][2]) for i in range(len(kss))]
            for i, (ks, _s, _o) in enumerate(list(kss)):
                ns, no = new_settings[i]
                world.alter_keyspace(ks, ns, no, drop_first=rng.random() < 0.25)
                kss[i] = (ks, ns, no)
            ctx.count("keyspace_replication_changes", len(kss))
            for ks, s, o in kss:
                for _k in range(2):
                    ctx.count("plans_after_keyspace_replication_change")
                    sc.observe(False, ks, s, o, rng.randrange(len(world.pool)), rng.random() < 0.5, "after-alter-keyspace")
        # the token map is rebuilt so that the next scenario starts from ring order again
        for ks, _s, _o in kss:
            world.metadata.token_map.tokens_to_hosts_by_ks.pop(ks, None)


def run(ctx):
    from vlib.run import Inconclusive
    from spec import placement, murmur, md5tok
    from props import c26_replicas as R
    bad = placement.self_check() + murmur.self_check() + md5tok.self_check()
    if bad:
        raise Inconclusive("trusted base disagrees with itself: %r" % (bad[:2],))
    _global_random.seed(ctx.rng.getrandbits(64))     # the policies draw from the module-level generator
    ctx.rule = ("seeded random rings as in C26 (<= 6 hosts x 3 racks x 2 DCs x 4 tokens; Murmur3/Random/ByteOrdered) plus small "
                "hand-shaped rings; per ring several (child policy in {RoundRobin, DCAware(local_dc, 0..3 remote)}, child live set, "
                "is_up in {True, False, None} per host) scenarios x keyspaces (SimpleStrategy, NTS) x routing keys x shuffle flag. "
                "distinct = (ring structure, replication, token range, child config, live set, up states, shuffle); trivial = single "
                "host or empty replica set or plans without routing information")
    ctx.assume("LOCAL is taken from the topology: every host under RoundRobinPolicy, hosts of local_dc under DCAwareRoundRobinPolicy; "
               "'up' means Host.is_up is True (None = unknown is not up)")
    ctx.assume("order inside the replica prefix is demanded only for SimpleStrategy without shuffling (ring order from the key's "
               "token); for NetworkTopologyStrategy and for shuffled plans the prefix is compared as a set")
    ctx.assume("step-wise plans: Host.is_up changes between two next() calls of one plan (the child's plan, a list taken when the child "
               "is consulted, does not); demanded then: no host twice, no host of the child's plan left out")
    ctx.assume("hosts are identified by endpoint (address and port); about a quarter of the worlds place up to three hosts on one "
               "address with different ports")
    ctx.assume("the empty routing key is a routing key: Cassandra gives it the partitioner's MINIMUM token, i.e. the range of the first "
               "ring token; where the driver's own token for it (Murmur3: hash 0, Random: |md5('')|) falls into another token range the case "
               "is skipped and counted - under ByteOrderedPartitioner and wherever both tokens fall into the same range it is judged")
    ctx.assume("DCAware children are populated with hosts ordered by datacenter and an explicit local_dc, so that the populate/"
               "inference defects reported under C21 are not what is observed here; rings on which C26 reports a replica defect "
               "are skipped (counted)")
    rng = ctx.rng

    # a hand-shaped world first: 3 hosts one DC, RF 2 and 3 - the witness of DESIGN item 17 lives here
    world = R.World("murmur3", (0, 1, 2), [("dc1", "r1"), ("dc1", "r1"), ("dc1", "r2")], [8, 16, 24])
    run_world(ctx, world, [("SimpleStrategy", {"replication_factor": 2}, False), ("SimpleStrategy", {"replication_factor": 3}, False),
                           ("NetworkTopologyStrategy", {"dc1": 2}, False)], rng, n_scenarios=12, keys_per_ks=4)

    # the same shape with the three hosts on ONE address (ports 9042-9044): hosts are endpoints, not addresses
    world = R.World("murmur3", (0, 1, 2), [("dc1", "r1"), ("dc1", "r1"), ("dc1", "r2")], [8, 16, 24], shared_address=True)
    run_world(ctx, world, [("SimpleStrategy", {"replication_factor": 1}, False), ("SimpleStrategy", {"replication_factor": 2}, False),
                           ("NetworkTopologyStrategy", {"dc1": 2}, False)], rng, n_scenarios=12, keys_per_ks=4)

    n_worlds = ctx.scale(700, 100000)
    for _ in range(n_worlds):
        world = R.random_world(rng)
        configs = R.random_configs(rng, world, 3)
        if not any(c[0] == "SimpleStrategy" for c in configs):
            configs.append(("SimpleStrategy", {"replication_factor": rng.choice([1, 2, 3, 3, 4])}, False))
        run_world(ctx, world, configs, rng, n_scenarios=4, keys_per_ks=3)
        ctx.count("worlds")
    ctx.sample({"ring": [(str(t) if not isinstance(t, bytes) else t.hex(), "h%d" % o) for t, o in world.ring],
                "hosts": dict(("h%d" % i, "%s/%s" % l) for i, l in enumerate(world.locs))})
    ctx.floor_distinct = 3000 if ctx.quick else 1000000
    ctx.floor_counters = {"plans_judged": 15000, "plans_with_replica_prefix": 5000, "plans_with_ring_order_demanded": 500,
                          "shuffled_plans_with_2plus_prefix": 500, "plans_with_local_replica_not_up_in_child_plan": 500,
                          "plans_with_up_local_replica_outside_child_live_set": 200, "plans_with_remote_replicas": 500,
                          "passthrough_plans_judged": 500, "shared_metadata_replans": 1000,
                          "plans_on_worlds_with_hosts_sharing_an_address": 3000,
                          "plans_where_a_tail_host_shares_the_address_of_a_prefix_replica": 1000,
                          "plans_after_keyspace_replication_change": 3000,
                          "boundary_key_plans_judged": 5000, "empty_routing_key_plans_judged": 1500,
                          "empty_routing_key_plans_with_replicas": 1000, "plans_for_real_statement_objects": 4000,
                          "plans_with_routing_key_derived_from_a_bound_value": 2000,
                          "stepwise_plans_judged": 2000, "stepwise_state_changes_between_yields": 2000}
