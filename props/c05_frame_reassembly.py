"""C05 - incoming frames are reassembled exactly under any TCP chunking.

Monitor: a real Connection (socket replaced by in-memory hand-off) gets handlers registered
through the real ``send_msg``; a server byte stream (concatenated spec-encoded response frames
and events) is delivered split into reads exactly the way every reactor does
(``_iobuf.write(chunk); process_io_buffer()``).  After *every* chunk the callback log is
compared with the frames whose last byte has been delivered so far.
"""
import itertools

PROPERTY = "C05"
LEVEL = "exploration"
ENGINE = "spec+sim"
TECHNIQUE = "runtime monitor: exactly-once/in-order delivery log checked after every read against the frames completed so far"
LEVEL_TEXT = ("Frame sequences (1-12 frames, body sizes 0..70000 around the 4096 read size, v1-v4 headers, events on negative stream ids) "
              "x splits (every single cut, byte-at-a-time, all 2-cut combinations for short streams, random k-cuts) are pushed through the real "
              "process_io_buffer; the delivered (stream id, message) log must equal the completed-frame prefix after every read.")
LEVEL_NOTE = ("Trusted base: spec/frames.py response encoder; handlers are registered by the real send_msg, watchers by the same table "
              "register_watcher fills. v5+ (segments) is C06.")
WORKERS = 12


def run(ctx):
    from vlib import shim
    shim.import_cluster()
    from cassandra import protocol as P
    from sim.conn import make_classes
    from spec import frames as F
    BareConnection = make_classes()
    rng = ctx.rng
    ctx.rule = ("a case is (frame sequence, split); distinct by (stream signature, cut positions); non-trivial = some cut falls strictly inside "
                "a frame (header or body) rather than on a frame boundary")
    SIZES = [0, 2, 4, 5, 8, 9, 12, 100, 4087, 4088, 4095, 4096, 4097, 8192, 70000]

    def make_stream(v, nframes, small):
        """returns (list of (stream_id, kind, content, frame_bytes)), plus the connection prepared with handlers"""
        conn = BareConnection('127.0.0.1', 9042, protocol_version=v)
        log = []
        frames = []
        # a frame's header layout (8 bytes with a 1-byte stream id below v3, 9 bytes with a 2-byte stream id from v3) is that frame's own: in some
        # streams every frame carries its own version (what a server answering in the version it prefers produces)
        mixed = rng.random() < 0.2
        conn_v = v
        if mixed:
            ctx.count("streams_with_per_frame_versions")
        for i in range(nframes):
            v = rng.choice([1, 2, 3, 4]) if mixed else conn_v
            is_event = rng.random() < 0.2
            if is_event:
                kind = rng.choice(['STATUS_CHANGE', 'TOPOLOGY_CHANGE'])
                addr = bytes(rng.getrandbits(8) for _ in range(4))
                change = 'UP' if kind == 'STATUS_CHANGE' else 'NEW_NODE'
                body = (F.body_event_status if kind == 'STATUS_CHANGE' else F.body_event_topology)(change, addr, 9042)
                # every negative stream id is server-initiated (Cassandra uses -1; the header field is a signed byte / short)
                esid = -1 if rng.random() < 0.6 else -rng.choice([2, 3, 127, 128] if v < 3 else [2, 3, 128, 129, 255, 256, 32767, 32768])
                if esid != -1:
                    ctx.count("event_frames_on_a_negative_stream_other_than_minus_one")
                fr = F.response(v, esid, 'EVENT', body)
                frames.append((-1, 'EVENT', (kind, change, addr), fr))
                continue
            with conn.lock:
                rid = conn.get_request_id()
                conn.in_flight += 1
            conn.send_msg(P.OptionsMessage(), rid, lambda m, rid=rid: log.append(('resp', rid, m)))
            size = rng.choice(SIZES[:8] if small else SIZES)
            if size == 0:
                fr = F.response(v, rid, 'READY', b'')
                frames.append((rid, 'READY', None, fr))
            elif size in (2, 5, 9):
                s = 'a' * (size - 2)
                fr = F.response(v, rid, 'AUTHENTICATE', F.body_authenticate(s))
                frames.append((rid, 'AUTHENTICATE', s, fr))
            else:
                tok = bytes(rng.getrandbits(8) for _ in range(min(size - 4, 64))) + b'\x00' * max(0, size - 4 - 64)
                fr = F.response(max(v, 2), rid, 'AUTH_CHALLENGE', F.body_auth_challenge(tok))
                fr = bytes([0x80 | v]) + fr[1:]
                frames.append((rid, 'AUTH_CHALLENGE', tok, fr))
        for et in ('STATUS_CHANGE', 'TOPOLOGY_CHANGE'):
            conn._push_watchers[et].add(lambda args, et=et: log.append(('event', et, args)))
        # answers may arrive in any order: shuffle response frames relative to sends
        rng.shuffle(frames)
        return conn, log, frames

    def expected_entry(fr):
        sid, kind, content, _ = fr
        return (sid, kind, content)

    def observed_entry(e):
        import ipaddress
        if e[0] == 'event':
            a = e[2]
            return (-1, 'EVENT', (e[1], a['change_type'], ipaddress.ip_address(a['address'][0]).packed))
        m = e[2]
        name = type(m).__name__
        if name == 'ReadyMessage':
            return (e[1], 'READY', None) if m.stream_id == e[1] else ('stream-mismatch', e[1], m.stream_id)
        if name == 'AuthenticateMessage':
            return (e[1], 'AUTHENTICATE', m.authenticator) if m.stream_id == e[1] else ('stream-mismatch', e[1], m.stream_id)
        if name == 'AuthChallengeMessage':
            return (e[1], 'AUTH_CHALLENGE', m.challenge) if m.stream_id == e[1] else ('stream-mismatch', e[1], m.stream_id)
        return (e[1], name, repr(m)[:80])

    def run_split(v, nframes, small, cuts_fn, label):
        state = rng.getstate()
        conn, log, frames = make_stream(v, nframes, small)
        stream = b''.join(f[3] for f in frames)
        ends = list(itertools.accumulate(len(f[3]) for f in frames))
        cuts = sorted(set(c for c in cuts_fn(len(stream), ends) if 0 < c < len(stream)))
        bounds = [0] + cuts + [len(stream)]
        inside = any(c not in ends for c in cuts)
        sig = (v, tuple((f[0] < 0, f[1], len(f[3])) for f in frames), tuple(cuts))
        ctx.case(repr(sig), nontrivial=inside)
        ctx.count("reads_delivered", len(bounds) - 1)
        if inside:
            ctx.count("splits_inside_a_frame")
        hls = [F.header_len(f[3][0] & 0x7f) for f in frames]
        if len(set(hls)) > 1:
            ctx.count("streams_mixing_8_and_9_byte_headers")
        if any(any(e - hl < c < e for c in cuts) for e, hl in ((ends[i] - len(frames[i][3]) + hls[i], hls[i]) for i in range(len(frames)))):
            ctx.count("splits_inside_a_header")
        wit = {"version": v, "frames": [(f[0], f[1], len(f[3])) for f in frames], "cuts": cuts[:50], "how": label}
        fed = 0
        for a, b in zip(bounds, bounds[1:]):
            try:
                conn.feed(stream[a:b])
            except Exception as e:
                ctx.violation("process-io-buffer-raises", "feeding bytes %d..%d raised %s: %s" % (a, b, type(e).__name__, e), wit)
                return
            fed = b
            complete = sum(1 for e in ends if e <= fed)
            if conn.is_defunct:
                ctx.violation("connection-defunct-on-valid-stream", "connection became defunct after %d bytes: %r" % (fed, conn.last_error), wit)
                return
            if len(log) > complete:
                ctx.violation("callback-before-frame-complete", "%d callbacks after %d bytes but only %d frames complete" % (len(log), fed, complete), wit)
                return
            if len(log) < complete:
                ctx.violation("complete-frame-not-delivered", "%d frames complete after %d bytes but only %d delivered" % (complete, fed, len(log)), wit)
                return
        want = [expected_entry(f) for f in frames]
        got = [observed_entry(e) for e in log]
        if got != want:
            first = next((i for i, (x, y) in enumerate(zip(got, want)) if x != y), min(len(got), len(want)))
            ctx.violation("delivered-frames-differ", "delivery %d differs: sent %r, handler got %r" % (
                first, want[first] if first < len(want) else None, got[first] if first < len(got) else None), wit)
            return
        if conn._requests:
            ctx.violation("handler-left-registered", "%d handlers still registered after all responses" % len(conn._requests), wit)
            return
        ctx.count("frames_delivered_exactly", len(frames))
        if len(ctx.samples) < 5 and inside and rng.random() < 0.01:
            ctx.sample(wit)

    budget = 45 if ctx.quick else 420
    # (a) exhaustive single cuts + byte-at-a-time + all 2-cuts on short streams
    for v in (1, 2, 3, 4):
        for rep in range(ctx.scale(10, 60)):
            nfr = rng.randint(1, 3)
            st = rng.getstate()
            conn, log, frames = make_stream(v, nfr, True)
            total = sum(len(f[3]) for f in frames)
            if total > 200:
                continue
            for c in range(1, total):
                rng.setstate(st)
                run_split(v, nfr, True, lambda n, ends, c=c: [c], "single cut")
            rng.setstate(st)
            run_split(v, nfr, True, lambda n, ends: range(1, n), "byte at a time")
            if total <= 64:
                for c1, c2 in itertools.combinations(range(1, total), 2):
                    rng.setstate(st)
                    run_split(v, nfr, True, lambda n, ends, c1=c1, c2=c2: [c1, c2], "two cuts")
                ctx.count("streams_with_all_2cuts_enumerated")
            ctx.count("streams_with_all_single_cuts_enumerated")
            rng.setstate(st)
            make_stream(v, nfr, True)       # advance rng
    # (b) random k-cuts on longer streams, cuts concentrated near frame boundaries and the 4096 read size
    n = ctx.scale(10000, 300000)
    for i in range(n):
        if i % 64 == 0 and ctx.time_left(budget) < 0:
            ctx.note("stopped by time budget after %d random cases" % i)
            break
        v = rng.choice([1, 2, 3, 4])
        nfr = rng.randint(1, 12)

        def cuts_fn(total, ends):
            mode = rng.random()
            if mode < 0.2:
                return list(range(4096, total, 4096))                       # the reactors' read size
            if mode < 0.5:
                out = []
                for e in ends:
                    out += [e + d for d in rng.sample(range(-10, 11), 3)]
                return out
            k = rng.randint(1, 12)
            return [rng.randrange(1, max(2, total)) for _ in range(k)]
        run_split(v, nfr, rng.random() < 0.5, cuts_fn, "random cuts")
    ctx.floor_distinct = 3000 if ctx.quick else 40000
    ctx.floor_counters = {"streams_mixing_8_and_9_byte_headers": 300, "frames_delivered_exactly": 5000, "splits_inside_a_header": 1000, "streams_with_all_single_cuts_enumerated": 8,
                          "event_frames_on_a_negative_stream_other_than_minus_one": 50}
