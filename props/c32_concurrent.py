"""C32 - concurrent execution returns one ordered result per statement.

Monitor: the real ``cassandra.concurrent`` functions run against a stub session whose ``execute_async``
either raises, or returns a *real* ``cassandra.cluster.ResponseFuture`` that is already completed
(success / failure) or is completed later.  Two engines drive the "later":

  pump     single-threaded and deterministic: ``cassandra.concurrent.Condition`` is replaced by a condition
           whose ``wait()`` delivers one pending completion chosen by a seeded / fifo / lifo chooser (the
           event loop runs exactly when the caller blocks).  ``wait()`` with nothing pending = the call can
           never return.  Behaviour vectors are enumerated exhaustively for small n.
  threads  the real ``threading.Condition``; the call runs in its own thread and 1-3 completer threads
           complete pending futures in seeded order with yields in between.

Oracle (observable outcomes only): one result per statement, in input order, result i belongs to statement i;
every statement executed at most once (exactly once without fail-fast); peak number of in-flight executions
<= concurrency; with fail-fast the exception raised is the first failure; the future of the async variant
is returned (the call itself does not raise), completes once and carries the complete ordered result.
Internal extra resolution attempts that the driver swallows are only counted.
"""
import itertools
import threading
import time
from concurrent.futures import Future, InvalidStateError

PROPERTY = "C32"
LEVEL = "exploration"
ENGINE = "spec+stress"
TECHNIQUE = ("stub session handing out real ResponseFutures completed synchronously / by a deterministic pump inside Condition.wait / "
             "by completer threads; oracle over returned list, generator, future, and peak in-flight count")
LEVEL_TEXT = ("behaviour vectors {sync ok, sync fail, raise, async ok, async fail}^n enumerated exhaustively for n <= 4 (quick) / 5 (thorough) "
              "x concurrency 1..n x 6 call variants x 3 pump orders; seeded random vectors up to n = 12; sampled real-thread interleavings")
LEVEL_NOTE = ("trusted base: the stub session and pump in this module, the real ResponseFuture callback contract; thread interleavings are "
              "sampled; recursion limits for hundreds of synchronously completing statements are out of scope (n <= 12)")
QUICK_WORKERS = 2
WORKERS = 12

KINDS = "SFRAE"     # sync success, sync failure, execute_async raises, async success, async failure
VARIANTS = [("list", False), ("list", True), ("gen", False), ("gen", True), ("async", False), ("async", True)]


class StmtFailure(Exception):
    def __init__(self, idx, how):
        Exception.__init__(self, idx, how)
        self.idx = idx


class Hang(BaseException):
    """The caller blocks and nothing is left that could wake it up."""


class World(object):
    def __init__(self, kinds, concurrency, order, rng, threaded):
        self.kinds = kinds
        self.n = len(kinds)
        self.concurrency = concurrency
        self.order = order
        self.rng = rng
        self.threaded = threaded
        self.lock = threading.RLock()
        self.in_flight = 0
        self.peak = 0
        self.exec_calls = [0] * self.n
        self.pending = []             # [(idx, response future)]
        self.tasks = []               # session.submit() work
        self.futures = {}
        self.failure_log = []         # failures in the order they were produced
        self.loop_exceptions = []     # exceptions raised by driver callbacks into the completing ("event loop") side
        self.exc = [StmtFailure(i, k) for i, k in enumerate(kinds)]
        self.waits = 0
        self.caller_done = False
        self.started_after_return = 0
        self.cond = None              # the executor's (pump) condition
        self.deferred = 0             # completions another thread wanted to deliver while the executor lock was held
        self.taken = 0
        self.delivered = 0
        self.ran_inside_next = 0
        self.deferred_total = 0

    # -- completion ------------------------------------------------------------------------------
    def _complete(self, idx, rf):
        with self.lock:
            self.in_flight -= 1
            ok = self.kinds[idx] in "SA"
            if not ok:
                self.failure_log.append(self.exc[idx])
        try:
            if ok:
                rf._set_final_result([("row", idx)])
            else:
                rf._set_final_exception(self.exc[idx])
        except Exception as e:           # what the driver's event loop would log and ignore
            with self.lock:
                self.loop_exceptions.append(e)

    def take_pending(self):
        with self.lock:
            if self.tasks:
                return ("task", self.tasks.pop(0))
            if not self.pending:
                return None
            if self.order == "fifo":
                i = 0
            elif self.order == "lifo":
                i = len(self.pending) - 1
            else:
                i = self.rng.randrange(len(self.pending))
            return ("future", self.pending.pop(i))

    def pump_one(self):
        item = self.take_pending()
        if item is None:
            return False
        if item[0] == "task":
            fn, a, kw = item[1]
            try:
                fn(*a, **kw)
            except Exception as e:
                self.loop_exceptions.append(e)
        else:
            self._complete(*item[1])
        return True


CURRENT = [None]


class PumpCondition(object):
    """Stand-in for threading.Condition in cassandra.concurrent (pump engine): wait() runs the event loop one step."""

    def __init__(self, lock=None):
        self.world = CURRENT[0]
        self.depth = 0
        if self.world is not None:
            self.world.cond = self

    def _released(self):
        # completions that "another thread" tried to deliver while the lock was held get it now
        w = self.world
        if self.depth == 0 and w is not None and w.deferred:
            k, w.deferred = w.deferred, 0
            for _ in range(k):
                if not w.pump_one():
                    break

    def acquire(self, *a, **kw):
        self.depth += 1
        return True

    def release(self):
        self.depth -= 1
        self._released()

    def __enter__(self):
        self.depth += 1
        return self

    def __exit__(self, *a):
        self.depth -= 1
        self._released()
        return False

    def wait(self, timeout=None):
        w = self.world
        w.waits += 1
        if w.waits > 10000:
            raise Hang("more than 10000 waits")
        if not w.pump_one():
            raise Hang("wait() with nothing in flight")
        return True

    def notify(self, n=1):
        pass

    notify_all = notify
    notifyAll = notify


class CountingFuture(Future):
    def __init__(self):
        Future.__init__(self)
        self.attempts = 0
        self.transitions = 0
        self.done_callbacks = 0
        self.add_done_callback(self._done)

    def _done(self, f):
        self.done_callbacks += 1

    def set_result(self, r):
        self.attempts += 1
        Future.set_result(self, r)
        self.transitions += 1

    def set_exception(self, e):
        self.attempts += 1
        Future.set_exception(self, e)
        self.transitions += 1


class _LB(object):
    def make_query_plan(self, keyspace=None, query=None):
        return []


class _Cluster(object):
    _default_load_balancing_policy = _LB()
    connection_class = None


class StubSession(object):
    keyspace = None
    cluster = _Cluster()
    row_factory = staticmethod(lambda names, rows: rows)

    def __init__(self, world, RF):
        self.world = world
        self.RF = RF

    def execute_async(self, statement, parameters=None, timeout=None, execution_profile=None, **kw):
        w = self.world
        idx = parameters[0]
        kind = w.kinds[idx]
        with w.lock:
            w.exec_calls[idx] += 1
            w.in_flight += 1
            if w.in_flight > w.peak:
                w.peak = w.in_flight
            if w.caller_done:
                w.started_after_return += 1
            if kind == "R":
                w.in_flight -= 1
                w.failure_log.append(w.exc[idx])
        if kind == "R":
            raise w.exc[idx]
        rf = self.RF(self, None, statement, None, load_balancer=_Cluster._default_load_balancing_policy)
        w.futures[idx] = rf
        if kind in "SF":
            w._complete(idx, rf)
        else:
            with w.lock:
                w.pending.append((idx, rf))
        return rf

    def submit(self, fn, *a, **kw):
        with self.world.lock:
            self.world.tasks.append((fn, a, kw))


class LazyInput(object):
    """A lazy statement / parameter source that does work when pulled (map(make_params, rows), a generator reading a file ...):
    while ``__next__`` runs, other threads get the processor and deliver completions of executions already in flight.

    pump engine: a completion is delivered inside ``__next__`` only if the executor's lock is free (a real completion thread would
    block on it otherwise); if it is held the delivery happens when the lock is released.  threads engine: ``__next__`` yields until the
    completer threads have delivered what is pending (bounded to ~2 ms: they may be blocked on the executor's lock)."""

    def __init__(self, world, items, how):
        self.w, self.items, self.how, self.i = world, list(items), how, 0

    def __iter__(self):
        return self

    def __next__(self):
        w = self.w
        with w.lock:
            i = self.i
            self.i += 1
        if w.threaded:
            t_end = time.perf_counter() + 0.002
            while time.perf_counter() < t_end:
                with w.lock:
                    if not w.pending and w.delivered == w.taken:
                        break
                time.sleep(0)
        else:
            k = len(w.pending) + len(w.tasks) if self.how == "all" else w.rng.randint(0, len(w.pending) + len(w.tasks))
            if w.cond is None or w.cond.depth == 0:
                for _ in range(k):
                    if not w.pump_one():
                        break
                    w.ran_inside_next += 1
            else:
                w.deferred += k
                w.deferred_total += k
        if i >= len(self.items):
            raise StopIteration
        return self.items[i]


# ------------------------------------------------------------------------------------------ running one scenario
def make_input(n, with_args):
    if with_args:
        return "the-statement", [(i,) for i in range(n)]
    return [(("stmt", i), (i,)) for i in range(n)]


def call_driver(C, session, n, variant, fail_fast, concurrency, with_args, as_iterator):
    """-> ('return', value) | ('raise', exc).  Generators are consumed here: ('gen', yielded, exc or None)."""
    try:
        if variant == "async":
            stmts = make_input(n, False)
            if as_iterator:
                stmts = iter(stmts) if as_iterator is True else LazyInput(session.world, stmts, as_iterator)
            f = C.execute_concurrent_async(session, stmts, concurrency=concurrency, raise_on_first_error=fail_fast)
            return ("return", f)
        gen = variant == "gen"
        if with_args:
            st, params = make_input(n, True)
            if as_iterator and as_iterator is not True:
                params = LazyInput(session.world, params, as_iterator)
            r = C.execute_concurrent_with_args(session, st, params, concurrency=concurrency, raise_on_first_error=fail_fast,
                                               results_generator=gen)
        else:
            stmts = make_input(n, False)
            if as_iterator:
                stmts = iter(stmts) if as_iterator is True else LazyInput(session.world, stmts, as_iterator)
            r = C.execute_concurrent(session, stmts, concurrency=concurrency, raise_on_first_error=fail_fast, results_generator=gen)
    except Hang:
        raise
    except Exception as e:
        return ("raise", e)
    if not gen:
        return ("return", r)
    got = []
    try:
        for x in r:
            got.append(x)
    except Hang:
        raise
    except Exception as e:
        return ("gen", got, e)
    return ("gen", got, None)


def result_belongs(w, i, res, want_success):
    """ExecutionResult for statement i?"""
    try:
        success, payload = res
    except Exception:
        return "not an ExecutionResult: %r" % (res,)
    if bool(success) != want_success:
        return "success flag %r for a statement that %s" % (success, "succeeded" if want_success else "failed")
    if want_success:
        rows = getattr(payload, "current_rows", None)
        if rows != [("row", i)] or getattr(payload, "response_future", None) is not w.futures.get(i):
            return "payload %r is not the result of statement %d" % (rows, i)
    elif payload is not w.exc[i]:
        return "payload %r is not the failure of statement %d" % (payload, i)
    return None


def judge(ctx, w, variant, fail_fast, outcome, wit, first_failure_exact):
    """All violations of one run; mechanism slugs are derived from what was observed."""
    n, kinds = w.n, w.kinds
    expected_ok = [k in "SA" for k in kinds]
    any_fail = not all(expected_ok)
    V = []

    def bad(mech, what):
        V.append((mech, what))

    ctx.count("oracle_inflight_checks")
    if w.peak > w.concurrency:
        bad("in-flight-exceeds-concurrency", "peak of %d executions in flight with concurrency=%d" % (w.peak, w.concurrency))
    ctx.count("oracle_execution_count_checks")
    if any(c > 1 for c in w.exec_calls):
        bad("statement-executed-twice", "execute_async calls per statement: %r" % (w.exec_calls,))

    def check_full_list(lst, where):
        ctx.count("oracle_result_list_checks")
        if not isinstance(lst, list) or len(lst) != n:
            bad("result-count", "%s has %s entries for %d statements" % (where, len(lst) if hasattr(lst, "__len__") else "?", n))
            return
        for i, res in enumerate(lst):
            why = result_belongs(w, i, res, expected_ok[i])
            if why:
                bad("result-order-or-ownership", "%s[%d]: %s" % (where, i, why))
                return
        if any(c != 1 for c in w.exec_calls):
            bad("statement-not-executed-once", "execute_async calls per statement: %r" % (w.exec_calls,))

    def check_first_failure(exc, where):
        ctx.count("oracle_first_failure_checks")
        if not w.failure_log or exc not in w.failure_log:
            bad("fail-fast-wrong-exception", "%s raised %r which is not the failure of any executed statement" % (where, exc))
        elif first_failure_exact and exc is not w.failure_log[0]:
            bad("fail-fast-not-first-failure", "%s raised the failure of statement %d, the first failure was statement %d" % (
                where, exc.idx, w.failure_log[0].idx))

    kind = outcome[0]
    if variant == "list":
        if fail_fast and any_fail:
            if kind != "raise":
                bad("fail-fast-did-not-raise", "returned %r although statements fail" % (outcome[1],))
            else:
                check_first_failure(outcome[1], "execute_concurrent")
        elif kind != "return":
            bad("unexpected-exception", "raised %r" % (outcome[1],))
        else:
            check_full_list(outcome[1], "returned list")
    elif variant == "gen":
        if kind == "raise":
            bad("unexpected-exception", "raised %r before returning the generator" % (outcome[1],))
        else:
            got, exc = outcome[1], outcome[2]
            if fail_fast and any_fail:
                k = expected_ok.index(False)
                ctx.count("oracle_first_failure_checks")
                if exc is None:
                    bad("fail-fast-did-not-raise", "generator ended after %d results although statement %d fails" % (len(got), k))
                elif exc is not w.exc[k] or len(got) != k:
                    bad("generator-fail-fast-position", "generator yielded %d results then raised %r; first failing statement is %d" % (len(got), exc, k))
                for i, res in enumerate(got[:k]):
                    why = result_belongs(w, i, res, True)
                    if why:
                        bad("result-order-or-ownership", "generator item %d: %s" % (i, why))
                        break
            elif exc is not None:
                bad("unexpected-exception", "generator raised %r after %d results" % (exc, len(got)))
            else:
                check_full_list(got, "generated results")
    else:
        if kind == "raise":
            exc = outcome[1]
            if isinstance(exc, InvalidStateError) and "state=finished" in str(exc):
                # execute_concurrent_async's own future.set_exception(e) hit a future that _put_result had already resolved
                bad("async-future-resolved-twice-call-raises-invalidstate",
                    "execute_concurrent_async raised %r instead of returning its future" % (exc,))
            else:
                bad("async-call-raised", "execute_concurrent_async raised %r" % (exc,))
        else:
            f = outcome[1]
            ctx.count("oracle_future_checks")
            if not isinstance(f, Future):
                bad("async-not-a-future", "returned %r" % (f,))
            elif not f.done():
                if n == 0:
                    bad("async-empty-input-never-completes", "the future for an empty statement list is never completed")
                else:
                    bad("async-future-not-completed", "all executions finished but the future is still pending")
            else:
                if getattr(f, "transitions", 1) != 1 or getattr(f, "done_callbacks", 1) != 1:
                    bad("async-future-completed-more-than-once", "transitions=%r done callbacks=%r" % (f.transitions, f.done_callbacks))
                if getattr(f, "attempts", 1) > 1:
                    ctx.count("internal_extra_resolution_attempts_swallowed", f.attempts - 1)
                exc = f.exception(timeout=0)
                if fail_fast and any_fail:
                    if exc is None:
                        bad("fail-fast-did-not-raise", "future completed with a result although statements fail")
                    else:
                        check_first_failure(exc, "the future")
                elif exc is not None:
                    bad("unexpected-exception", "future completed with %r" % (exc,))
                else:
                    check_full_list(f.result(timeout=0), "future result")
    for mech, what in V:
        ctx.violation(mech, "%s %s: %s" % (variant, "fail-fast" if fail_fast else "collect-all", what), wit)
    return V


def run_pump(ctx, C, RF, kinds, concurrency, variant, fail_fast, order, rng, with_args=False, as_iterator=False):
    w = World(kinds, concurrency, order, rng, threaded=False)
    CURRENT[0] = w
    session = StubSession(w, RF)
    wit = {"engine": "pump", "kinds": kinds, "concurrency": concurrency, "variant": variant, "fail_fast": fail_fast, "order": order,
           "with_args": with_args, "iterator_input": as_iterator}
    ctx.case(("pump", kinds, concurrency, variant, fail_fast, order, with_args, as_iterator))
    ctx.count("runs_pump")
    try:
        outcome = call_driver(C, session, len(kinds), variant, fail_fast, concurrency, with_args, as_iterator)
    except Hang as h:
        wit["executed"] = list(w.exec_calls)
        ctx.violation("call-never-returns", "%s %s: the caller waits although no execution is in flight (%s)" % (
            variant, "fail-fast" if fail_fast else "collect-all", h), wit)
        return
    except RecursionError:
        ctx.count("recursion_errors_not_judged")
        return
    w.caller_done = True
    judge(ctx, w, variant, fail_fast, outcome, wit, first_failure_exact=True)
    # late completions after the call returned must not disturb anything observable
    steps = 0
    while steps < 200 and w.pump_one():
        steps += 1
    ctx.count("late_completions_after_return", steps)
    ctx.count("statements_started_after_the_call_returned", w.started_after_return)
    ctx.count("exceptions_raised_into_the_event_loop_side", len(w.loop_exceptions))
    ctx.count("condition_waits_pumped", w.waits)
    if as_iterator and as_iterator is not True:
        ctx.count("runs_with_lazy_input")
        ctx.count("completions_delivered_inside_input_next", w.ran_inside_next)
        ctx.count("completions_deferred_until_lock_release", w.deferred_total)
    if w.peak > w.concurrency:
        ctx.violation("in-flight-exceeds-concurrency", "%s: peak of %d executions in flight with concurrency=%d (after the call returned)" % (
            variant, w.peak, concurrency), wit)
    if variant == "async" and outcome[0] == "return" and isinstance(outcome[1], CountingFuture):
        f = outcome[1]
        if f.transitions > 1 or f.done_callbacks > 1:
            ctx.violation("async-future-completed-more-than-once", "after late completions: transitions=%d" % f.transitions, wit)
        if not f.done() and len(kinds) > 0:
            ctx.violation("async-future-not-completed", "future still pending after every execution finished", wit)


def run_threads(ctx, C, RF, kinds, concurrency, variant, fail_fast, rng, ncompleters, lazy=False):
    w = World(kinds, concurrency, "random", rng, threaded=True)
    session = StubSession(w, RF)
    wit = {"engine": "threads", "kinds": kinds, "concurrency": concurrency, "variant": variant, "fail_fast": fail_fast,
           "completers": ncompleters, "lazy_input": lazy}
    ctx.case(("threads", kinds, concurrency, variant, fail_fast, ncompleters, lazy, rng.getrandbits(32)))
    if lazy:
        ctx.count("runs_threads_with_lazy_input")
    ctx.count("runs_threads")
    box = {}
    stop = threading.Event()
    yield_p = rng.choice([0.0, 0.3, 0.7])
    seeds = [rng.getrandbits(32) for _ in range(ncompleters)]

    def caller():
        try:
            box["outcome"] = call_driver(C, session, len(kinds), variant, fail_fast, concurrency, False, "all" if lazy else False)
        except BaseException as e:
            box["crash"] = e

    def completer(seed):
        import random
        r = random.Random(seed)
        idle = 0
        while True:
            with w.lock:
                item = None
                if w.tasks:
                    item = ("task", w.tasks.pop(0))
                elif w.pending:
                    item = ("future", w.pending.pop(r.randrange(len(w.pending))))
                if item is not None:
                    w.taken += 1
            if item is None:
                if stop.is_set():
                    return
                idle += 1
                time.sleep(0 if idle < 50 else 0.0005)
                continue
            idle = 0
            if r.random() < yield_p:
                time.sleep(0)
            if item[0] == "task":
                fn, a, kw = item[1]
                try:
                    fn(*a, **kw)
                except Exception as e:
                    w.loop_exceptions.append(e)
            else:
                w._complete(*item[1])
            with w.lock:
                w.delivered += 1

    tc = threading.Thread(target=caller, daemon=True)
    comps = [threading.Thread(target=completer, args=(s,), daemon=True) for s in seeds]
    for t in comps:
        t.start()
    tc.start()
    tc.join(60)
    if tc.is_alive():
        # quiescent (nothing pending, nothing in flight) and still blocked: nobody can wake the caller any more
        time.sleep(0.2)
        with w.lock:
            quiet = not w.pending and not w.tasks and w.in_flight == 0
        stop.set()
        if quiet and tc.is_alive():
            ctx.violation("call-never-returns", "%s: caller still blocked 60 s after the last execution finished" % variant, wit)
            return
        from vlib.run import Inconclusive
        raise Inconclusive("threaded run did not finish within 60 s while executions were still in flight")
    w.caller_done = True
    stop.set()
    for t in comps:
        t.join(30)
    if "crash" in box:
        from vlib.run import Inconclusive
        raise Inconclusive("caller thread crashed: %r" % (box["crash"],))
    ctx.count("exceptions_raised_into_the_event_loop_side", len(w.loop_exceptions))
    judge(ctx, w, variant, fail_fast, box["outcome"], wit, first_failure_exact=False)


# ------------------------------------------------------------------------------------------ entry
def run(ctx):
    from vlib import shim
    shim.import_cluster()
    import logging
    logging.getLogger("cassandra").addHandler(logging.NullHandler())
    from cassandra import concurrent as C
    from cassandra.cluster import ResponseFuture as RF
    from vlib.run import Inconclusive

    # the real ResponseFuture must honour the documented add_callbacks contract for the stub session to be faithful
    probe_w = World("S", 1, "fifo", ctx.rng, False)
    s = StubSession(probe_w, RF)
    seen = []
    rf = RF(s, None, "q", None, load_balancer=_Cluster._default_load_balancing_policy)
    rf.add_callbacks(callback=lambda r, a: seen.append(("cb", r, a)), callback_args=(1,), errback=lambda e, a: seen.append(("eb", e, a)), errback_args=(2,))
    rf._set_final_result("x")
    rf.add_callbacks(callback=lambda r: seen.append(("cb-late", r)), errback=lambda e: seen.append(("eb-late", e)))
    rf2 = RF(s, None, "q", None, load_balancer=_Cluster._default_load_balancing_policy)
    err = ValueError("boom")
    rf2._set_final_exception(err)
    rf2.add_callbacks(callback=lambda r: seen.append(("cb2", r)), errback=lambda e: seen.append(("eb2", e)))
    if seen != [("cb", "x", 1), ("cb-late", "x"), ("eb2", err)]:
        raise Inconclusive("ResponseFuture callback contract differs from the documented one: %r" % (seen,))
    ctx.count("response_future_contract_selfcheck")

    ctx.rule = ("pump engine: every behaviour vector over {S,F,R,A,E} (sync ok, sync fail, execute_async raises, async ok, async fail) with "
                "n <= %d statements x concurrency 1..n (+ n+3) x {list, generator, async future} x {collect-all, fail-fast} x pump order "
                "{fifo, lifo, seeded}; seeded random vectors with n <= 12, with_args / iterator / lazy inputs (a source whose __next__ lets pending completions be delivered: "
                "at once when the executor lock is free, at its release otherwise); n = 0; threads engine: seeded random "
                "vectors with 1-3 completer threads. distinct = (engine, vector, concurrency, variant, fail-fast, order/seed)" % (4 if ctx.quick else 5))
    ctx.assume("'first failure' = the first failure produced (exception raised by execute_async or failure delivered to the errback) for the "
               "list and future variants (exact in the pump engine, membership only with real threads); for the generator variant the failure "
               "of the first failing statement in input order, raised after exactly the preceding results were yielded")
    ctx.assume("an exception a driver callback raises into the completing (event loop) side is what ResponseFuture's caller logs and ignores: "
               "counted, not judged; an internal second set_result/set_exception attempt that the driver swallows is counted, not judged")
    ctx.assume("in flight = execute_async called and its ResponseFuture not yet completed (a raising execute_async counts while it runs)")

    real_condition, real_future = C.Condition, C.Future
    rng = ctx.rng
    t0 = time.time()
    budget = 40 if ctx.quick else 420
    try:
        C.Future = CountingFuture
        C.Condition = PumpCondition
        nmax = 4 if ctx.quick else 5
        w_id, nw = (ctx.worker or 0), max(1, ctx.nworkers)
        count = 0
        for n in range(0, nmax + 1):
            for vec in itertools.product(KINDS, repeat=n):
                count += 1
                if count % nw != w_id:
                    continue
                kinds = "".join(vec)
                concs = list(range(1, n + 1)) + [n + 3]
                for conc in concs:
                    for variant, ff in VARIANTS:
                        orders = ["fifo", "lifo", "seeded"] if ("A" in kinds or "E" in kinds) else ["fifo"]
                        for order in orders:
                            run_pump(ctx, C, RF, kinds, conc, variant, ff, order, rng)
                        if len(orders) > 1:      # something completes later: a lazy input lets it complete while statements are pulled
                            run_pump(ctx, C, RF, kinds, conc, variant, ff, "fifo", rng, as_iterator="all")
                            run_pump(ctx, C, RF, kinds, conc, variant, ff, "seeded", rng, as_iterator="some",
                                     with_args=(variant != "async"))
            if ctx.n_violations > 20:
                break
        ctx.count("exhaustive_vectors_up_to_n", nmax)
        n_rand = ctx.scale(2500, 400000)
        for i in range(n_rand):
            if (i & 31) == 0 and time.time() - t0 > budget * 0.7:
                ctx.note("random pump runs stopped by the time budget after %d" % i)
                break
            n = rng.randint(5, 12)
            weights = rng.choice([(1, 1, 1, 1, 1), (1, 0, 0, 6, 1), (4, 1, 1, 4, 1), (0, 0, 0, 1, 0), (2, 0, 1, 2, 0), (1, 2, 2, 1, 2)])
            kinds = "".join(rng.choices(KINDS, weights=weights, k=n))
            variant, ff = rng.choice(VARIANTS)
            conc = rng.choice([1, 2, 3, n - 1, n, n + 5, rng.randint(1, n)])
            run_pump(ctx, C, RF, kinds, max(1, conc), variant, ff, rng.choice(["fifo", "lifo", "seeded", "seeded"]), rng,
                     with_args=(variant != "async" and rng.random() < 0.3), as_iterator=rng.choice([False, False, True, "all", "some", "some"]))
        # arguments the documentation rejects
        for variant in ("list", "async"):
            w = World("S", 1, "fifo", rng, False)
            CURRENT[0] = w
            out = call_driver(C, StubSession(w, RF), 1, variant, False, 0, False, False)
            ctx.count("concurrency_zero_checks")
            if variant == "list" and not (out[0] == "raise" and isinstance(out[1], ValueError)):
                ctx.violation("concurrency-zero-accepted", "execute_concurrent(concurrency=0) -> %r" % (out,), {"variant": variant})
        # real threads
        C.Condition = real_condition
        n_thr = ctx.scale(700, 60000)
        for i in range(n_thr):
            if (i & 15) == 0 and time.time() - t0 > budget:
                ctx.note("threaded runs stopped by the time budget after %d" % i)
                break
            n = rng.randint(1, 12)
            weights = rng.choice([(1, 1, 1, 3, 2), (0, 0, 0, 1, 0), (1, 0, 0, 4, 1), (1, 1, 1, 1, 1)])
            kinds = "".join(rng.choices(KINDS, weights=weights, k=n))
            variant, ff = rng.choice(VARIANTS)
            lazy = rng.random() < 0.35
            conc = rng.choice([max(1, n - 1), n, n + 1, 100]) if lazy else rng.randint(1, n + 1)
            run_threads(ctx, C, RF, kinds, conc, variant, ff, rng, rng.randint(1, 3), lazy=lazy)
    finally:
        C.Condition, C.Future = real_condition, real_future
        CURRENT[0] = None
    ctx.sample({"vector": "SAFEA", "meaning": "S sync ok, A async ok, F sync failure, E async failure, R execute_async raises"})
    ctx.floor_distinct = 5000
    ctx.floor_counters = {"runs_pump": 5000, "runs_threads": 100, "oracle_result_list_checks": 2000, "oracle_first_failure_checks": 1000,
                          "oracle_future_checks": 1000, "oracle_inflight_checks": 5000, "condition_waits_pumped": 5000,
                          "late_completions_after_return": 100, "runs_with_lazy_input": 1000,
                          "completions_deferred_until_lock_release": 500, "runs_threads_with_lazy_input": 30}
