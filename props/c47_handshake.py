"""C47 - a connection is usable only after a successful handshake.

Monitor: the real ``Connection.factory`` (OPTIONS / STARTUP / CREDENTIALS / SASL exchange,
compression negotiation, v5 checksumming switch) runs in the deterministic world against a
scripted node that answers the i-th request of the connection with the i-th item of a reply
script (SUPPORTED variants, READY, AUTHENTICATE, AUTH_CHALLENGE, AUTH_SUCCESS, ERRORs, an
unexpected RESULT, close / reset, silence).  An independent handshake automaton says which
outcomes are acceptable; the bytes the node received say how they were framed and compressed.
"""
import random

PROPERTY = "C47"
LEVEL = "exploration"
ENGINE = "sim"
TECHNIQUE = "runtime monitor in a deterministic world: factory outcome vs an independent handshake automaton, framing/compression of every handshake frame judged at the node"
LEVEL_TEXT = ("Thousands (quick) to hundreds of thousands (thorough) of seeded reply scripts of length <= 6 x authenticator {none, v1 credentials, "
              "PlainText SASL, multi-round SASL stub} x compression {False, True, 'lz4', 'snappy'} x locally installed codecs x server lists x "
              "protocol versions 1-6 + DSE: factory returns iff the script reaches READY / AUTH_SUCCESS legitimately, raises AuthenticationFailed "
              "exactly for authentication failures and a connection-level error otherwise, OPTIONS/STARTUP are never compressed or segmented, "
              "compression only after the accepted STARTUP with a common algorithm, segments exactly on v5/v6 after STARTUP, and a returned "
              "connection answers a request. Held-on-observed scripts; all reachable scripts of length <= 6 over a 12-item core alphabet are enumerated for 27 configurations.")
LEVEL_NOTE = ("Trusted base: sim/world.py, sim/env.py (its connection class implements close() by the contract of the gevent/eventlet/twisted "
              "reactors), sim/s5_handshake.py (segment/compression aware node on spec/segments.py, spec/frames.py). lz4/snappy are absent: "
              "stand-ins honouring the driver's wrapper contracts are registered in locally_supported_compressions / segment_codec_lz4 for "
              "the duration of a case. Interpretation of 'connection error': ConnectionException and subclasses, cassandra.connection."
              "ProtocolError, OperationTimedOut, the socket error (OSError) a reactor passes to defunct(), or the server's ProtocolException "
              "(error code 0x000A: process_msg defuncts the connection with that very object and ControlConnection._try_connect catches that class); "
              "any other decoded server ERROR surfacing raw is a violation, judged by type.")
QUICK_WORKERS = 4
WORKERS = 14

CONNECT_TIMEOUT = 5.0
# every error code of the protocol (spec.frames.ERR) with the extra fields its body carries
ERROR_INFO = {'server': {}, 'protocol': {}, 'bad_credentials': {}, 'overloaded': {}, 'is_bootstrapping': {}, 'truncate': {}, 'syntax': {},
              'unauthorized': {}, 'invalid': {}, 'config': {}, 'cdc_write_failure': {},
              'unavailable': {'consistency': 1, 'required': 2, 'alive': 1},
              'write_timeout': {'consistency': 1, 'received': 0, 'blockfor': 1, 'write_type': 'SIMPLE'},
              'read_timeout': {'consistency': 1, 'received': 0, 'blockfor': 1, 'data_present': False},
              'already_exists': {'keyspace': 'ks', 'table': 't'}, 'unprepared': {'query_id': b'\x01\x02'},
              'function_failure': {'keyspace': 'ks', 'function': 'f', 'arg_types': ['int']},
              'cas_write_unknown': {'consistency': 1, 'received': 0, 'blockfor': 1}}
OTHER_ERRORS = [k for k in ERROR_INFO if k not in ('server', 'protocol', 'bad_credentials')]
# frames whose body cannot be decoded (too short for the first fixed-size field / invalid UTF-8) or whose opcode does not exist
GARBAGE = {'SUPPORTED': b'\x00', 'ERROR': b'\x00\x00', 'AUTHENTICATE': b'\x00', 'AUTHENTICATE_UTF8': b'\x00\x02\xff\xfe',
           'AUTH_CHALLENGE': b'\x00\x00', 'AUTH_SUCCESS': b'\x00\x00', 'RESULT': b'\x00', 'UNKNOWN_OPCODE': b'\x00\x00\x00\x00'}
DSE_AUTH = 'com.datastax.bdp.cassandra.auth.DseAuthenticator'
PWD_AUTH = 'org.apache.cassandra.auth.PasswordAuthenticator'


# ------------------------------------------------------------------------------------------ reference automaton
def common_algorithms(cfg, remote):
    return [a for a in cfg['local'] if a in (remote or [])]


def automaton(cfg, script):
    """Independent reading of the native protocol handshake.

    Returns dict(allowed=set of outcomes, consumed=number of script items that are replies the client acts on,
                 startup=dict of expectations about the STARTUP frame | None, auth_tokens=expected AUTH_RESPONSE tokens | None,
                 creds=bool CREDENTIALS expected, success_token=..., note=...).
    outcomes: 'connected' 'auth_failed' 'timeout' 'conn_error'
    """
    v = cfg['version']
    out = {'allowed': None, 'consumed': 0, 'startup': None, 'auth_tokens': [], 'creds': 0, 'success_token': None, 'last': None, 'eof': False}
    if v == 6 and not cfg['allow_beta']:
        out['allowed'] = {'conn_error'}        # the node answers the beta-flag error before any script item
        return out
    state = 'OPTIONS'
    stub_round = 0
    for item in list(script) + [('silence',)] * 8:
        kind = item[0]
        out['last'] = item
        if kind == 'silence':
            out['allowed'] = {'timeout'}
            return out
        out['consumed'] += 1
        if kind == 'close':
            out['allowed'] = {'conn_error'}
            out['eof'] = True
            return out
        if kind == 'reset':
            out['allowed'] = {'conn_error'}
            return out
        if kind == 'GARBAGE':
            out['allowed'] = {'conn_error'}          # a frame the client cannot decode: the connection is unusable, at any step
            return out
        if kind == 'ERROR':
            ek = item[1]
            if ek in ('protocol', 'protocol_unsupported'):
                out['allowed'] = {'conn_error'}
            elif state in ('CREDS', 'AUTH'):
                out['allowed'] = {'auth_failed'} if ek == 'bad_credentials' else {'auth_failed', 'conn_error'}
            elif ek == 'bad_credentials':
                out['allowed'] = {'auth_failed', 'conn_error'}     # credentials refused before any were sent: either reading is defensible
            else:
                out['allowed'] = {'conn_error'}
            return out
        if state == 'OPTIONS':
            if kind != 'SUPPORTED':
                out['allowed'] = {'conn_error'}
                return out
            opts = item[1]
            if cfg['cql_version'] is not None and cfg['cql_version'] not in opts['CQL_VERSION']:
                out['allowed'] = {'conn_error'}
                return out
            remote = opts.get('COMPRESSION')
            common = common_algorithms(cfg, remote)
            st = {'cql_versions': list(opts['CQL_VERSION']), 'common': common, 'remote': remote}
            out['startup'] = st
            c = cfg['compression']
            if isinstance(c, str) and c not in common:
                # the user forced an algorithm that is not available on both sides: failing and going on without compression are both
                # defensible; going on with another algorithm is not
                st['may_fail'] = True
                out['allowed_if_fails_here'] = {'conn_error'}
            state = 'STARTUP'
            continue
        if state == 'STARTUP':
            if kind == 'READY':
                out['allowed'] = {'connected'}
                return out
            if kind == 'AUTHENTICATE':
                if cfg['auth'] == 'none':
                    out['allowed'] = {'auth_failed'}
                    return out
                if cfg['auth'] == 'dict':
                    out['creds'] += 1
                    state = 'CREDS'
                    continue
                if cfg['auth'] == 'plain':
                    out['auth_tokens'].append(b'PLAIN' if item[1] == DSE_AUTH else b'\x00user\x00secret')
                else:
                    out['auth_tokens'].append(b'stub-initial:' + item[1].encode())
                state = 'AUTH'
                continue
            out['allowed'] = {'conn_error'}
            return out
        if state == 'CREDS':
            if kind == 'READY':
                out['allowed'] = {'connected'}
            else:
                out['allowed'] = {'conn_error'}
            return out
        if state == 'AUTH':
            if kind == 'AUTH_SUCCESS':
                out['allowed'] = {'connected'}
                out['success_token'] = item[1]
                return out
            if kind == 'AUTH_CHALLENGE':
                if cfg['auth'] == 'plain':
                    out['auth_tokens'].append(b'\x00user\x00secret')       # only PLAIN-START is generated for this authenticator
                else:
                    stub_round += 1
                    out['auth_tokens'].append(stub_answer(stub_round, item[1]))
                continue
            if kind == 'READY':
                out['allowed'] = {'connected', 'conn_error'}
                return out
            out['allowed'] = {'conn_error'}
            return out
    out['allowed'] = {'timeout'}
    return out


def stub_answer(round_no, challenge):
    """what the multi-round stub authenticator answers to its round_no-th challenge (None -> empty token on the wire)"""
    if round_no % 3 == 0:
        return b''
    return b'stub-r%d:' % round_no + bytes(challenge or b'')[::-1]


# ------------------------------------------------------------------------------------------ case generation
SUP_COMPRESSION = [[], ['lz4'], ['snappy'], ['snappy', 'lz4'], ['lz4', 'snappy'], ['deflate'], ['lz4', 'snappy'], ['lz4']]


def gen_supported(rng, cfg):
    opts = {'CQL_VERSION': rng.choice([['3.4.5'], ['3.4.5'], ['3.0.0', '3.4.5'], ['3.4.5', '3.0.0']])}
    comp = rng.choice(SUP_COMPRESSION) if rng.random() < 0.8 else (list(cfg['local']) or ['lz4'])
    if rng.random() < 0.02:
        comp = None                   # a server that lists no COMPRESSION option at all
    if rng.random() < 0.5:
        opts = {'PROTOCOL_VERSIONS': ['3/v3', '4/v4', '5/v5'], 'CQL_VERSION': opts['CQL_VERSION']}
    if comp is not None:
        opts['COMPRESSION'] = list(comp)
    return ('SUPPORTED', opts)


def random_token(rng, binary_ok=True):
    r = rng.random()
    if r < 0.2:
        return None
    if r < 0.3:
        return b''
    if r < 0.93 or not binary_ok:
        return rng.choice([b'ok', b'token-\xc3\xa9', b'x' * rng.randint(1, 40), 'zü'.encode('utf-8')])
    return bytes(rng.getrandbits(8) for _ in range(rng.randint(1, 24)))


def gen_item(rng, cfg, state, conform):
    v = cfg['version']
    if conform:
        if state == 'OPTIONS':
            return gen_supported(rng, cfg)
        if state == 'STARTUP':
            if cfg['auth'] == 'none':
                return ('READY',) if rng.random() < 0.8 else ('AUTHENTICATE', PWD_AUTH)
            cls = rng.choice([PWD_AUTH, PWD_AUTH, DSE_AUTH, 'x.y.CustomAuth'])
            return ('AUTHENTICATE', cls) if rng.random() < 0.85 else ('READY',)
        if state == 'CREDS':
            return ('READY',) if rng.random() < 0.6 else ('ERROR', 'bad_credentials')
        if state == 'AUTH':
            r = rng.random()
            if cfg['auth'] == 'plain':
                if cfg.get('_dse') and not cfg.get('_dse_done'):
                    cfg['_dse_done'] = True
                    return ('AUTH_CHALLENGE', b'PLAIN-START')
                return ('AUTH_SUCCESS', random_token(rng)) if r < 0.7 else ('ERROR', 'bad_credentials')
            if r < 0.45:
                return ('AUTH_CHALLENGE', random_token(rng))
            return ('AUTH_SUCCESS', random_token(rng)) if r < 0.85 else ('ERROR', 'bad_credentials')
    # deviation: anything the generator is allowed to say in this state
    pool = [('READY',), ('RESULT',), ('close',), ('reset',), ('silence',), ('ERROR', 'server'), ('ERROR', 'protocol'),
            ('ERROR', rng.choice(OTHER_ERRORS)), ('ERROR', rng.choice(OTHER_ERRORS)), ('ERROR', 'bad_credentials'),
            ('GARBAGE', rng.choice(sorted(GARBAGE))), ('GARBAGE', rng.choice(sorted(GARBAGE))),
            ('ERROR', 'protocol_unsupported'), gen_supported(rng, cfg), ('AUTHENTICATE', PWD_AUTH), ('AUTH_SUCCESS', random_token(rng, False))]
    if cfg['auth'] != 'plain':
        pool.append(('AUTH_CHALLENGE', random_token(rng)))
    item = rng.choice(pool)
    if state == 'CREDS' and item[0] == 'AUTHENTICATE':
        item = ('RESULT',)            # a second AUTHENTICATE after CREDENTIALS: v1 does not say what a client should do (see ctx.assume)
    return item


def next_state(cfg, state, item):
    """generator-side bookkeeping only (the verdict comes from automaton())"""
    k = item[0]
    if k in ('silence', 'close', 'reset', 'ERROR', 'GARBAGE'):
        return None
    if state == 'OPTIONS':
        return 'STARTUP' if k == 'SUPPORTED' else None
    if state == 'STARTUP':
        if k == 'AUTHENTICATE' and cfg['auth'] != 'none':
            cfg['_dse'] = item[1] == DSE_AUTH
            return 'CREDS' if cfg['auth'] == 'dict' else 'AUTH'
        return None
    if state == 'AUTH' and k == 'AUTH_CHALLENGE':
        return 'AUTH'
    return None


def gen_case(rng):
    v = rng.choice([1, 2, 3, 3, 4, 4, 4, 5, 5, 5, 5, 6, 0x41, 0x42])
    local = rng.choice([[], ['lz4'], ['lz4'], ['snappy'], ['lz4', 'snappy'], ['lz4', 'snappy']])
    compression = rng.choice([False, True, True, True, 'lz4', 'lz4', 'snappy'])
    if isinstance(compression, str) and compression not in local and rng.random() < 0.8:
        compression = True            # forcing an algorithm that is not installed is kept rare (recorded finding)
    if v == 1:
        auth = rng.choice(['none', 'dict', 'dict'])
    else:
        auth = rng.choice(['none', 'plain', 'stub', 'stub'])
    cfg = {'version': v, 'local': local, 'compression': compression, 'auth': auth,
           'cql_version': rng.choice([None, None, None, '3.4.5', '9.9.9']) if rng.random() < 0.4 else None,
           'allow_beta': (v == 6 and rng.random() < 0.85) or (v != 6 and rng.random() < 0.05),
           'server_compresses': rng.random() < 0.5, 'chunking': rng.random() < 0.4, 'no_compact': rng.random() < 0.1}
    script = []
    state = 'OPTIONS'
    p_conform = rng.choice([0.6, 0.85, 0.97])
    for _ in range(rng.randint(1, 6)):
        item = gen_item(rng, cfg, state, rng.random() < p_conform)
        script.append(item)
        state = next_state(cfg, state, item)
        if state is None:
            break
    cfg.pop('_dse', None)
    cfg.pop('_dse_done', None)
    return cfg, script


def enumerated_cases(rng):
    """every reachable script of length <= 6 over a core alphabet (a script ends at its first terminal item), for representative configurations"""
    sup = ('SUPPORTED', {'CQL_VERSION': ['3.4.5'], 'COMPRESSION': ['lz4', 'snappy']})
    alpha = [sup, ('READY',), ('AUTHENTICATE', PWD_AUTH), ('AUTH_CHALLENGE', b'c1'), ('AUTH_SUCCESS', b'ok'), ('ERROR', 'bad_credentials'),
             ('ERROR', 'server'), ('ERROR', 'protocol'), ('RESULT',), ('close',), ('reset',), ('silence',)]
    alpha += [('ERROR', k) for k in OTHER_ERRORS] + [('GARBAGE', k) for k in sorted(GARBAGE)]
    cfgs = []
    for v, auth in ((1, 'dict'), (1, 'none'), (4, 'none'), (4, 'stub'), (4, 'plain'), (5, 'none'), (5, 'stub'), (0x42, 'stub'), (2, 'stub')):
        for compression, local in ((True, ['lz4']), (False, ['lz4']), ('snappy', ['lz4', 'snappy'])):
            cfgs.append({'version': v, 'local': local, 'compression': compression, 'auth': auth, 'cql_version': None, 'allow_beta': False,
                         'server_compresses': v % 2 == 0, 'chunking': False, 'no_compact': False})
    out = []

    def extend(cfg, script, st):
        for item in alpha:
            if item[0] == 'AUTH_CHALLENGE' and cfg['auth'] == 'plain':
                continue
            if st == 'CREDS' and item[0] == 'AUTHENTICATE':
                continue
            s2 = script + [item]
            out.append((dict(cfg), s2))
            st2 = next_state({'auth': cfg['auth']}, st, item)
            if st2 is not None and len(s2) < 6:
                extend(cfg, s2, st2)
    for cfg in cfgs:
        extend(cfg, [], 'OPTIONS')
    rng.shuffle(out)
    return out


# ------------------------------------------------------------------------------------------ running one batch
def classify(exc):
    import cassandra
    from cassandra.connection import ConnectionException, ProtocolError
    from cassandra.protocol import ErrorMessage
    if isinstance(exc, cassandra.AuthenticationFailed):
        return 'auth_failed'
    if isinstance(exc, cassandra.OperationTimedOut):
        return 'timeout'
    from cassandra.protocol import ProtocolException
    if isinstance(exc, (ConnectionException, ProtocolError, ProtocolException, OSError)):
        # ProtocolException: process_msg defuncts the connection with the server's protocol error itself (ControlConnection._try_connect
        # catches exactly that class for the beta-version downgrade); every other server ERROR must come wrapped
        return 'conn_error'
    if isinstance(exc, ErrorMessage):
        return 'raw_server_error'
    return 'leak'


def make_stub_authenticator(record):
    from cassandra.auth import Authenticator

    class StubSasl(Authenticator):
        def __init__(self):
            self.round = 0

        def initial_response(self):
            return b'stub-initial:' + (self.server_authenticator_class or '').encode()

        def evaluate_challenge(self, challenge):
            self.round += 1
            record.append(('challenge', challenge))
            a = stub_answer(self.round, challenge)
            return None if a == b'' else a

        def on_authentication_success(self, token):
            record.append(('success', token))
    return StubSasl()


def run_batch(ctx, cases, seed):
    """cases: list of (cfg, script). Returns list of (cfg, script, violations[(mech, what)], info)."""
    from sim.env import SimEnv
    from sim import world as W
    from sim import s5_handshake as H
    from spec import frames as F
    from cassandra.connection import DefaultEndPoint
    from cassandra.protocol import OptionsMessage, QueryMessage, SupportedMessage, ResultMessage
    from cassandra import ConsistencyLevel
    from cassandra.auth import PlainTextAuthenticator
    random.seed(seed)
    ch = W.RandomChooser(random.Random(seed), p_time=0.0, p_preempt=0.15)
    env = SimEnv(ch, addresses=['127.0.0.1'], max_steps=400000, max_virtual_time=100000.0)
    H.upgrade(env)
    node = env.net.nodes['127.0.0.1']
    node.supported_versions = {1, 2, 3, 4, 5, 6, 0x41, 0x42}
    node.validate_startup_compression = False
    scripts = {}         # conn id -> [script, position, sent-items]
    cur = {'cfg': None}

    def behaviour(node, cstate, req):
        ent = scripts.get(cstate.conn.sim_id)
        if ent is None or ent[0] is None:
            return None
        script, pos, sent = ent
        item = script[pos] if pos < len(script) else ('silence',)
        ent[1] += 1
        sent.append((req['op'], item))
        k = item[0]
        if k in ('silence', 'close', 'reset'):
            return (k,)
        if k == 'SUPPORTED':
            return node.reply(cstate, req, 'SUPPORTED', F.body_supported(item[1]))
        if k == 'READY':
            return node.reply(cstate, req, 'READY', b'')
        if k == 'AUTHENTICATE':
            return node.reply(cstate, req, 'AUTHENTICATE', F.body_authenticate(item[1]))
        if k == 'AUTH_CHALLENGE':
            return node.reply(cstate, req, 'AUTH_CHALLENGE', F.body_auth_challenge(item[1]))
        if k == 'AUTH_SUCCESS':
            return node.reply(cstate, req, 'AUTH_SUCCESS', F.body_auth_success(item[1]))
        if k == 'RESULT':
            return node.void(cstate, req)
        if k == 'GARBAGE':
            v = req['version']
            if item[1] == 'UNKNOWN_OPCODE':
                return ('reply', F.frame(v, 0, req['stream'], 0x55, GARBAGE[item[1]]))
            return ('reply', F.frame(v, 0, req['stream'], F.OPNUM[item[1].split('_UTF8')[0]], GARBAGE[item[1]]))
        if k == 'ERROR':
            if item[1] in ERROR_INFO and item[1] != 'protocol':
                return node.error(cstate, req, item[1], 'scripted %s' % item[1], **ERROR_INFO[item[1]])
            if item[1] == 'protocol_unsupported':
                return node.error(cstate, req, 'protocol', 'Invalid or unsupported protocol version (%d); supported versions are (3/v3, 4/v4)' % req['version'])
            return node.error(cstate, req, item[1], 'scripted %s' % item[1])
        raise ValueError(item)
    node.behaviour = behaviour
    results = []
    with env:
        for cfg, script in cases:
            v = cfg['version']
            env.net.chunking = cfg['chunking']
            node.compress_responses = cfg['server_compresses']
            ref = automaton(cfg, script)
            auth_record = []
            if cfg['auth'] == 'none':
                authenticator = None
            elif cfg['auth'] == 'dict':
                authenticator = {'username': 'user', 'password': 'secret'}
            elif cfg['auth'] == 'plain':
                authenticator = PlainTextAuthenticator('user', 'secret')
            else:
                authenticator = make_stub_authenticator(auth_record)
            cid = len(env.net.conns)
            scripts[cid] = [script, 0, []]
            t_start = env.world.now
            env.world.preempt = True
            parse_before, framing_before = len(env.net.parse_failures), len(env.net.framing_errors)
            with H.StandIns(cfg['local']):
                try:
                    conn = env.conn_class.factory(DefaultEndPoint('127.0.0.1'), CONNECT_TIMEOUT, authenticator=authenticator,
                                                  compression=cfg['compression'], protocol_version=v, cql_version=cfg['cql_version'],
                                                  allow_beta_protocol_version=cfg['allow_beta'], no_compact=cfg['no_compact'])
                    outcome, exc = 'connected', None
                except (W.WorldLimit, W.WorldHang):
                    raise
                except Exception as e:        # noqa
                    conn, outcome, exc = None, classify(e), e
                env.world.preempt = False
                sent_at_return = list(scripts[cid][2])
                c = env.net.conns[cid] if cid < len(env.net.conns) else None
                if c is None:
                    raise RuntimeError("harness: no connection object was created")
                cs = env.net.cstates.get(cid)
                viol = []
                info = {'cfg': dict(cfg), 'script': [repr(x)[:90] for x in script], 'outcome': outcome, 'exception': repr(exc)[:300] if exc is not None else None,
                        'allowed': sorted(ref['allowed']), 'replies_before_return': [(a, repr(b)[:60]) for a, b in sent_at_return],
                        'elapsed_virtual': round(env.world.now - t_start, 3)}
                allowed = set(ref['allowed'])
                st = ref['startup']
                startup_reqs = [f for f in cs.frames if f[0] is not None and f[0]['op'] == 'STARTUP']
                if st and st.get('may_fail') and not startup_reqs:
                    allowed |= ref['allowed_if_fails_here']
                # ---- outcome
                if outcome == 'raw_server_error':
                    viol.append(('server-error-surfaced-raw', 'factory raised the decoded server message %s itself (%s) instead of a ConnectionException%s' % (
                        type(exc).__name__, str(exc)[:120], ' / AuthenticationFailed' if 'auth_failed' in ref['allowed'] else '')))
                elif outcome == 'leak':
                    viol.append((leak_slug(cfg, script, ref, exc, len(sent_at_return)), 'factory raised %s: %s' % (type(exc).__name__, str(exc)[:200])))
                elif outcome == 'connected' and 'connected' not in allowed:
                    if ref['eof'] and c.is_closed and sent_at_return and sent_at_return[-1][1][0] == 'close' and len(sent_at_return) == ref['consumed']:
                        viol.append(('server-eof-during-handshake-reported-ready',
                                     'the server closed the connection instead of answering %s; factory returned the (closed) connection as ready' % (
                                         sent_at_return[-1][0] if sent_at_return else '?',)))
                    else:
                        viol.append(('ready-without-ready-or-auth-success', 'factory returned a connection after replies %r; acceptable: %s' % (
                            [repr(b)[:40] for a, b in sent_at_return], sorted(allowed))))
                elif outcome not in allowed:
                    if 'connected' in allowed:
                        viol.append((reject_slug(cfg, script, ref, exc), 'the handshake reached %r legitimately but factory raised %s: %s' % (
                            ref['last'][0], type(exc).__name__, str(exc)[:160])))
                    elif outcome == 'auth_failed':
                        viol.append(('connection-error-reported-as-authentication-failure', 'factory raised %r; acceptable: %s' % (exc, sorted(allowed))))
                    elif allowed == {'auth_failed'}:
                        viol.append(('authentication-failure-reported-as-connection-error', 'factory raised %s: %s; acceptable: AuthenticationFailed' % (
                            type(exc).__name__, str(exc)[:160])))
                    elif outcome == 'timeout':
                        viol.append(('handshake-failure-only-detected-by-timeout', 'factory waited the whole connect timeout although the server answered %r' % (ref['last'],)))
                    else:
                        viol.append(('outcome-not-acceptable', 'outcome %s (%r); acceptable: %s' % (outcome, exc, sorted(allowed))))
                if outcome == 'connected':
                    n_ok = ref['consumed']
                    if 'connected' in allowed and len(sent_at_return) < n_ok:
                        viol.append(('ready-before-final-reply', 'factory returned after %d replies, the handshake needs %d' % (len(sent_at_return), n_ok)))
                    if 'connected' in allowed and (c.is_closed or c.is_defunct or c.last_error):
                        viol.append(('ready-connection-is-closed', 'closed=%s defunct=%s last_error=%r' % (c.is_closed, c.is_defunct, c.last_error)))
                else:
                    if not (c.is_closed or c.is_defunct):
                        viol.append(('failed-handshake-leaves-connection-open', 'factory raised %s but the connection is neither closed nor defunct' % type(exc).__name__))
                # ---- frames at the node
                fe = env.net.framing_errors[framing_before:]
                if fe:
                    viol.append(('framing-mismatch-at-node', '%s' % (fe[0][2],)))
                accepted_at = cs.startup_accepted_at
                for idx, (req, framing, compressed, err) in enumerate(cs.frames):
                    if req is None:
                        if 'must not be compressed' in err:
                            viol.append(('options-or-startup-compressed', err))
                        elif 'no decompressor' in err or 'compression flag on a v5' in err:
                            viol.append(('compressed-frame-without-negotiated-algorithm', 'frame %d: %s' % (idx, err)))
                        else:
                            viol.append(('unparseable-handshake-frame', 'frame %d: %s' % (idx, err)))
                        continue
                    op = req['op']
                    if req['version'] != v:
                        viol.append(('frame-with-another-version', '%s sent with version %d on a v%d connection' % (op, req['version'], v)))
                    after = accepted_at is not None and idx > accepted_at
                    if op in ('OPTIONS', 'STARTUP') and not after and (compressed or framing != 'frame'):
                        viol.append(('options-or-startup-compressed', '%s compressed=%s framing=%s' % (op, compressed, framing)))
                    if compressed and not after:
                        viol.append(('compression-before-startup-accepted', '%s (frame %d) carries the compression flag before the server accepted STARTUP' % (op, idx)))
                    if compressed and after and cs.algo is None:
                        viol.append(('compressed-frame-without-negotiated-algorithm', '%s (frame %d) compressed but STARTUP named no algorithm' % (op, idx)))
                    want_seg = after and v in (5, 6)
                    if (framing == 'segment') != want_seg:
                        viol.append(('segment-framing-at-wrong-point', '%s (frame %d) arrived as %s on v%d, STARTUP accepted: %s' % (op, idx, framing, v, after)))
                    if bool(req['beta']) != bool(cfg['allow_beta']):
                        viol.append(('beta-flag-differs-from-configuration', '%s beta flag %s, allow_beta_protocol_version=%s' % (op, req['beta'], cfg['allow_beta'])))
                if cs.frames and (cs.frames[0][0] is None or cs.frames[0][0]['op'] != 'OPTIONS'):
                    viol.append(('first-frame-not-options', repr(cs.frames[0][0] and cs.frames[0][0]['op'])))
                for (req, framing, compressed, err) in cs.frames:
                    if req is None or req['op'] != 'STARTUP':
                        continue
                    o = req['options']
                    algo = o.get('COMPRESSION')
                    if st is None:
                        viol.append(('startup-without-supported', 'STARTUP sent although OPTIONS was not answered with an acceptable SUPPORTED'))
                        continue
                    if algo is not None:
                        if algo not in st['common']:
                            viol.append(('startup-names-algorithm-not-common', 'COMPRESSION=%s, local %r, server %r' % (algo, cfg['local'], st['remote'])))
                        if cfg['compression'] is False:
                            viol.append(('startup-compression-although-disabled', 'COMPRESSION=%s with compression=False' % algo))
                        if isinstance(cfg['compression'], str) and algo != cfg['compression']:
                            viol.append(('startup-names-other-than-forced-algorithm', 'COMPRESSION=%s with compression=%r' % (algo, cfg['compression'])))
                        if v in (5, 6) and algo != 'lz4':
                            viol.append(('startup-v5-names-non-lz4', 'COMPRESSION=%s on v%d' % (algo, v)))
                    if o.get('CQL_VERSION') not in st['cql_versions'] or (cfg['cql_version'] and o.get('CQL_VERSION') != cfg['cql_version']):
                        viol.append(('startup-cql-version-not-offered', 'CQL_VERSION=%r, offered %r, configured %r' % (o.get('CQL_VERSION'), st['cql_versions'], cfg['cql_version'])))
                    if bool(o.get('NO_COMPACT')) != bool(cfg['no_compact']):
                        viol.append(('startup-no-compact-differs', 'NO_COMPACT=%r, configured %r' % (o.get('NO_COMPACT'), cfg['no_compact'])))
                # ---- checksumming flag of the connection object
                chk = bool(c._is_checksumming_enabled)
                if chk and (v not in (5, 6) or accepted_at is None):
                    viol.append(('checksumming-enabled-wrongly', '_is_checksumming_enabled on v%d, STARTUP accepted: %s' % (v, accepted_at is not None)))
                if outcome == 'connected' and 'connected' in allowed and v in (5, 6) and not chk:
                    viol.append(('checksumming-not-enabled-on-v5', 'ready v%d connection without checksumming' % v))
                # ---- authentication exchange content
                creds = [f[0]['credentials'] for f in cs.frames if f[0] is not None and f[0]['op'] == 'CREDENTIALS']
                toks = [f[0]['token'] for f in cs.frames if f[0] is not None and f[0]['op'] == 'AUTH_RESPONSE']
                if creds and (cfg['auth'] != 'dict' or any(x != {'username': 'user', 'password': 'secret'} for x in creds) or len(creds) > ref['creds']):
                    viol.append(('credentials-frame-unexpected', '%r' % (creds,)))
                exp = ref['auth_tokens']
                if [bytes(t or b'') for t in toks] != [bytes(t) for t in exp[:len(toks)]] or len(toks) > len(exp):
                    viol.append(('auth-response-tokens-differ', 'sent %r, expected %r' % (toks, exp)))
                if outcome == 'connected' and 'connected' in allowed and len(toks) != len(exp):
                    viol.append(('auth-response-tokens-differ', 'sent %r, expected %r' % (toks, exp)))
                if outcome == 'connected' and cfg['auth'] == 'stub' and ref['success_token'] is not None and 'connected' in ref['allowed'] and ref['last'][0] == 'AUTH_SUCCESS':
                    got = [x[1] for x in auth_record if x[0] == 'success']
                    want = ref['success_token']
                    if len(got) != 1 or (got[0] or '') != want.decode('utf-8'):
                        viol.append(('authenticator-not-told-of-success', 'on_authentication_success calls %r, server token %r' % (got, want)))
                # ---- a ready connection answers a request (framing / compression agreed by both ends)
                if outcome == 'connected' and 'connected' in allowed and not viol:
                    scripts[cid][0] = None
                    env.world.preempt = True
                    try:
                        r1 = conn.wait_for_response(OptionsMessage(), timeout=2.0)
                        r2 = conn.wait_for_response(QueryMessage(query="SELECT release_version FROM system.local WHERE key='local' /* " + 'p' * 200 + " */",
                                                                 consistency_level=ConsistencyLevel.ONE), timeout=2.0)
                        okr = isinstance(r1, SupportedMessage) and isinstance(r2, ResultMessage)
                        why = '%r %r' % (r1, r2)
                    except (W.WorldLimit, W.WorldHang):
                        raise
                    except Exception as e:        # noqa
                        okr, why = False, '%s: %s' % (type(e).__name__, e)
                    env.world.preempt = False
                    fe = env.net.framing_errors[framing_before:]
                    pf = env.net.parse_failures[parse_before:]
                    if not okr or fe or pf:
                        viol.append(('connection-unusable-after-handshake', 'requests after the handshake: %s %r %r' % (why[:200], fe[:1], pf[:1])))
                    else:
                        info['probe'] = 'ok'
                        used = [f for f in cs.frames[-2:] if f[0] is not None]
                        info['probe_compressed'] = any(f[2] for f in used)
                        info['probe_segments'] = any(f[1] == 'segment' for f in used)
                        if cs.algo and v not in (5, 6) and not any(f[2] for f in used):
                            info['probe_uncompressed_although_negotiated'] = True
                if conn is not None:
                    conn.close()
                elif not c.is_closed:
                    c.close()
            env.world.settle(advance=False)
            harness = list(env.world.errors)
            del env.world.errors[:]
            info['harness'] = [repr(h)[:300] for h in harness]
            info['frames'] = [(f[0]['op'] if f[0] else None, f[1], f[2]) for f in cs.frames]
            results.append((cfg, script, dedupe(viol), info))
    return results


def dedupe(viol):
    seen, out = set(), []
    for m, w in viol:
        if m not in seen:
            seen.add(m)
            out.append((m, w))
    return out


def leak_slug(cfg, script, ref, exc, n_replies):
    """narrow classifiers for the leaked-exception mechanisms that are recorded findings; everything else keeps the generic slug"""
    name = type(exc).__name__
    first = script[0] if script else None
    if name != 'KeyError' or n_replies != 1 or first is None or first[0] != 'SUPPORTED' or (cfg['version'] == 6 and not cfg['allow_beta']):
        return 'leaked-exception-class-' + name
    remote = first[1].get('COMPRESSION')
    if remote is None and str(exc) == "'COMPRESSION'":
        return 'supported-without-compression-option-leaks-keyerror'
    c = cfg['compression']
    if (isinstance(c, str) and c not in cfg['local'] and c in (remote or []) and common_algorithms(cfg, remote) and str(exc) == repr(c)
            and (cfg['cql_version'] is None or cfg['cql_version'] in first[1]['CQL_VERSION'])):
        return 'forced-compression-not-installed-locally-leaks-keyerror'
    return 'leaked-exception-class-' + name


def reject_slug(cfg, script, ref, exc):
    last = ref['last']
    if last[0] == 'AUTH_SUCCESS' and last[1] is not None:
        try:
            bytes(last[1]).decode('utf-8')
        except UnicodeDecodeError:
            if 'codec can' in str(exc) or 'UnicodeDecodeError' in str(exc):
                return 'auth-success-token-not-utf8-fails-handshake'
    return 'legitimate-handshake-rejected'


# ------------------------------------------------------------------------------------------ driver
def case_key(cfg, script):
    return repr((sorted((k, repr(val)) for k, val in cfg.items() if k not in ('chunking',)), [repr(x) for x in script]))


def run(ctx):
    from vlib import shim
    shim.import_cluster()
    from vlib.run import Inconclusive
    from sim.world import WorldLimit, WorldHang
    import cassandra.connection as C
    if C.locally_supported_compressions or C.segment_codec_lz4 is not None:
        ctx.note("real compression libraries are importable here: the stand-ins replace them for the duration of each case")
    ctx.rule = ("a case = (protocol version, locally installed codecs, compression setting, authenticator kind, cql_version, beta flag, server "
                "compresses answers, reply script of <= 6 items); seeded random walks that follow the protocol with probability 0.6-0.97 per step and "
                "deviate otherwise, plus all reachable scripts of length <= 6 over a 12-item alphabet for 27 configurations; distinct by that tuple; "
                "non-trivial = the script has at least two items")
    ctx.assume("lz4/snappy absent: zlib-based stand-ins registered under those names (lz4 wrapper contract: 4-byte BE length + block); the property "
               "concerns negotiation, flags and framing, not the algorithms")
    ctx.assume("not generated because the correct client behaviour is not defined by the protocol texts: SUPPORTED without CQL_VERSION, AUTHENTICATE repeated after CREDENTIALS, challenges other than PLAIN-START for "
               "PlainTextAuthenticator (it raises its own bare Exception), v1 with SASL authenticators / v2+ with credential dicts (Cluster refuses these)")
    ctx.assume("a server ERROR other than bad_credentials/protocol while authenticating may surface as AuthenticationFailed or as a connection error; "
               "READY in answer to AUTH_RESPONSE may be accepted or refused; a forced compression algorithm that is not available on both sides may "
               "fail the connection or go on uncompressed")
    rng = ctx.rng
    budget = 34 if ctx.quick else 400
    import time
    t_run0 = time.time()          # the budget counts from here (imports done); at most 25 s of start-up slack on a loaded machine
    base = ctx.seed * 1000003 + (ctx.worker or 0) * 100003
    n_batches = ctx.scale(400, 60000)
    batch_size = 40
    allc = enumerated_cases(random.Random(ctx.seed))
    enum = allc[(ctx.worker or 0)::max(1, ctx.nworkers)]
    ctx.note("worker %s enumerates %d of %d short scripts" % (ctx.worker, len(enum), len(allc)))
    b = 0
    while b < n_batches:
        if min(budget - (time.time() - t_run0), ctx.time_left(budget + 25)) < 0 and b >= 10:
            ctx.note("stopped by the time budget after %d batches (%d enumerated scripts left)" % (b, len(enum)))
            break
        if enum:
            cases, enum = enum[:batch_size], enum[batch_size:]
        else:
            cases = [gen_case(rng) for _ in range(batch_size)]
        b += 1
        try:
            results = run_batch(ctx, cases, base + b)
        except WorldLimit:
            ctx.count("batches_over_budget")
            continue
        except WorldHang as e:
            ctx.violation("factory-hangs", "Connection.factory blocked forever: %s" % e, {"batch_seed": base + b})
            continue
        except Exception as e:        # noqa
            import traceback
            raise Inconclusive("batch seed %d failed in the harness: %s: %s\n%s" % (base + b, type(e).__name__, e, traceback.format_exc()[-800:]))
        for cfg, script, viol, info in results:
            ctx.case(case_key(cfg, script), nontrivial=len(script) >= 2)
            ctx.count("handshakes")
            ctx.count("outcome_" + info['outcome'])
            ctx.count("frames_judged_at_node", len(info['frames']))
            if info.get('probe') == 'ok':
                ctx.count("ready_connections_probed_with_requests")
                if info.get('probe_compressed'):
                    ctx.count("ready_connections_using_frame_compression")
                if info.get('probe_segments'):
                    ctx.count("ready_connections_using_segments")
            if any(f[1] == 'segment' for f in info['frames']):
                ctx.count("handshakes_with_segment_framing")
            if any(f[0] == 'AUTH_RESPONSE' for f in info['frames']):
                ctx.count("handshakes_with_sasl_exchange")
            if any(f[0] == 'CREDENTIALS' for f in info['frames']):
                ctx.count("handshakes_with_v1_credentials")
            if any(f[0] == 'STARTUP' for f in info['frames']):
                ctx.count("startup_frames_checked")
            if info['harness'] and not viol:
                raise Inconclusive("harness error in a handshake (batch seed %d): %r" % (base + b, info['harness'][:2]))
            for mech, what in viol:
                ctx.violation(mech, "%s [v%d auth=%s compression=%r local=%r script=%s]" % (
                    what, cfg['version'], cfg['auth'], cfg['compression'], cfg['local'], ' '.join(x[0] if x[0] != 'ERROR' else 'ERROR:' + x[1] for x in script)),
                    info)
            if not viol and len(ctx.samples) < 6 and len(script) >= 4 and rng.random() < 0.05:
                ctx.sample(info)
    if not enum:
        ctx.count("workers_that_completed_the_script_enumeration")
    ctx.floor_distinct = 1500 if ctx.quick else 40000
    k = 1 if ctx.quick else 10
    ctx.floor_counters = {"handshakes": 2000 * k, "outcome_connected": 300 * k, "outcome_auth_failed": 60 * k, "outcome_conn_error": 300 * k,
                          "outcome_timeout": 50 * k, "ready_connections_probed_with_requests": 200 * k, "handshakes_with_segment_framing": 50 * k,
                          "handshakes_with_sasl_exchange": 150 * k, "handshakes_with_v1_credentials": 20 * k, "startup_frames_checked": 1000 * k,
                          "ready_connections_using_frame_compression": 20 * k, "workers_that_completed_the_script_enumeration": 1}
