"""Shared harness of C37 / C35: cqlengine on a real Session of the deterministic world whose ``execute`` is intercepted.

    with CqeSession('c37', handler) as h:      # handler(query, parameters) -> result object handed back to cqlengine
        ... use cqlengine models (their __connection__ is None: the default connection registered here) ...

The Session/Cluster are the driver's real objects (SimEnv): cqlengine needs ``session.cluster``, ``session.encoder``,
``cluster._config_mode``, ``cluster.protocol_version`` ... ; nothing reaches the simulated node because ``execute`` is replaced.
On exit the connection is unregistered (which shuts the cluster down) and the world is settled.
"""
import random


class CqeSession(object):
    def __init__(self, name, handler, seed=1, protocol_version=4):
        self.name = name
        self.handler = handler
        self.seed = seed
        self.pv = protocol_version
        self.env = None
        self.session = None

    def __enter__(self):
        from vlib import shim
        shim.import_cluster()
        from sim.env import SimEnv
        from sim import world as W
        from cassandra.cqlengine import connection as CQ
        random.seed(self.seed)
        ch = W.RandomChooser(random.Random(self.seed), p_time=0.0, p_preempt=0.0)
        self.env = SimEnv(ch, addresses=['127.0.0.1'])
        self.env.__enter__()
        try:
            cluster = self.env.cluster(protocol_version=self.pv)
            self.session = cluster.connect()
            self._real_execute = self.session.execute
            handler = self.handler

            def intercepted_execute(query, parameters=None, *a, **kw):
                return handler(query, parameters)
            self.session.execute = intercepted_execute
            CQ.register_connection(self.name, session=self.session, default=True)
        except BaseException:
            self.env.__exit__(None, None, None)
            raise
        return self

    def __exit__(self, *exc):
        from cassandra.cqlengine import connection as CQ
        try:
            self.session.execute = self._real_execute
            CQ.unregister_connection(self.name)          # shuts the cluster down
            self.env.world.settle()
        finally:
            self.env.__exit__(None, None, None)
        return False

    def harness_errors(self):
        return list(self.env.world.errors) + [('parse', p) for p in self.env.net.parse_failures]
