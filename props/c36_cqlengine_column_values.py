"""C36 - cqlengine column values are stored as the core driver would store them.

Monitor: for every cqlengine column class (scalars, List/Set/Map/Tuple, UserDefinedType, nested) and
generated valid Python values the real ``col.to_database(col.validate(v))`` is serialized with the
core type the column names and the bytes are compared with the independent reference encoding
(spec/cqlcodec.py) of the CQL value the Python value denotes.  Datetimes cover years 1-9999 at
millisecond and microsecond precision, naive (= UTC) and aware (fixed offsets, ``zoneinfo`` DST zones,
``pytz``-localized); their expected value is the exact millisecond instant by integer arithmetic
(floor below one millisecond).
"""
import datetime
import decimal
import ipaddress

PROPERTY = "C36"
LEVEL = "exploration"
ENGINE = "spec"
TECHNIQUE = "runtime monitor: differential of cqlengine to_database + core serialize against an independent reference codec and integer-arithmetic instants"
LEVEL_TEXT = ("Every cqlengine column class is instantiated (alone and nested in collections / tuples / user types) and fed tens of "
              "thousands (quick) to ~1M (thorough) generated valid Python values in all accepted input forms; the bytes the core type "
              "writes for to_database(validate(v)) must equal the independent encoding of the denoted CQL value. Timestamps are judged "
              "against integer arithmetic over the full year range, incl. DST zones. Held-on-observed over the generated values.")
LEVEL_NOTE = ("Trusted base: spec/cqlcodec.py, Python's datetime/zoneinfo arithmetic (utcoffset() of the value defines the instant). "
              "Not generated (stated assumptions): floats for Decimal/Integer columns, ints for Date columns, bytearray for Text, "
              "timestamps inside sets / map keys, mixed-sign durations.")
WORKERS = 14

EPOCH_NAIVE = datetime.datetime(1970, 1, 1)
US = datetime.timedelta(microseconds=1)


def _td_us(td):
    return (td.days * 86400 + td.seconds) * 10 ** 6 + td.microseconds


def instant_ms(dt):
    """Exact millisecond instant of a datetime (naive = UTC) by integer arithmetic, floor below 1 ms."""
    off = dt.utcoffset() if dt.tzinfo is not None else None
    us = _td_us(dt.replace(tzinfo=None) - EPOCH_NAIVE)
    if off is not None:
        us -= _td_us(off)
    return us // 1000, us % 1000


def run(ctx):
    from props import _cqlgen as G
    from spec import cqlcodec as S
    from vlib.run import Inconclusive
    from vlib import shim
    shim.import_cluster()               # cqlengine.usertype imports cassandra.cluster (no asyncore/libev on 3.12)
    from cassandra.cqlengine import columns as C
    from cassandra.cqlengine import usertype as UT
    from cassandra import util

    rng = ctx.rng
    G.ORDERED_SETS = True
    ctx.count("spec_selfcheck_cases", S.selfcheck())

    # ---------------------------------------------------------------- zones
    zones = []
    try:
        import zoneinfo
        for name in ('America/New_York', 'Europe/Berlin', 'Australia/Lord_Howe', 'Asia/Kolkata'):
            zones.append(('zoneinfo:' + name, zoneinfo.ZoneInfo(name)))
        have_zoneinfo = True
    except Exception as e:      # tzdata missing
        have_zoneinfo = False
        ctx.assume("zoneinfo time zones unavailable (%s): aware datetimes use datetime.timezone fixed offsets only" % (e,))
    try:
        import pytz
        pytz_zones = [pytz.timezone('America/New_York'), pytz.timezone('Europe/Berlin')]
    except Exception:
        pytz_zones = []
    fixed = [datetime.timezone.utc, datetime.timezone(datetime.timedelta(hours=5, minutes=30)), datetime.timezone(datetime.timedelta(hours=-8)),
             datetime.timezone(datetime.timedelta(hours=14)), datetime.timezone(datetime.timedelta(hours=-12)),
             datetime.timezone(datetime.timedelta(minutes=-1, seconds=-7))]

    SCALAR_COLS = {
        'text': C.Text, 'ascii': C.Ascii, 'int': C.Integer, 'tinyint': C.TinyInt, 'smallint': C.SmallInt, 'bigint': C.BigInt,
        'varint': C.VarInt, 'counter': C.Counter, 'timestamp': C.DateTime, 'date': C.Date, 'time': C.Time, 'duration': C.Duration,
        'uuid': C.UUID, 'timeuuid': C.TimeUUID, 'boolean': C.Boolean, 'float': C.Float, 'double': C.Double, 'decimal': C.Decimal,
        'blob': C.Blob, 'inet': C.Inet,
    }
    IN_COLLECTION = [k for k in SCALAR_COLS if k not in ('counter', 'duration')]
    HASHABLE = [k for k in IN_COLLECTION if k != 'timestamp']
    udt_counter = [0]

    ctx.rule = ("case = (column type tree: each of the 20 scalar column classes, List/Set/Map/Tuple/UserDefinedType nested to depth 2, "
                "canonical value from the boundary-heavy pools, one accepted Python input form per leaf (str/int/UUID/util.Date/date/"
                "datetime/util.Time/time/ipaddress/bytes/bytearray...), protocol version 2-5); timestamps: years 1-9999, ms and us precision, "
                "naive / fixed offset / zoneinfo DST zones / pytz-localized / datetime.date; each value object is used 1-3 times (validate, to_database, to_python with before/after snapshots) and, for 12 % of the cases, carried through Model create / save / re-key / new-instance saves on a recording connection; distinct by (type, canonical value, input form); "
                "non-trivial = timestamp or nested type")
    ctx.assume("a Python float is not generated for Decimal / integer columns and an int is not generated for Date columns (what CQL value it denotes is a convention, not a fact)")
    ctx.assume("a null is not generated for a list/set/map field of a user type: cqlengine models define a null collection to be the empty collection")
    ctx.assume("Model save paths are not judged for a tuple that carries a null for a collection- or tuple-typed element: a model normalises it to the empty collection / empty tuple on assignment (Tuple.to_python), the same convention as for null collections elsewhere in cqlengine")
    ctx.assume("timestamps are not generated inside sets or as map keys (leaf differences could not be attributed); collections never contain None (cqlengine rejects it)")
    ctx.assume("the instant of an aware datetime is its wall time minus its own utcoffset() (PEP 495 fold=0 for ambiguous times)")
    ctx.assume("sub-millisecond parts are floored (the quantization DateTime.truncate_microseconds documents as 'the same way it will be in the database')")

    # ---------------------------------------------------------------- type trees + columns
    def gen_tree(depth, hashable=False, in_coll=False):
        pool = HASHABLE if hashable else (IN_COLLECTION if in_coll else list(SCALAR_COLS))
        if depth <= 0 or rng.random() < 0.4:
            return (rng.choice(pool),)
        kinds = ['tuple'] if hashable else ['list', 'set', 'map', 'tuple', 'udt']
        k = rng.choice(kinds)
        if k == 'list':
            return ('list', gen_tree(depth - 1, False, True))
        if k == 'set':
            return ('set', gen_tree(depth - 1, True, True))
        if k == 'map':
            return ('map', gen_tree(depth - 1, True, True), gen_tree(depth - 1, False, True))
        if k == 'tuple':
            return ('tuple',) + tuple(gen_tree(depth - 1, hashable, True) for _ in range(rng.randint(1, 3)))
        udt_counter[0] += 1
        nm = 'c36udt%d_%d' % (ctx.worker or 0, udt_counter[0])
        return ('udt', 'ks36', nm, tuple(('f%d' % i, gen_tree(depth - 1, False, True)) for i in range(rng.randint(1, 3))))

    def make_column(t, top=True):
        k = t[0]
        if k in SCALAR_COLS:
            return SCALAR_COLS[k]()
        if k == 'list':
            return C.List(make_column(t[1], False))
        if k == 'set':
            return C.Set(make_column(t[1], False))
        if k == 'map':
            return C.Map(make_column(t[1], False), make_column(t[2], False))
        if k == 'tuple':
            return C.Tuple(*[make_column(x, False) for x in t[1:]])
        if k == 'udt':
            attrs = {}
            for i, (fn, ft) in enumerate(t[3]):
                col = make_column(ft, False)
                if rng.random() < 0.2:
                    col.db_field = 'Db_%s' % fn
                attrs[fn] = col
            cls = type(t[2], (UT.UserType,), attrs)
            return C.UserDefinedType(cls)
        raise AssertionError(t)

    def expected_db_type(t, top=True):
        k = t[0]
        if k in SCALAR_COLS:
            return k
        if k == 'list':
            s = 'list<%s>' % expected_db_type(t[1], False)
        elif k == 'set':
            s = 'set<%s>' % expected_db_type(t[1], False)
        elif k == 'map':
            s = 'map<%s, %s>' % (expected_db_type(t[1], False), expected_db_type(t[2], False))
        elif k == 'tuple':
            s = 'tuple<%s>' % ', '.join(expected_db_type(x, False) for x in t[1:])
        else:
            return 'frozen<%s>' % t[2]
        return s if top else 'frozen<%s>' % s

    # ---------------------------------------------------------------- values
    def gen_dt_naive_ms(ms_precision=True):
        r = rng.random()
        if r < 0.45:
            ms = rng.randint(31536000000, 4102444800000)          # 1971 .. 2100
        elif r < 0.6:
            ms = rng.randint(-2 ** 41, 2 ** 42)
        elif r < 0.7:
            ms = rng.choice([0, 1, -1, 999, 1000, -1000, -1001, G.TS_MIN_MS, G.TS_MAX_MS, 1700000000123, 2197033250430, -12219292800000,
                             4102444799999, 951782400000, 1582934400000])
        else:
            ms = rng.randint(G.TS_MIN_MS, G.TS_MAX_MS)
        us = 0 if ms_precision else rng.choice([1, 499, 500, 999, rng.randint(1, 999)])
        return EPOCH_NAIVE + datetime.timedelta(milliseconds=ms) + datetime.timedelta(microseconds=us)

    def gen_datetime_input(nested):
        """returns (python value, expected ms, info dict)"""
        ms_prec = rng.random() < 0.6 or nested
        d = gen_dt_naive_ms(ms_prec)
        r = rng.random()
        info = {"precision": "ms" if ms_prec else "us"}
        if nested or r < 0.4:
            info["zone"] = "naive"
            val = d
        elif r < 0.44:
            val = datetime.date(d.year, d.month, d.day)
            info["zone"] = "date"
            want = _td_us(datetime.datetime(d.year, d.month, d.day) - EPOCH_NAIVE) // 1000
            return val, want, dict(info, sub_ms=0, offset_error_ms=0)
        elif r < 0.6:
            tz = rng.choice(fixed)
            info["zone"] = "fixed:%s" % tz
            val = d.replace(tzinfo=tz)
        elif r < 0.9 and zones:
            name, tz = rng.choice(zones)
            if rng.random() < 0.5:          # concentrate on the era where the zone rules are exercised by users
                d = d.replace(year=rng.randint(1971, 2037)) if not (d.month == 2 and d.day == 29) else d.replace(year=2024)
            info["zone"] = name
            val = d.replace(tzinfo=tz)
            if rng.random() < 0.3:
                # the repeated hour at the end of DST, first and second occurrence (PEP 495 fold)
                amb = {'America/New_York': (2021, 11, 7, 1), 'Europe/Berlin': (2021, 10, 31, 2), 'Australia/Lord_Howe': (2021, 4, 4, 1)}
                key = name.split(':', 1)[-1]
                if key in amb:
                    y, mo, dd, hh = amb[key]
                    val = val.replace(year=y, month=mo, day=dd, hour=hh, minute=rng.choice([30, 45, 59]), fold=rng.choice([0, 1]))
                    info["zone"] = name + ":ambiguous-hour-fold%d" % val.fold
        elif pytz_zones:
            tz = rng.choice(pytz_zones)
            if not (1902 <= d.year <= 2037):
                d = d.replace(year=rng.randint(1971, 2037)) if not (d.month == 2 and d.day == 29) else d.replace(year=2024)
            try:
                val = tz.localize(d)
            except Exception:
                val = d
            info["zone"] = "pytz:%s" % tz.zone
        else:
            tz = rng.choice(fixed)
            info["zone"] = "fixed:%s" % tz
            val = d.replace(tzinfo=tz)
        try:
            want, sub = instant_ms(val)
        except OverflowError:
            return None
        info["sub_ms"] = sub
        info["offset_error_ms"] = 0
        if val.tzinfo is not None:
            try:
                ep = datetime.datetime(1970, 1, 1, tzinfo=val.tzinfo)
                info["offset_error_ms"] = (_td_us(val.utcoffset()) - _td_us(ep.utcoffset())) // 1000
            except Exception:
                info["offset_error_ms"] = None
        return val, want, info

    def scalar_input(k, v, hashable):
        """(python input, form) for canonical scalar value v of kind k (not timestamp)."""
        r = rng.random()
        if k in ('int', 'tinyint', 'smallint', 'bigint', 'varint', 'counter'):
            return (str(v), 'str') if r < 0.1 else (v, 'int')
        if k in ('text', 'ascii'):
            return v, 'str'
        if k == 'blob':
            return (bytes(v), 'bytes') if (hashable or r < 0.5) else (bytearray(v), 'bytearray')
        if k == 'boolean':
            return v, 'bool'
        if k in ('float', 'double'):
            if v == v and abs(v) < 2 ** 24 and v == int(v) and str(v) != '-0.0' and r < 0.3:
                return int(v), 'int'
            return v, 'float'
        if k == 'decimal':
            if r < 0.2:
                return str(v), 'str'
            if r < 0.35 and v.as_tuple().exponent == 0 and not (v.is_zero() and v.is_signed()):
                return int(v), 'int'
            return v, 'Decimal'
        if k in ('uuid', 'timeuuid'):
            if r < 0.2:
                return str(v), 'str'
            if r < 0.3:
                return v.hex.upper(), 'hex'
            return v, 'UUID'
        if k == 'inet':
            a = ipaddress.ip_address(bytes(v))
            if r < 0.3:
                return a, 'ipaddress'
            if r < 0.4 and a.version == 6:
                return a.exploded, 'exploded'
            return a.compressed, 'str'
        if k == 'date':
            if -719162 <= v <= 2932896:
                d = datetime.date(1970, 1, 1) + datetime.timedelta(days=v)
                if r < 0.3:
                    return d, 'date'
                if r < 0.45:
                    return datetime.datetime(d.year, d.month, d.day, rng.randint(0, 23), rng.randint(0, 59), rng.randint(0, 59), rng.randint(0, 999999)), 'datetime'
                if r < 0.55:
                    return '%04d-%02d-%02d' % (d.year, d.month, d.day), 'str'
            return util.Date(v), 'util.Date'
        if k == 'time':
            if v % 1000 == 0 and r < 0.3:
                us = v // 1000
                return datetime.time(us // 3600000000, us // 60000000 % 60, us // 1000000 % 60, us % 1000000), 'time'
            if r < 0.5:
                return v, 'int'
            return util.Time(v), 'util.Time'
        if k == 'duration':
            return util.Duration(*v), 'Duration'
        raise AssertionError(k)

    class Gen(object):
        """one generated (canonical value, python input) pair for a type tree; records forms and datetime leaves"""

        def __init__(self):
            self.forms = []
            self.dt_leaves = []

        def scalar(self, k, nested, hashable):
            if k == 'timestamp':
                for _ in range(5):
                    r = gen_datetime_input(nested)
                    if r is not None:
                        break
                else:
                    raise Inconclusive("could not generate a datetime")
                val, want, info = r
                self.forms.append(info["zone"] + "/" + info["precision"])
                self.dt_leaves.append((val, want, info))
                return want, val
            for _ in range(20):
                v = G.gen_scalar(rng, k)
                if k == 'duration':
                    try:
                        S.enc((k,), v)
                    except (S.Undefined, S.SpecError):
                        continue
                break
            inp, form = scalar_input(k, v, hashable)
            self.forms.append(form)
            return v, inp

        def value(self, t, nested=False, hashable=False):
            k = t[0]
            if k in SCALAR_COLS:
                return self.scalar(k, nested, hashable)
            if k == 'list':
                pairs = [self.value(t[1], True) for _ in range(rng.choice([0, 1, 2, 3]))]
                return [p[0] for p in pairs], rng.choice([list, list, tuple])([p[1] for p in pairs])
            if k in ('set', 'map'):
                canon, inputs, seen = [], [], set()
                for _ in range(rng.choice([0, 1, 2, 3])):
                    cv, iv = self.value(t[1], True, True)
                    key = repr(G.canon_key(t[1], cv, loose=True))
                    try:
                        hash(iv)
                        dup = any(iv == o for o in inputs)
                    except TypeError:
                        dup = False
                    if key in seen or dup:
                        continue
                    seen.add(key)
                    if k == 'set':
                        canon.append(cv)
                        inputs.append(iv)
                    else:
                        cv2, iv2 = self.value(t[2], True)
                        canon.append((cv, cv2))
                        inputs.append((iv, iv2))
                if k == 'set':
                    return canon, (util.SortedSet(inputs) if (rng.random() < 0.15 and _sortable(inputs)) else set(inputs))
                return canon, dict(inputs)
            if k == 'tuple':
                pairs = []
                for ft in t[1:]:
                    if rng.random() < 0.12 and not hashable:
                        pairs.append((None, None))
                    else:
                        pairs.append(self.value(ft, True, hashable))
                if len(pairs) > 1 and rng.random() < 0.1:
                    pairs = pairs[:rng.randint(1, len(pairs) - 1)]
                return tuple(p[0] for p in pairs), rng.choice([tuple, tuple, list] if not hashable else [tuple])([p[1] for p in pairs])
            if k == 'udt':
                pairs = []
                for fn, ft in t[3]:
                    if rng.random() < 0.15 and ft[0] not in ('list', 'set', 'map'):
                        pairs.append((None, None))
                    else:
                        pairs.append(self.value(ft, True))
                return tuple(p[0] for p in pairs), ('udt', [p[1] for p in pairs])
            raise AssertionError(t)

    def _sortable(items):
        try:
            sorted(items)
            return True
        except TypeError:
            return False

    def materialize(col, t, inp):
        """turn the ('udt', [...]) placeholders into instances of the column's UserType class"""
        k = t[0]
        if inp is None or k in SCALAR_COLS:
            return inp
        if k == 'list':
            return type(inp)(materialize(col.value_col, t[1], x) for x in inp)
        if k == 'set':
            return inp
        if k == 'map':
            return dict((kk, materialize(col.value_col, t[2], vv)) for kk, vv in inp.items())
        if k == 'tuple':
            return type(inp)(materialize(c, ft, x) for c, ft, x in zip(col.types, t[1:], inp))
        if k == 'udt':
            vals = inp[1]
            kw = {}
            for (fn, ft), x, fcol in zip(t[3], vals, col.user_type._fields.values()):
                kw[fn] = materialize(fcol, ft, x)
            return col.user_type(**kw)
        raise AssertionError(t)

    def contains(t, kinds):
        return G.contains_kind(t, kinds)

    def leaf_diffs(t, a, b):
        t = S.strip(t)
        k = t[0]
        if a is None or b is None or k in S.SCALARS or k == 'set':
            return [] if G.canon_key(t, a) == G.canon_key(t, b) else [(t, a, b)]
        if k == 'list':
            if len(a) != len(b):
                return [(t, a, b)]
            return [d for x, y in zip(a, b) for d in leaf_diffs(t[1], x, y)]
        if k == 'map':
            if len(a) != len(b):
                return [(t, a, b)]
            out = []
            for (k1, v1), (k2, v2) in zip(a, b):
                out += leaf_diffs(t[1], k1, k2) + leaf_diffs(t[2], v1, v2)
            return out
        fts = list(t[1:]) if k == 'tuple' else [ft for _, ft in t[3]]
        aa = list(a) + [None] * (len(fts) - len(a))
        bb = list(b) + [None] * (len(fts) - len(b))
        return [d for ft, x, y in zip(fts, aa, bb) for d in leaf_diffs(ft, x, y)]

    def _float_explains(r_us, got):
        """How int(float_seconds * 1000) can have produced ``got`` (ms) for the exact instant ``r_us`` (microseconds):
        'exact-truncation' - got is int() (toward zero) of the exact value; 'float-noise' - the exact value lies within the
        accumulated rounding error (three float operations, <= 5e-16 relative) of the interval int() maps to got; None otherwise."""
        if got > 0:
            lo, hi = got * 1000, got * 1000 + 999
        elif got < 0:
            lo, hi = got * 1000 - 999, got * 1000
        else:
            lo, hi = -999, 999
        if lo <= r_us <= hi:
            return 'exact-truncation'
        dist = (lo - r_us) if r_us < lo else (r_us - hi)      # whole microseconds outside the interval (>= 1)
        eps_us = abs(r_us) * 5e-16 + 1.0                       # +1: the interval ends are open by less than one microsecond
        return 'float-noise' if dist <= eps_us else None

    def classify_ts(want, got, info):
        """narrow mechanism slug for one wrong timestamp (want/got in ms, want = floor of the exact instant)."""
        sub = info.get("sub_ms", 0) if info else 0
        off = info.get("offset_error_ms", 0) if info else 0
        r_us = want * 1000 + sub
        if off:
            # the epoch's UTC offset was used instead of the value's own one; what remains must be explained by the float arithmetic
            if _float_explains(r_us + off * 1000, got):
                return "datetime-aware-offset-taken-at-epoch"
            return "datetime-wrong-instant"
        how = _float_explains(r_us, got)
        if how == 'exact-truncation' and want < 0 and sub and got == want + 1:
            return "datetime-sub-ms-rounded-toward-zero-before-epoch"
        if how == 'float-noise':
            if r_us > 0 and got == want - 1:
                return "datetime-float-truncation-1ms-low"
            if r_us > 0 and got == want + 1 and sub:
                return "datetime-float-rounding-1ms-high-sub-ms"
            if r_us < 0 and got > want:
                return "datetime-float-truncation-1ms-high-before-epoch"
        return "datetime-wrong-instant"

    def snap(x):
        """deep, comparable snapshot of a Python value (user type instances by their field values)"""
        if isinstance(x, UT.BaseUserType):
            return ('udt', type(x).__name__, tuple((n, snap(getattr(x, n))) for n in x._fields))
        if isinstance(x, (list, tuple)):
            return (type(x).__name__,) + tuple(snap(e) for e in x)
        if isinstance(x, (set, frozenset, util.SortedSet)):
            return (type(x).__name__,) + tuple(sorted((snap(e) for e in x), key=repr))
        if isinstance(x, dict):
            return ('dict',) + tuple(sorted(((snap(a), snap(b)) for a, b in x.items()), key=repr))
        if isinstance(x, (bytes, bytearray)):
            return (type(x).__name__, bytes(x))
        return (type(x).__name__, repr(x))

    # a recording stand-in for the Session behind cqlengine's default connection (Model save paths only need execute())
    from cassandra.cqlengine import connection as CQ, models
    from cassandra.cluster import _ConfigMode
    from cassandra.encoder import Encoder
    import re
    sent = []
    mcount = [0]

    class StubCluster(object):
        _config_mode = _ConfigMode.LEGACY
        protocol_version = 4

        def register_user_type(self, *a, **kw):
            pass

        def shutdown(self):
            pass

    class StubSession(object):
        hosts = []
        cluster = StubCluster()
        encoder = Encoder()
        row_factory = None
        default_consistency_level = None

        def execute(self, query, parameters=None, *a, **kw):
            sent.append((query, parameters))
            return []

    CQ.register_connection('c36', session=StubSession(), default=True)

    # ---------------------------------------------------------------- main loop
    n = ctx.scale(40000, 800000)
    budget = 40 if ctx.quick else 300
    for it in range(n):
        if it % 128 == 0 and ctx.time_left(budget) < 0:
            ctx.note("stopped by time budget after %d cases" % it)
            break
        r = rng.random()
        if r < 0.35:
            t = ('timestamp',)
        elif r < 0.6:
            t = (rng.choice(list(SCALAR_COLS)),)
        else:
            t = gen_tree(rng.choice([1, 1, 2]))
        pv = rng.choice([2, 3, 4, 4, 5])
        nested = t[0] not in SCALAR_COLS
        try:
            col = make_column(t)
            col.set_column_name('c')
        except Exception as e:
            ctx.violation("column-construction-raises", "building the column for %s raised %s: %s" % (S.cql_name(t), type(e).__name__, e),
                          {"type": S.cql_name(t)})
            continue
        if col.db_type != expected_db_type(t):
            ctx.violation("db-type-name-wrong", "column for %s reports db_type %r, expected %r" % (S.cql_name(t), col.db_type, expected_db_type(t)),
                          {"type": S.cql_name(t), "db_type": col.db_type})
            continue
        g = Gen()
        canon, inp = g.value(t)
        try:
            ref = S.enc(t, canon, pv)
        except (S.Undefined, S.SpecError) as e:
            ctx.count("skipped_undefined")
            continue
        try:
            pyval = materialize(col, t, inp)
        except Exception as e:
            ctx.violation("usertype-instance-construction-raises", "constructing the UserType instance raised %s: %s" % (type(e).__name__, e),
                          {"type": S.cql_name(t), "input": repr(inp)[:300]})
            continue
        ctx.case(repr((S.cql_name(t) if t[0] != 'udt' else 'udt', G.canon_key(t, canon), g.forms)), nontrivial=nested or t[0] == 'timestamp')
        ctx.count("nested_cases" if nested else "scalar_cases")
        ctx.count("column:" + type(col).__name__)
        wit = {"column": type(col).__name__, "db_type": col.db_type, "pv": pv, "input": repr(pyval)[:300], "forms": g.forms[:12],
               "denotes": repr(canon)[:300], "reference_bytes": ref}
        dt = G.driver_type(t)
        # core type named by the column itself must be the same type
        try:
            own = col.cql_type
            if own.cql_parameterized_type().replace('ks36.', '') != dt.cql_parameterized_type().replace('ks36.', ''):
                ctx.violation("cql-type-of-column-wrong", "column.cql_type is %s, db_type names %s" % (
                    own.cql_parameterized_type(), dt.cql_parameterized_type()), wit)
                continue
        except Exception as e:
            ctx.violation("cql-type-of-column-raises", "column.cql_type raised %s: %s" % (type(e).__name__, e), wit)
            continue
        def judge_dbv(dbv, w, origin, count_leaves=True):
            """serialize a database value with the core type and compare with the reference encoding; False = reported"""
            try:
                got = bytes((own if rng.random() < 0.5 else dt).serialize(dbv, pv))
            except Exception as e:
                ctx.violation("database-value-not-serializable", "%s: core serialize of the %s value %r raised %s: %s" % (
                    col.db_type, origin, dbv, type(e).__name__, str(e)[:200]), w)
                return False
            ctx.count("bytes_compared", len(ref))
            if got == ref:
                ctx.count("encodings_equal")
                if count_leaves:
                    for val_, want, info in g.dt_leaves:
                        ctx.count("datetimes_exact")
                        ctx.count("datetimes_exact:" + info["zone"].split(':')[0] + "/" + info["precision"])
                    if (nested or t[0] == 'timestamp') and len(ctx.samples) < 8 and rng.random() < 0.004:
                        ctx.sample({"db_type": col.db_type, "input": repr(pyval)[:200], "to_database": repr(dbv)[:200], "bytes": got})
                return True
            # same CQL value in another order (sets are written in Python iteration order)?
            try:
                back = S.dec(t, got, pv)
            except Exception as e:
                ctx.violation("stored-bytes-malformed", "%s (%s): bytes %s are not a valid %s: %s" % (col.db_type, origin, got.hex()[:100], S.cql_name(t), e),
                              dict(w, driver_bytes=got))
                return False
            if G.canon_key(t, back) == G.canon_key(t, canon) and contains(t, ('set',)):
                ctx.count("encodings_equal_up_to_set_order")
                if count_leaves:
                    for val_, want, info in g.dt_leaves:
                        ctx.count("datetimes_exact")
                return True
            diffs = leaf_diffs(t, canon, back)
            w = dict(w, driver_bytes=got, stored_value=repr(back)[:300])
            if diffs and all(d[0][0] == 'timestamp' and isinstance(d[1], int) and isinstance(d[2], int) for d in diffs):
                by_want = {}
                for val_, want, info in g.dt_leaves:
                    by_want.setdefault(want, (val_, info))
                for dtp, want, gotms in diffs:
                    val_, info = by_want.get(want, (None, None))
                    mech = classify_ts(want, gotms, info)
                    ctx.violation(mech, "DateTime column stores %r as %d ms, its exact instant is %d ms (error %+d ms; %s)" % (
                        val_, gotms, want, gotms - want, origin), dict(w, datetime=repr(val_), stored_ms=gotms, exact_ms=want, info=info))
                    ctx.count("datetimes_wrong")
                return False
            ctx.violation("stored-value-differs-from-reference", "%s (%s): %r is stored as %s which denotes %r, not %r" % (
                col.db_type, origin, pyval, got.hex()[:80], back, canon), w)
            return False

        # the same Python value object goes through the column one to three times (a retried save, a re-insert under another
        # key, a filter followed by a write): every pass must give the core driver's bytes, and neither to_database nor to_python
        # may change the object the application holds
        passes = rng.choice([1, 2, 2, 3])
        failed = False
        for pno in range(1, passes + 1):
            pw = dict(wit, use_of_the_same_value_object=pno)
            try:
                val = col.validate(pyval)
            except Exception as e:
                ctx.violation("validate-raises", "%s: validate(%r) raised %s: %s (use %d of the same object)" % (
                    col.db_type, pyval, type(e).__name__, str(e)[:200], pno), pw)
                failed = True
                break
            before = snap(val)
            try:
                dbv = col.to_database(val)
            except Exception as e:
                mech = "to-database-raises"
                if isinstance(e, TypeError) and 'unhashable' in str(e) and 'bytearray' in str(e) and _blob_in_hashed_position(t):
                    mech = "blob-in-set-or-map-key-unhashable-bytearray"
                elif type(e) is Exception and "expecting a binary, got a <class 'NoneType'>" in str(e) and _null_blob_in_tuple(t, canon):
                    mech = "blob-null-inside-tuple-raises"
                if pno > 1:
                    mech = "to-database-raises-on-repeated-use-of-the-same-value"
                ctx.violation(mech, "%s: to_database(validate(%r)) raised %s: %s (use %d of the same object)" % (
                    col.db_type, pyval, type(e).__name__, str(e)[:200], pno), pw)
                failed = True
                break
            after = snap(val)
            if after != before:
                ctx.violation("to-database-mutates-its-argument", "%s: to_database changed the value object it was given: %s -> %s" % (
                    col.db_type, repr(before)[:200], repr(after)[:200]), pw)
                failed = True
                break
            ctx.count("to_database_left_argument_unchanged")
            pw["to_database"] = repr(dbv)[:300]
            if not judge_dbv(dbv, pw, "to_database use %d" % pno, count_leaves=(pno == 1)):
                failed = True
                break
            if pno > 1:
                ctx.count("repeated_uses_of_the_same_value_object_equal")
            if rng.random() < 0.5:
                try:
                    col.to_python(val)
                except Exception as e:
                    ctx.violation("to-python-raises", "%s: to_python(%r) raised %s: %s" % (col.db_type, val, type(e).__name__, str(e)[:200]), pw)
                    failed = True
                    break
                if snap(val) != before:
                    ctx.violation("to-python-mutates-its-argument", "%s: to_python changed the value object it was given: %s -> %s" % (
                        col.db_type, repr(before)[:200], repr(snap(val))[:200]), pw)
                    failed = True
                    break
                ctx.count("to_python_left_argument_unchanged")
            pyval = val if rng.random() < 0.5 else pyval
        if failed or t[0] == 'counter' or rng.random() > 0.12:
            continue
        if _null_composite_in_tuple(t, canon):
            ctx.count("model_path_skipped(null collection or tuple inside a tuple)")
            continue
        # ---- the same value object through Model save paths: create, save again, re-insert under another key
        try:
            mcount[0] += 1
            M = type('M36_%d_%d' % (ctx.worker or 0, mcount[0]), (models.Model,), {'__keyspace__': 'ks36', 'k': C.Integer(primary_key=True), 'c': col})
        except Exception as e:
            ctx.violation("model-definition-raises", "a model with a %s column raised %s: %s" % (col.db_type, type(e).__name__, e), wit)
            continue
        steps = ['create'] + rng.sample(['save', 'rekey', 'rekey', 'new_instance', 'new_instance'], rng.randint(1, 3))
        inst = None
        for sno, step in enumerate(steps):
            del sent[:]
            try:
                if step == 'create':
                    inst = M.create(k=1, c=pyval)
                elif step == 'save':
                    inst.save()
                elif step == 'rekey':
                    inst.k = inst.k + 1
                    inst.save()
                else:
                    inst = M(k=7, c=pyval)
                    inst.save()
            except Exception as e:
                ctx.violation("model-save-raises", "%s: %s of a model holding %r raised %s: %s (step %d: %s)" % (
                    col.db_type, step, pyval, type(e).__name__, str(e)[:200], sno, steps), dict(wit, steps=steps))
                break
            dbv = missing = object()
            for q, prm in sent:
                qs = q.query_string
                mm = re.match(r'INSERT INTO \S+ \((.*?)\) VALUES \((.*)\)', qs)
                if mm:
                    names_ = [x.strip().strip('"') for x in mm.group(1).split(',')]
                    marks = re.findall(r'%\((\d+)\)s', mm.group(2))
                    if 'c' in names_ and len(marks) == len(names_):
                        dbv = prm[marks[names_.index('c')]]
                    continue
                mm = re.search(r'SET .*?"c" = %\((\d+)\)s', qs) if qs.startswith('UPDATE') else None
                if mm:
                    dbv = prm[mm.group(1)]
            if dbv is missing:
                # an unchanged instance saves nothing; a null / empty value is left out of the INSERT; collections are updated by difference
                ctx.count("model_steps_without_a_plain_assignment_of_the_column")
                continue
            pw = dict(wit, model_step="%d:%s of %s" % (sno, step, steps), to_database=repr(dbv)[:300])
            if not judge_dbv(dbv, pw, "model %s" % step, count_leaves=False):
                break
            ctx.count("model_saves_equal")
            ctx.count("model_saves_equal:" + step)

    CQ.unregister_connection('c36')
    ctx.floor_distinct = 8000 if ctx.quick else 150000
    fl = {"encodings_equal": 15000, "nested_cases": 5000, "datetimes_exact": 6000, "datetimes_exact:naive/ms": 1500,
          "datetimes_exact:naive/us": 500, "datetimes_exact:fixed/ms": 300,
          "to_database_left_argument_unchanged": 15000, "to_python_left_argument_unchanged": 5000,
          "repeated_uses_of_the_same_value_object_equal": 8000, "model_saves_equal": 3000, "model_saves_equal:rekey": 300,
          "model_saves_equal:new_instance": 300}
    for name in ('Text', 'Ascii', 'Integer', 'TinyInt', 'SmallInt', 'BigInt', 'VarInt', 'Counter', 'DateTime', 'Date', 'Time', 'Duration',
                 'UUID', 'TimeUUID', 'Boolean', 'Float', 'Double', 'Decimal', 'Blob', 'Inet', 'List', 'Set', 'Map', 'Tuple', 'UserDefinedType'):
        fl["column:" + name] = 100
    if have_zoneinfo:
        fl["datetimes_exact:zoneinfo/ms"] = 300
    ctx.floor_counters = fl


def _null_composite_in_tuple(t, v):
    """True when some tuple in the canonical value carries a null for an element of list/set/map/tuple type."""
    from spec import cqlcodec as S
    t = S.strip(t)
    k = t[0]
    if v is None or k in S.SCALARS:
        return False
    if k in ('list', 'set'):
        return any(_null_composite_in_tuple(t[1], e) for e in v)
    if k == 'map':
        return any(_null_composite_in_tuple(t[1], a) or _null_composite_in_tuple(t[2], b) for a, b in v)
    if k == 'tuple':
        fts = list(t[1:])
        vals = list(v) + [None] * (len(fts) - len(v))
        return any((S.strip(ft)[0] in ('list', 'set', 'map', 'tuple') and fv is None and i < len(v)) or _null_composite_in_tuple(ft, fv)
                   for i, (ft, fv) in enumerate(zip(fts, vals)))
    if k == 'udt':
        return any(_null_composite_in_tuple(ft, fv) for (_, ft), fv in zip(t[3], v))
    return False


def _null_blob_in_tuple(t, v):
    """True when the canonical value carries a null for a blob field of some tuple."""
    from spec import cqlcodec as S
    t = S.strip(t)
    k = t[0]
    if v is None or k in S.SCALARS:
        return False
    if k in ('list', 'set'):
        return any(_null_blob_in_tuple(t[1], e) for e in v)
    if k == 'map':
        return any(_null_blob_in_tuple(t[1], a) or _null_blob_in_tuple(t[2], b) for a, b in v)
    if k == 'tuple':
        return any((ft[0] == 'blob' and fv is None) or _null_blob_in_tuple(ft, fv) for ft, fv in zip(t[1:], v))
    if k == 'udt':
        return any(_null_blob_in_tuple(ft, fv) for (_, ft), fv in zip(t[3], v))
    return False


def _blob_in_hashed_position(t):
    """True when a blob occurs as a set element or map key (possibly inside a tuple there)."""
    from spec import cqlcodec as S
    from props import _cqlgen as G
    t = S.strip(t)
    k = t[0]
    if k in S.SCALARS:
        return False
    if k == 'set':
        return G.contains_kind(t[1], ('blob',)) or _blob_in_hashed_position(t[1])
    if k == 'map':
        return G.contains_kind(t[1], ('blob',)) or _blob_in_hashed_position(t[1]) or _blob_in_hashed_position(t[2])
    if k == 'list':
        return _blob_in_hashed_position(t[1])
    if k == 'tuple':
        return any(_blob_in_hashed_position(x) for x in t[1:])
    if k == 'udt':
        return any(_blob_in_hashed_position(ft) for _, ft in t[3])
    return False
