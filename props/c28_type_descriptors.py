"""C28 - type descriptors round-trip between Cassandra (marshal class) and CQL notation.

Monitor: seeded type trees to depth 4 are printed by the spec's own printers (``spec/typetree.py``) in Cassandra's
marshal-class notation and in CQL notation, pushed through the real ``lookup_casstype`` / ``parse_casstype_args`` /
``cql_typename`` / ``cqltype_to_python`` / ``python_to_cqltype`` / ``strip_frozen`` and the results are observed:

 1. structure: the class returned for a descriptor mirrors the tree (class, arity, sub-types in order, user-type keyspace,
    name and field names, vector dimension, dynamic-composite aliases);
 2. CQL name: ``cql_parameterized_type()`` (and ``cql_typename``) equals the spec's CQL spelling modulo white space;
 3. codec: the parsed type and the directly constructed type (``apply_parameters`` / ``make_udt_class``) serialize the same
    sample value to the same bytes and read those bytes back to equal values;
 4. ``python_to_cqltype(cqltype_to_python(s))`` equals ``s`` modulo white space for CQL type strings ``s``;
 5. ``strip_frozen(s)`` equals the spec's frozen-stripper (every ``frozen<>`` wrapper at every depth, nothing else).
"""
import datetime
import decimal
import logging
import uuid

PROPERTY = "C28"
LEVEL = "exploration"
ENGINE = "spec"
TECHNIQUE = "independent descriptor printers and CQL type-string reader; structural, name and codec comparison"
LEVEL_TEXT = ("exploration: seeded type trees to depth 4 (all native leaves, collections, tuples, user types with hex names, "
              "frozen/reversed wrappers, vectors, composites) printed independently and read by the real parsers")
LEVEL_NOTE = ("trusted base: spec/typetree.py (printers follow AbstractType.toString() of Cassandra 2.x-5.x); the codec comparison "
              "trusts apply_parameters/make_udt_class as the direct constructors (value codecs themselves are C01/C02)")
QUICK_WORKERS = 2
WORKERS = 12

KNOWN_UDT_ASCII = "udt-hex-name-non-ascii-rejected"
KNOWN_PYSYNTAX = "cql-type-string-quoted-name-breaks-python-literal-round-trip"

NAME_POOL_BARE = ["address", "pay", "mytype", "t1", "a", "phone_number", "x9", "udt_a", "udt_b", "frozen_t", "p0", "user_info"]
NAME_POOL_ASCII_ODD = ["MyType", "Address", "1", "12", "9lives", "my type", "a-b", "SELECT", "a.b", "A_1", "with space ", "x<y>", "a,b"]
NAME_POOL_UNICODE = ["\xe9", "caf\xe9", "na\xefve", "中文", "\U0001F600", "stra\xdfe", "Δx"]
KS_POOL = ["ks", "ks1", "My_KS", "k", "system_x", "K9", "a_b_c", "123", "007", "0x1"]


def gen_tree(rng, tt, depth, pos="top", allow_unicode=0.03):
    """pos: 'top' | 'inner' | 'key' (set element / map key: keep values orderable) | 'composite'."""
    if depth <= 1 or rng.random() < (0.04 if pos == "top" else 0.30):
        m, c = rng.choice(tt.LEAVES)
        return ("leaf", m, c)
    r = rng.random()
    if pos == "top" and r < 0.08:
        return ("reversed", gen_tree(rng, tt, depth, "inner", allow_unicode))   # wrappers do not count as a level
    if pos == "top" and r < 0.16:
        subs = []
        for _ in range(rng.randint(1, 4)):
            m, c = rng.choice(tt.LEAVES)
            leaf = ("leaf", m, c)
            subs.append(("reversed", leaf) if rng.random() < 0.25 else leaf)
        if rng.random() < 0.6:
            return ("composite", subs)
        return ("dyncomposite", [(rng.choice("abcdefgxyzABZ"), s) for s in subs])
    kind = rng.choice(["list", "set", "map", "tuple", "udt", "vector", "frozen", "list", "map"])
    if kind == "frozen":
        coll = rng.choice(["list", "set", "map"])
        return ("frozen", gen_coll(rng, tt, coll, depth, allow_unicode))
    if kind in ("list", "set", "map"):
        return gen_coll(rng, tt, kind, depth, allow_unicode)
    if kind == "tuple":
        return ("tuple", [gen_tree(rng, tt, depth - 1, "inner", allow_unicode) for _ in range(rng.randint(1, 4))])
    if kind == "vector":
        return ("vector", gen_tree(rng, tt, depth - 1, "inner", allow_unicode), rng.choice([1, 2, 3, 4, 8, 16]))
    # udt
    if rng.random() < 0.12:
        # recurring templates: the SAME (keyspace, name, field names) described again with field types that differ only in a
        # vector's element type or in a nested user type's name - a stale per-name class cache must not answer for them
        if rng.random() < 0.5:
            m, c = rng.choice(tt.LEAVES)
            return ("udt", "ks", "shape", [("v", ("vector", ("leaf", m, c), 3))])
        return ("udt", "ks", "outer", [("f", ("udt", "ks", rng.choice(["a_t", "b_t", "c_t"]), [("x", ("leaf", "Int32Type", "int"))]))])
    q = rng.random()
    if q < allow_unicode:
        name = rng.choice(NAME_POOL_UNICODE)
    elif q < 0.65:
        name = rng.choice(NAME_POOL_BARE)
    else:
        name = rng.choice(NAME_POOL_ASCII_ODD)
    fields = []
    used = set()
    for _ in range(rng.randint(1, 4)):
        q = rng.random()
        if q < allow_unicode:
            fn = rng.choice(NAME_POOL_UNICODE)
        elif q < 0.7:
            fn = rng.choice(["a", "b", "c", "street", "zip_code", "f1", "f2", "value", "id", "ts"])
        else:
            fn = rng.choice(["A", "Zip", "1", "12", "first name", "class", "def", "_x", "a-b", "f:1", "k=>v"])
        if fn in used:
            continue
        used.add(fn)
        fields.append((fn, gen_tree(rng, tt, depth - 1, "inner", allow_unicode)))
    return ("udt", rng.choice(KS_POOL), name, fields)


def gen_coll(rng, tt, kind, depth, allow_unicode):
    def sub(pos):
        t = gen_tree(rng, tt, depth - 1, pos, allow_unicode)
        if t[0] in ("list", "set", "map") and rng.random() < 0.8:
            t = ("frozen", t)
        return t
    if kind == "map":
        return ("map", sub("key"), sub("inner"))
    return (kind, sub("key" if kind == "set" else "inner"))


def tree_depth(t):
    k = t[0]
    if k == "leaf":
        return 1
    if k in ("frozen", "reversed"):
        return tree_depth(t[1])    # wrappers annotate a level, they are not one
    if k in ("list", "set", "vector"):
        return 1 + tree_depth(t[1])
    if k == "map":
        return 1 + max(tree_depth(t[1]), tree_depth(t[2]))
    if k in ("tuple", "composite"):
        return 1 + max(tree_depth(x) for x in t[1])
    if k == "udt":
        return 1 + max([tree_depth(x) for _, x in t[3]] or [0])
    if k == "dyncomposite":
        return 1 + max(tree_depth(x) for _, x in t[1])
    raise ValueError(k)


def has_unicode_name(t):
    k = t[0]
    if k == "leaf":
        return False
    if k == "udt":
        names = [t[2]] + [fn for fn, _ in t[3]]
        if any(any(ord(c) > 127 for c in n) for n in names):
            return True
        return any(has_unicode_name(x) for _, x in t[3])
    if k in ("list", "set", "frozen", "reversed", "vector"):
        return has_unicode_name(t[1])
    if k == "map":
        return has_unicode_name(t[1]) or has_unicode_name(t[2])
    if k in ("tuple", "composite"):
        return any(has_unicode_name(x) for x in t[1])
    if k == "dyncomposite":
        return any(has_unicode_name(x) for _, x in t[1])
    return False


def udt_names_plain(t, tt):
    """True when every user-type NAME in the tree is a lower-case bare word (its CQL spelling is then unambiguous)."""
    k = t[0]
    if k == "leaf":
        return True
    if k == "udt":
        return tt.is_bare_lower(t[2]) and all(udt_names_plain(x, tt) for _, x in t[3])
    if k in ("list", "set", "frozen", "reversed", "vector"):
        return udt_names_plain(t[1], tt)
    if k == "map":
        return udt_names_plain(t[1], tt) and udt_names_plain(t[2], tt)
    if k in ("tuple", "composite"):
        return all(udt_names_plain(x, tt) for x in t[1])
    if k == "dyncomposite":
        return all(udt_names_plain(x, tt) for _, x in t[1])
    return True


# ------------------------------------------------------------------------------------------------
def build_direct(t, T):
    k = t[0]
    if k == "leaf":
        return getattr(T, t[1])
    if k in ("list", "set", "frozen", "reversed"):
        cls = {"list": T.ListType, "set": T.SetType, "frozen": T.FrozenType, "reversed": T.ReversedType}[k]
        return cls.apply_parameters([build_direct(t[1], T)])
    if k == "map":
        return T.MapType.apply_parameters([build_direct(t[1], T), build_direct(t[2], T)])
    if k == "tuple":
        return T.TupleType.apply_parameters([build_direct(x, T) for x in t[1]])
    if k == "composite":
        return T.CompositeType.apply_parameters([build_direct(x, T) for x in t[1]])
    if k == "dyncomposite":
        return T.DynamicCompositeType.apply_parameters([build_direct(x, T) for _, x in t[1]], [a for a, _ in t[1]])
    if k == "udt":
        return T.UserType.make_udt_class(t[1], t[2], tuple(fn for fn, _ in t[3]), tuple(build_direct(x, T) for _, x in t[3]))
    if k == "vector":
        return T.VectorType.apply_parameters([build_direct(t[1], T), t[2]], None)
    raise ValueError(k)


def structure_diff(parsed, t, T, path="$"):
    """None when ``parsed`` mirrors the tree, else a short description of the first difference."""
    k = t[0]
    if not isinstance(parsed, type):
        return "%s: not a class: %r" % (path, parsed)
    if k == "leaf":
        want = getattr(T, t[1])
        return None if parsed is want else "%s: %s instead of %s" % (path, parsed.__name__, t[1])
    classes = {"list": T.ListType, "set": T.SetType, "map": T.MapType, "tuple": T.TupleType, "frozen": T.FrozenType,
               "reversed": T.ReversedType, "composite": T.CompositeType, "dyncomposite": T.DynamicCompositeType,
               "udt": T.UserType, "vector": T.VectorType}
    if not issubclass(parsed, classes[k]) or (k == "tuple" and issubclass(parsed, T.UserType)):
        return "%s: %s is not a %s" % (path, parsed.__name__, classes[k].__name__)
    if k == "vector":
        if parsed.vector_size != t[2]:
            return "%s: vector dimension %r instead of %r" % (path, parsed.vector_size, t[2])
        return structure_diff(parsed.subtype, t[1], T, path + ".elem")
    if k in ("list", "set", "frozen", "reversed"):
        subs = [t[1]]
    elif k == "map":
        subs = [t[1], t[2]]
    elif k in ("tuple", "composite"):
        subs = list(t[1])
    elif k == "dyncomposite":
        subs = [x for _, x in t[1]]
        if list(parsed.fieldnames) != [a for a, _ in t[1]]:
            return "%s: aliases %r instead of %r" % (path, parsed.fieldnames, [a for a, _ in t[1]])
    else:
        subs = [x for _, x in t[3]]
        if parsed.keyspace != t[1]:
            return "%s: keyspace %r instead of %r" % (path, parsed.keyspace, t[1])
        if parsed.typename != t[2]:
            return "%s: user type name %r instead of %r" % (path, parsed.typename, t[2])
        if tuple(parsed.fieldnames) != tuple(fn for fn, _ in t[3]):
            return "%s: field names %r instead of %r" % (path, parsed.fieldnames, [fn for fn, _ in t[3]])
    if len(parsed.subtypes) != len(subs):
        return "%s: %d sub-types instead of %d" % (path, len(parsed.subtypes), len(subs))
    for i, (p, s) in enumerate(zip(parsed.subtypes, subs)):
        d = structure_diff(p, s, T, "%s[%d]" % (path, i))
        if d:
            return d
    return None


# ------------------------------------------------------------------------------------------------
def value_supported(t, pos="inner"):
    k = t[0]
    if k == "leaf":
        return not (pos == "key" and t[2] in ("duration",))
    if k in ("composite", "dyncomposite"):
        return False
    if pos == "key" and k in ("map", "set", "udt", "vector"):
        return False
    if k in ("list", "frozen", "reversed"):
        return value_supported(t[1], pos)
    if k == "set":
        return value_supported(t[1], "key")
    if k == "map":
        return value_supported(t[1], "key") and value_supported(t[2], pos)
    if k == "tuple":
        return all(value_supported(x, pos) for x in t[1])
    if k == "udt":
        return all(value_supported(x, pos) for _, x in t[3])
    if k == "vector":
        return value_supported(t[1], pos)
    return False


def gen_value(rng, t, util):
    k = t[0]
    if k == "leaf":
        c = t[2]
        if c in ("ascii", "text"):
            return "".join(rng.choice("abcXYZ 09'\"" + ("" if c == "ascii" else "\xe9中")) for _ in range(rng.randint(0, 6)))
        if c in ("bigint", "counter"):
            return rng.choice([0, -1, 2 ** 63 - 1, -2 ** 63, rng.randint(-2 ** 62, 2 ** 62)])
        if c == "blob":
            return bytes(rng.getrandbits(8) for _ in range(rng.randint(0, 5)))
        if c == "boolean":
            return rng.random() < 0.5
        if c == "date":
            return datetime.date(1970, 1, 1) + datetime.timedelta(days=rng.randint(-100000, 100000))
        if c == "decimal":
            return decimal.Decimal(rng.randint(-10 ** 12, 10 ** 12)).scaleb(rng.randint(-8, 8))
        if c == "double":
            return rng.choice([0.0, -1.5, 1e300, rng.random() * 1e6])
        if c == "float":
            return rng.randint(-2 ** 20, 2 ** 20) / 8.0
        if c == "duration":
            return util.Duration(rng.randint(0, 100), rng.randint(0, 100), rng.randint(0, 10 ** 12))
        if c == "inet":
            return rng.choice(["127.0.0.1", "10.1.2.3", "::1", "2001:db8::ff00:42:8329"])
        if c == "int":
            return rng.choice([0, -1, 2 ** 31 - 1, -2 ** 31, rng.randint(-2 ** 30, 2 ** 30)])
        if c == "smallint":
            return rng.randint(-2 ** 15, 2 ** 15 - 1)
        if c == "tinyint":
            return rng.randint(-128, 127)
        if c == "time":
            return datetime.time(rng.randint(0, 23), rng.randint(0, 59), rng.randint(0, 59), rng.randint(0, 999999))
        if c == "timestamp":
            return datetime.datetime(2000, 1, 1) + datetime.timedelta(seconds=rng.randint(-9 * 10 ** 8, 3 * 10 ** 9), milliseconds=rng.randint(0, 999))
        if c == "timeuuid":
            return uuid.UUID(int=(rng.getrandbits(128) & ~(0xf << 76)) | (1 << 76))
        if c == "uuid":
            return uuid.UUID(int=rng.getrandbits(128))
        if c == "varint":
            return rng.choice([0, -1, 255, -256, rng.randint(-10 ** 30, 10 ** 30)])
        raise ValueError(c)
    if k in ("frozen", "reversed"):
        return gen_value(rng, t[1], util)
    if k == "list":
        return [gen_value(rng, t[1], util) for _ in range(rng.randint(0, 3))]
    if k == "set":
        out = []
        for _ in range(rng.randint(0, 3)):
            v = gen_value(rng, t[1], util)
            if v not in out:
                out.append(v)
        return out
    if k == "map":
        keys = []
        for _ in range(rng.randint(0, 3)):
            v = gen_value(rng, t[1], util)
            if v not in keys:
                keys.append(v)
        return util.OrderedMap([(kv if not isinstance(kv, list) else tuple(kv), gen_value(rng, t[2], util)) for kv in keys])
    if k == "tuple":
        return tuple(gen_value(rng, x, util) if rng.random() < 0.9 else None for x in t[1])
    if k == "udt":
        return tuple(gen_value(rng, x, util) if rng.random() < 0.9 else None for _, x in t[3])
    if k == "vector":
        return [gen_value(rng, t[1], util) for _ in range(t[2])]
    raise ValueError(k)


# ------------------------------------------------------------------------------------------------
def check_descriptor(ctx, rng, T, util, tt, tree):
    full = rng.random() < 0.8
    sep = rng.choice([",", ",", ", ", " , "])
    vsep = rng.choice([" , ", ", ", ","])
    desc = tt.marshal(tree, full=full, sep=sep, vsep=vsep)
    ctx.case(("desc", desc))
    ctx.count("descriptors_parsed")
    witness = {"descriptor": desc if len(desc) < 900 else desc[:900] + "...", "tree": repr(tree)[:600]}
    uni = has_unicode_name(tree)
    try:
        parsed = T.lookup_casstype(desc)
    except Exception as e:
        if uni and isinstance(e, ValueError) and "'ascii' codec can't decode" in str(e):
            ctx.violation(KNOWN_UDT_ASCII, "lookup_casstype rejects a user type whose (hex-encoded UTF-8) name or field name is not ASCII: %s" % e, witness)
        else:
            ctx.violation("descriptor-not-parsed", "lookup_casstype raised %s: %s" % (type(e).__name__, str(e)[:300]), witness)
        return
    d = structure_diff(parsed, tree, T)
    ctx.count("structure_checks")
    if d:
        ctx.violation("parsed-type-structure-differs", "lookup_casstype result does not mirror the descriptor: " + d, witness)
        return
    # --- CQL name
    top = tree
    ptop = parsed
    if tree[0] == "reversed":
        top = tree[1]
        ptop = parsed.subtypes[0]
    if udt_names_plain(top, tt):
        want = tt.cql_names(top)
        try:
            got = ptop.cql_parameterized_type()
        except Exception as e:
            ctx.violation("cql-name-raises", "cql_parameterized_type raised %s: %s" % (type(e).__name__, e), witness)
            return
        ctx.count("cql_name_checks")
        if tt.squash(got) not in want:
            ctx.violation("cql-name-differs", "cql_parameterized_type() = %r, spec %r" % (got, sorted(want)[0]), witness)
            return
        if tree[0] != "reversed":
            got2 = T.cql_typename(desc)
            if got2 != got:
                ctx.violation("cql-typename-differs", "cql_typename(desc) = %r but lookup_casstype(desc).cql_parameterized_type() = %r" % (got2, got), witness)
    # --- codec
    if value_supported(tree):
        direct = build_direct(tree, T)
        for _ in range(2):
            v = gen_value(rng, tree, util)
            try:
                b1 = direct.serialize(v, 4)
            except Exception as e:
                ctx.count("codec_direct_type_rejects_sample")
                continue
            ctx.count("codec_checks")
            try:
                b2 = parsed.serialize(v, 4)
                v1 = direct.deserialize(b1, 4)
                v2 = parsed.deserialize(b1, 4)
            except Exception as e:
                ctx.violation("parsed-type-codec-raises", "codec of the parsed type raised %s: %s" % (type(e).__name__, e),
                              dict(witness, value=repr(v)[:300]))
                return
            if b1 != b2:
                ctx.violation("parsed-type-serializes-differently", "parsed type wrote %s, directly built type wrote %s" % (b2.hex()[:80], b1.hex()[:80]),
                              dict(witness, value=repr(v)[:300]))
                return
            if not (v1 == v2) or type(v1).__name__ != type(v2).__name__:
                ctx.violation("parsed-type-deserializes-differently", "parsed type read %r, directly built type read %r" % (v2, v1),
                              dict(witness, value=repr(v)[:300]))
                return
    elif tree[0] == "composite" and all(x[0] == "leaf" for x in tree[1]):
        direct = build_direct(tree, T)
        parts = []
        vals = []
        for x in tree[1]:
            v = gen_value(rng, x, util)
            b = getattr(T, x[1]).serialize(v, 4)
            vals.append(v)
            parts.append(len(b).to_bytes(2, "big") + b + b"\x00")
        blob = b"".join(parts)
        ctx.count("codec_checks")
        try:
            v1 = direct.deserialize(blob, 4)
            v2 = parsed.deserialize(blob, 4)
        except Exception as e:
            ctx.violation("parsed-type-codec-raises", "composite codec raised %s: %s" % (type(e).__name__, e), witness)
            return
        if v1 != v2:
            ctx.violation("parsed-type-deserializes-differently", "parsed composite read %r, directly built read %r" % (v2, v1), witness)


def gen_cql_tree(rng, tt, depth, exotic, top=False):
    """Trees for CQL type strings (system_schema notation): frozen anywhere, user types by (possibly quoted) name."""
    r = rng.random()
    if depth <= 1 or r < (0.06 if top else 0.3):
        if rng.random() < 0.25:
            q = rng.random()
            if exotic and q < 0.5:
                name = rng.choice(["it's", "a\\b", "a\nb", "tab\there", "back\\slash's", "nul\x00", "\x85next", "zero​width"])
            elif q < 0.4:
                name = rng.choice(NAME_POOL_BARE)
            elif q < 0.8:
                name = rng.choice(NAME_POOL_ASCII_ODD + ["frozen", "Frozen", 'a"b', '"', "list<int>", "frozen<x>", "a, b", "x]", "[y", "a  b", " lead"])
            else:
                name = rng.choice(NAME_POOL_UNICODE)
            if name == "frozen":
                return ("udt", "ks", "Frozen", [])   # a bare type called frozen cannot be told from the keyword
            return ("udt", "ks", name, [])
        m, c = rng.choice(tt.LEAVES)
        return ("leaf", m, c)
    kind = rng.choice(["list", "set", "map", "tuple", "vector", "frozen", "frozen"])
    sub = lambda: gen_cql_tree(rng, tt, depth - 1, exotic)
    if kind in ("list", "set"):
        return (kind, sub())
    if kind == "map":
        return ("map", sub(), sub())
    if kind == "tuple":
        return ("tuple", [sub() for _ in range(rng.randint(1, 4))])
    if kind == "vector":
        return ("vector", sub(), rng.choice([1, 2, 3, 16, 1536]))
    inner = sub()
    while inner[0] in ("leaf", "frozen"):
        inner = gen_cql_tree(rng, tt, max(2, depth - 1), exotic)
        if inner[0] == "udt":
            break
    return ("frozen", inner)


def exotic_names(t):
    k = t[0]
    out = []
    if k == "udt":
        if any((c in "'\\") or not c.isprintable() for c in t[2]):
            out.append(t[2])
    elif k in ("list", "set", "frozen", "vector"):
        out += exotic_names(t[1])
    elif k == "map":
        out += exotic_names(t[1]) + exotic_names(t[2])
    elif k == "tuple":
        for x in t[1]:
            out += exotic_names(x)
    return out


def check_cql_string(ctx, rng, T, tt, tree):
    sp = rng.choice(["", " ", " ", "  "])
    s = tt.cql_string(tree, sp)
    if rng.random() < 0.4:
        # blanks at ANY token boundary, incl. before the first and after the last token (also of a bare, '<'-free name);
        # quoted names are single tokens of the spec tokenizer, so their inner white space is never touched
        blank = lambda: rng.choice(["", "", " ", "  ", "   "])
        s = blank() + "".join(tok + blank() for tok in tt._tokens(s))
    ctx.case(("cql", s))
    exo = exotic_names(tree)
    witness = {"cql_type_string": s, "exotic_names": exo}
    ctx.count("cql_strings_round_tripped")
    # self-consistency of the trusted base: its own reader reads its own printer
    if tt.squash(tt.print_cql(tt.parse_cql(s))) != tt.squash(s):
        from vlib.run import Inconclusive
        raise Inconclusive("spec/typetree cannot re-read its own CQL string %r" % s)
    try:
        py = T.cqltype_to_python(s)
        back = T.python_to_cqltype(py)
    except Exception as e:
        if exo:
            ctx.violation(KNOWN_PYSYNTAX, "cqltype_to_python/python_to_cqltype raised %s on a quoted type name containing an apostrophe, a backslash "
                          "or a non-printable character" % type(e).__name__, witness)
        else:
            ctx.violation("cql-type-string-round-trip-raises", "cqltype_to_python/python_to_cqltype raised %s: %s" % (type(e).__name__, e), witness)
        return
    if tt.squash(back) != tt.squash(s):
        if exo:
            ctx.violation(KNOWN_PYSYNTAX, "python_to_cqltype(cqltype_to_python(s)) = %r differs from s (quoted type name with an apostrophe, a "
                          "backslash or a non-printable character)" % back, witness)
        else:
            ctx.violation("cql-type-string-round-trip-differs", "python_to_cqltype(cqltype_to_python(%r)) = %r" % (s, back), dict(witness, python=repr(py)[:300]))
        return
    # the intermediate list must nest like the type (docstring: frozen<tuple<text, int>> -> ['frozen', ['tuple', ['text', 'int']]])
    want_py = nest(tt.parse_cql(s))
    if py != want_py and not exo:
        ctx.violation("cqltype-to-python-shape", "cqltype_to_python(%r) = %r, expected %r" % (s, py, want_py), witness)
    # --- frozen stripping
    ctx.count("strip_frozen_checks")
    want = tt.strip_frozen(s)
    try:
        got = T.strip_frozen(s)
    except Exception as e:
        mech = KNOWN_PYSYNTAX if exo else "strip-frozen-raises"
        ctx.violation(mech, "strip_frozen raised %s: %s" % (type(e).__name__, e), witness)
        return
    if tt.squash(got) != tt.squash(want):
        mech = KNOWN_PYSYNTAX if exo else "strip-frozen-differs"
        ctx.violation(mech, "strip_frozen(%r) = %r, spec %r" % (s, got, want), witness)
    if "frozen<" in tt.squash(s):
        ctx.count("strip_frozen_with_wrappers")


def nest(node):
    name, args = node
    if not args:
        return [name]
    inner = []
    for a in args:
        inner += nest(a)
    return [name, inner]


def run(ctx):
    from vlib import shim
    shim.import_cluster()
    logging.getLogger("cassandra").setLevel(logging.ERROR)
    from cassandra import cqltypes as T
    from cassandra import util
    from spec import typetree as tt
    tt._selftest()
    rng = ctx.rng
    ctx.rule = ("seeded type trees, depth <= 4: 21 native leaves, list/set/map (nested ones mostly frozen), tuple, user type (names from "
                "pools: bare, mixed case, all-digit, with spaces, non-ASCII), FrozenType around collections, ReversedType at top level "
                "and inside composites, VectorType, CompositeType / DynamicCompositeType at top level; printed with full or short "
                "class names and three separator styles; distinct = descriptor text / CQL type string")
    ctx.assume("CQL spelling follows the releases that send marshal descriptors: tuples and user types always print as frozen<...>; "
               "FrozenType is only generated around list/set/map (Cassandra prints it nowhere else in 2.x)")
    ctx.assume("vector: both 'vector<e, n>' and the marshal class name with <e, n> (the rendering the driver's unit tests pin) are accepted")
    ctx.assume("the CQL name of a user type is only compared when the type name is a lower-case bare word (whether other names should be "
               "quoted in cql_parameterized_type() is not specified); keyspace, name and field names are always compared structurally")
    ctx.assume("ReversedType has no CQL spelling (clustering order): its inner type's name is compared, as metadata._cql_from_cass_type does")
    ctx.assume("CQL type strings use blanks only as white space (tabs / line feeds are not accepted by the scanner of the unchanged tree), at any token boundary incl. leading and trailing; a bare user type called 'frozen' is not generated")
    ctx.assume("sample values for the codec comparison avoid NaN and use orderable set elements / map keys; DynamicCompositeType has no codec")

    if ctx.worker in (None, 0):
        fixed = [
            ("map", ("leaf", "UTF8Type", "text"), ("leaf", "Int32Type", "int")),
            ("udt", "ks", "address", [("street", ("leaf", "UTF8Type", "text")), ("zip", ("leaf", "Int32Type", "int"))]),
            ("udt", "ks", "pay", [("a", ("leaf", "Int32Type", "int"))]),
            ("udt", "123", "12", [("1", ("leaf", "Int32Type", "int")), ("12", ("leaf", "LongType", "bigint"))]),
            ("udt", "ks", "\xe9", [("a", ("leaf", "Int32Type", "int"))]),
            ("udt", "ks", "t", [("\xe9", ("leaf", "Int32Type", "int"))]),
            ("vector", ("leaf", "FloatType", "float"), 3),
            ("vector", ("vector", ("leaf", "AsciiType", "ascii"), 2), 4),
            ("reversed", ("leaf", "TimeUUIDType", "timeuuid")),
            ("composite", [("leaf", "Int32Type", "int"), ("reversed", ("leaf", "UTF8Type", "text"))]),
            ("dyncomposite", [("a", ("leaf", "Int32Type", "int")), ("b", ("leaf", "UTF8Type", "text"))]),
            ("list", ("frozen", ("map", ("leaf", "UTF8Type", "text"), ("frozen", ("set", ("tuple", [("leaf", "Int32Type", "int")])))))),
        ]
        for t in fixed:
            check_descriptor(ctx, rng, T, util, tt, t)
        ctx.sample({"descriptor": tt.marshal(fixed[1]), "cql": T.lookup_casstype(tt.marshal(fixed[1])).cql_parameterized_type()})
        ctx.sample({"descriptor": tt.marshal(fixed[-1]), "cql": T.lookup_casstype(tt.marshal(fixed[-1])).cql_parameterized_type()})
        for s in ["int", "frozen<tuple<text, int>>", "map<text,frozen<list<frozen<set<int>>>>>", 'frozen<"My Type">', "vector<float, 3>",
                  'list<frozen<"frozen">>', "tuple<frozen<tuple<int, frozen<list<int>>>>, int>"]:
            check_cql_string_text(ctx, T, tt, s)
        ctx.sample({"strip_frozen": {"in": "map<text,frozen<list<frozen<set<int>>>>>", "out": T.strip_frozen("map<text,frozen<list<frozen<set<int>>>>>")}})

    n = ctx.scale(20000, 1000000)
    depth_seen = {}
    for _ in range(n):
        tree = gen_tree(rng, tt, rng.choice([2, 3, 4, 4]))
        d = tree_depth(tree)
        depth_seen[d] = depth_seen.get(d, 0) + 1
        if d > 4:
            continue
        check_descriptor(ctx, rng, T, util, tt, tree)
    for d, c in depth_seen.items():
        ctx.count("trees_of_depth_%d" % d, c)
    m = ctx.scale(20000, 1000000)
    for _ in range(m):
        tree = gen_cql_tree(rng, tt, rng.choice([1, 2, 3, 4, 4, 4]), exotic=rng.random() < 0.05, top=True)
        if tree_depth(tree) > 4:
            continue
        check_cql_string(ctx, rng, T, tt, tree)
    ctx.floor_distinct = 4000 if ctx.quick else 100000
    ctx.floor_counters = {"descriptors_parsed": 10000, "structure_checks": 9000, "cql_name_checks": 5000, "codec_checks": 5000,
                          "cql_strings_round_tripped": 10000, "strip_frozen_checks": 9000, "strip_frozen_with_wrappers": 2000,
                          "trees_of_depth_4": 1000}


def check_cql_string_text(ctx, T, tt, s):
    ctx.case(("cql", s))
    ctx.count("cql_strings_round_tripped")
    back = T.python_to_cqltype(T.cqltype_to_python(s))
    if tt.squash(back) != tt.squash(s):
        ctx.violation("cql-type-string-round-trip-differs", "python_to_cqltype(cqltype_to_python(%r)) = %r" % (s, back), {"cql_type_string": s})
    ctx.count("strip_frozen_checks")
    got = T.strip_frozen(s)
    want = tt.strip_frozen(s)
    if tt.squash(got) != tt.squash(want):
        ctx.violation("strip-frozen-differs", "strip_frozen(%r) = %r, spec %r" % (s, got, want), {"cql_type_string": s})
