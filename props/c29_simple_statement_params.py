"""C29 - simple-statement parameters are injection-safe and value-preserving.

Monitor: generated parameter values of every Python type in ``Encoder.mapping`` and of subclasses of them,
nested to depth 3, are substituted positionally (``%s``) and by name (``%(n)s``) through the real
``cassandra.query.bind_params(query, params, Encoder())`` into templates whose neighbours expose a break-out
(``... WHERE a = %s AND x = 1``, ``VALUES (%s, %s)``, ``IN %s``).
Oracle: the independent lexer ``spec/cqllex.py`` reads the substituted statement: the template's own tokens
must be unchanged and in place and each placeholder must have become exactly ONE term (``parse_term``); the
term, interpreted for the CQL type the encoder targets (text for str, blob for bytes, the integer types for int,
double for float, decimal, uuid, timestamp(ms) for datetime, date, time, inet, list/set/map), is encoded leaf by
leaf with ``spec/cqlcodec.py`` and compared with the bytes the prepared-statement path produces for the original
Python object (``cassandra.cqltypes.<Type>.serialize``).
"""
import collections
import datetime
import decimal
import ipaddress
import math
import uuid

PROPERTY = "C29"
LEVEL = "exploration"
ENGINE = "spec"
TECHNIQUE = "independent CQL lexer/term reader over bind_params output + leaf-wise byte comparison with the prepared path"
LEVEL_TEXT = ("exploration: tens of thousands (quick) to ~1M (thorough) seeded statements with 1-4 parameters of every mapped type and "
              "subclasses, hostile texts, extreme numbers, nested collections to depth 3; each substituted statement is re-read by an "
              "independent lexer and every literal compared with the prepared-statement encoding of the original value")
LEVEL_NOTE = ("trusted base: spec/cqllex.py (Cassandra lexer rules and literal terms), spec/cqlcodec.py; literal forms whose reading by "
              "Cassandra could not be established offline are not generated (see assumptions); decimals are compared by numeric value")
QUICK_WORKERS = 2
WORKERS = 12

# mechanism slugs of the confirmed defects (known_findings.d/C29.json); each has a narrow predicate below
K_STR = "str-subclass-emitted-unquoted"
K_BYTES = "bytes-subclass-emitted-as-python-repr"
K_TEMPORAL = "datetime-subclass-emitted-unquoted"
K_COLL = "collection-subclass-emitted-as-python-repr"
K_FLOATINF = "float-subclass-infinity-emitted-as-inf"
K_DECIMAL = "decimal-rounded-through-float"
SUSPECT_SLUG = {"str": K_STR, "bytes": K_BYTES, "temporal": K_TEMPORAL, "collection": K_COLL, "floatinf": K_FLOATINF}


# --------------------------------------------------------------------------------------------
# subclasses handed to the encoder
# --------------------------------------------------------------------------------------------
class StrSub(str):
    pass


class BytesSub(bytes):
    pass


class ByteArraySub(bytearray):
    pass


class IntSub(int):
    pass


class FloatSub(float):
    pass


class DecimalSub(decimal.Decimal):
    pass


class UUIDSub(uuid.UUID):
    pass


class DateTimeSub(datetime.datetime):
    pass


class DateSub(datetime.date):
    pass


class TimeSub(datetime.time):
    pass


class ListSub(list):
    pass


class TupleSub(tuple):
    pass


class SetSub(set):
    pass


class FrozenSetSub(frozenset):
    pass


class DictSub(dict):
    pass


Pair = collections.namedtuple("Pair", "first second")
Triple = collections.namedtuple("Triple", "a b c")


class PairSub(Pair):
    pass


class _Tag(object):
    """a mixin that contributes nothing: class X(_Tag, StrSub) has the supported type three steps down its MRO"""
    __slots__ = ()


_DEEPER = {}


def _sub(rng, cls):
    """the subclass itself, a subclass of it (the supported type is a grandparent) or a mixin combination of it"""
    r = rng.random()
    if r < 0.6:
        return cls
    return _DEEPER[(cls, r < 0.85)]


for _c in (StrSub, BytesSub, ByteArraySub, IntSub, FloatSub, DecimalSub, UUIDSub, DateTimeSub, DateSub, TimeSub, ListSub, TupleSub, SetSub,
           FrozenSetSub, DictSub):
    for _deep, _suffix, _bases in ((True, "2", (_c,)), (False, "M", (_Tag, _c))):
        _k = type(_c.__name__ + _suffix, _bases, {"__module__": __name__})
        globals()[_k.__name__] = _k         # picklable: found by attribute lookup on this module
        _DEEPER[(_c, _deep)] = _k

EPOCH = datetime.datetime(1970, 1, 1)
INJECTION_TEXTS = ["x' OR 1=1 --", "'; DROP TABLE ks.t; --", "' OR ''='", "a' AND x = 2 AND y = 'b", "\\' OR 1=1 --", "\\", "'", "''", "'''",
                   "$$", "$$ OR 1=1 $$", "%s", "%(p0)s", "%%", "%", "/* c */", "-- c", "// c", "x'; --\n", "a\nb", "a\rb", "\x00", "a\x00'b",
                   "NULL", "null", "0x00", "1", "-1", "1.5", "true", "NaN", "Infinity", "abc", "", " ", "{}", "[]", "()", "{'a': 1}", "?", ":x",
                   "00000000-0000-0000-0000-000000000000", "2020-01-01", "’ OR 1=1", "＇", "ʼ", "it's", "'quoted'", '"dq"',
                   "\U0001F600'", "é'é", "a'b'c''d"]


# --------------------------------------------------------------------------------------------
# generator: (target type, canonical value) -> python object with variants
# --------------------------------------------------------------------------------------------
SCALARS = ["text", "text", "text", "blob", "tinyint", "smallint", "int", "bigint", "varint", "boolean", "double", "double", "decimal", "decimal",
           "uuid", "timestamp", "date", "time", "inet"]
KEYABLE = ["text", "text", "blob", "int", "bigint", "varint", "boolean", "double", "decimal", "uuid", "timestamp", "date", "time", "inet"]


def gen_type(rng, depth, keyable=False):
    """Target type trees: scalars and list/set/map.  Set elements and map keys (keyable) never contain maps (not hashable in
    Python whatever the container)."""
    if depth > 0 and not keyable and rng.random() < 0.18:
        return gen_hetero_type(rng)
    if depth <= 0 or rng.random() < 0.4:
        return (rng.choice(KEYABLE if keyable else SCALARS),)
    k = rng.choice(["list", "set", "map"] if not keyable else ["list", "set"])
    if k == "list":
        return ("list", gen_type(rng, depth - 1, keyable))
    if k == "set":
        return ("set", gen_type(rng, depth - 1, True))
    return ("map", gen_type(rng, depth - 1, True), gen_type(rng, depth - 1, False))


# heterogeneous collections: adjacent elements whose python types are related by subclassing but have different encoders
# (each element has its own target type and forced python rendering: ('x', base type, rendering))
HETERO_FAMILIES = [
    [("x", ("date",), "pydate"), ("x", ("timestamp",), "pydatetime")],
    [("x", ("bigint",), "int"), ("x", ("boolean",), "bool")],
    [("x", ("bigint",), "int"), ("x", ("bigint",), "intsub"), ("x", ("boolean",), "bool")],
    [("x", ("text",), "str"), ("x", ("text",), "strsub")],
    [("x", ("double",), "float"), ("x", ("double",), "floatsub")],
    [("x", ("decimal",), "dec"), ("x", ("decimal",), "decsub")],
    [("x", ("uuid",), "uuid"), ("x", ("uuid",), "uuidsub")],
    [("x", ("blob",), "bytes"), ("x", ("blob",), "bytessub")],
    [("x", ("list", ("int",)), "tuple"), ("x", ("list", ("int",)), "namedtuple")],
    [("x", ("list", ("int",)), "list"), ("x", ("list", ("int",)), "listsub")],
    [("x", ("map", ("text",), ("int",)), "dict"), ("x", ("map", ("text",), ("int",)), "ordereddict"), ("x", ("map", ("text",), ("int",)), "orderedmap")],
    [("x", ("timestamp",), "pydatetime"), ("x", ("timestamp",), "datetimesub")],
]
UNHASHABLE_RENDERINGS = ("list", "listsub", "dict", "ordereddict", "orderedmap")


def gen_hetero_type(rng):
    fam = rng.choice(HETERO_FAMILIES)
    n = rng.randint(2, 4)
    start = rng.randrange(len(fam))
    specs = tuple(fam[(start + i) % len(fam)] if rng.random() < 0.85 else rng.choice(fam) for i in range(n))
    kind = "hset" if (rng.random() < 0.35 and not any(sp[2] in UNHASHABLE_RENDERINGS for sp in specs)) else "hlist"
    return (kind, specs)


def gen_hetero_values(rng, G, specs, distinct):
    out, seen = [], set()
    for sp in specs:
        base = sp[1]
        for _ in range(50):
            if base == ("date",):
                v = rng.randint(-354285, 2932896)
            elif base == ("timestamp",):
                v = gen_canonical(rng, G, base)
                if v % 86400000 == 0:
                    v += rng.randint(1, 86399999)
            elif base == ("bigint",):
                v = rng.choice([2, -1, 7, rng.randint(-2 ** 63, 2 ** 63 - 1)])
            elif base[0] == "list":
                v = [rng.randint(-5, 5) for _ in range(rng.choice([2, 3, 1]))]
            elif base[0] == "map":
                v = [(k, rng.randint(0, 9)) for k in rng.sample(["a", "b", "it's", ""], rng.randint(0, 2))]
            else:
                v = gen_canonical(rng, G, base)
            key = repr((base[0] in ("bigint", "boolean", "double", "decimal"), v if base[0] != "double" or v == v else "nan"))
            if not distinct or (key not in seen and not (base == ("double",) and v != v)):
                seen.add(key)
                break
        out.append(v)
    return out


def forced_py(rng, spec, v, st):
    """python object for one element of a heterogeneous collection"""
    from cassandra import util
    how = spec[2]
    if how == "pydate":
        return datetime.date(1970, 1, 1) + datetime.timedelta(days=v)
    if how in ("pydatetime", "datetimesub"):
        dt = EPOCH + datetime.timedelta(milliseconds=v)
        if how == "pydatetime":
            return dt
        o = DateTimeSub(dt.year, dt.month, dt.day, dt.hour, dt.minute, dt.second, dt.microsecond)
        st.suspects.append(("temporal", o))
        return o
    if how == "int":
        return int(v)
    if how == "intsub":
        return IntSub(v)
    if how == "bool":
        return bool(v)
    if how == "str":
        return str(v)
    if how == "strsub":
        o = StrSub(v)
        st.suspects.append(("str", o))
        return o
    if how == "float":
        return float(v)
    if how == "floatsub":
        o = FloatSub(v)
        if math.isinf(v):
            st.suspects.append(("floatinf", o))
        return o
    if how == "dec":
        return decimal.Decimal(v)
    if how == "decsub":
        return DecimalSub(v)
    if how == "uuid":
        return v
    if how == "uuidsub":
        return UUIDSub(int=v.int)
    if how == "bytes":
        return bytes(v)
    if how == "bytessub":
        o = BytesSub(v)
        st.suspects.append(("bytes", o))
        return o
    if how == "tuple":
        return tuple(v)
    if how == "list":
        return list(v)
    if how == "namedtuple":
        o = Pair(*v) if len(v) == 2 else Triple(*v) if len(v) == 3 else TupleSub(v)
        st.suspects.append(("collection", o))
        return o
    if how == "listsub":
        o = ListSub(v)
        st.suspects.append(("collection", o))
        return o
    if how == "dict":
        return dict(v)
    if how == "ordereddict":
        return collections.OrderedDict(v)
    if how == "orderedmap":
        return util.OrderedMap(v)
    raise AssertionError(how)


class GenState(object):
    def __init__(self, want_suspect):
        self.want_suspect = want_suspect
        self.suspects = []       # (kind, object)
        self.tags = []


def gen_text(rng, G):
    r = rng.random()
    if r < 0.45:
        return rng.choice(INJECTION_TEXTS)
    if r < 0.6:
        return rng.choice(INJECTION_TEXTS) + rng.choice(INJECTION_TEXTS)
    return G.gen_scalar(rng, "text")


def gen_double(rng, G):
    r = rng.random()
    if r < 0.35:
        return rng.choice([0.0, -0.0, 1.0, -1.0, 0.1, 1e22, 1e21, 1e16, 1e-5, 1e-7, 123456789.123456789, float("inf"), float("-inf"), float("nan"),
                           1.7976931348623157e308, -1.7976931348623157e308, 5e-324, -5e-324, 2.2250738585072014e-308, 2.225073858507201e-308,
                           4.9406564584124654e-324, 9007199254740993.0, 0.30000000000000004, 1 / 3.0, 2 ** 63 * 1.0, 1e100, 1.5e-300])
    return G.gen_scalar(rng, "double")


def gen_decimal(rng, G):
    r = rng.random()
    if r < 0.35:
        return decimal.Decimal(rng.choice(["0", "1", "-1", "0.1", "1.10", "5", "1.5", "-1.28", "1E+2", "0.000", "1E-20", "1E+30", "1E+400", "-1E+400",
                                           "1E-400", "0.1234567890123456789012345678901234", "1234567890123456789012345678901234",
                                           "9.999999999999999999999999999999999E+6144", "123456789012345678901234567890.123456789", "0.30000000000000004",
                                           "0.1000000000000000055511151231257827", "9007199254740993", "-0.0", "0E-10", "12700E-2"]))
    return G.gen_scalar(rng, "decimal")


def gen_canonical(rng, G, t, depth_left=3):
    k = t[0]
    if k in ("hlist", "hset"):
        return gen_hetero_values(rng, G, t[1], distinct=(k == "hset"))
    if k == "text":
        return gen_text(rng, G)
    if k == "double":
        return gen_double(rng, G)
    if k == "decimal":
        return gen_decimal(rng, G)
    if k == "timestamp":
        # naive/aware datetimes must stay inside datetime's range after the offset is applied: keep a day's margin
        v = G.gen_scalar(rng, "timestamp")
        return max(G.TS_MIN_MS + 2 * 86400000, min(G.TS_MAX_MS - 2 * 86400000, v))
    if k in ("list", "set", "map"):
        from spec import cqlcodec as S
        n = rng.choice([0, 1, 1, 2, 3])
        if k == "list":
            return [gen_canonical(rng, G, t[1]) for _ in range(n)]
        out, seen = [], set()
        for _ in range(n):
            e = gen_canonical(rng, G, t[1])
            key = repr(py_equality_key(t[1], e))
            if key in seen:
                continue
            seen.add(key)
            out.append(e if k == "set" else (e, gen_canonical(rng, G, t[2])))
        return out
    return G.gen_scalar(rng, k)


def py_equality_key(t, v):
    """Key under which two canonical values would collapse inside a Python set / dict (so generated elements stay distinct):
    numeric equality for floats and decimals, NaN kept single."""
    k = t[0]
    if k == "double":
        return ("nan",) if v != v else (0.0 if v == 0 else v)
    if k == "decimal":
        return str(v.normalize()) if v != 0 else "0"
    if k == "list":
        return tuple(py_equality_key(t[1], e) for e in v)
    if k == "set":
        return tuple(sorted((repr(py_equality_key(t[1], e)) for e in v)))
    return v


def to_py(rng, t, v, st, hashable=False):
    """Python object for canonical value ``v`` of target type ``t`` with a randomly chosen variant."""
    from cassandra import util
    k = t[0]
    r = rng.random()
    if k in ("hlist", "hset"):
        items = [forced_py(rng, sp, e, st) for sp, e in zip(t[1], v)]
        if k == "hset":
            return frozenset(items) if r < 0.4 else set(items)
        return tuple(items) if r < 0.4 else items
    if k == "text":
        if st.want_suspect and r < 0.5:
            st.want_suspect = False
            o = _sub(rng, StrSub)(v)
            st.suspects.append(("str", o))
            return o
        return v
    if k == "blob":
        if st.want_suspect and r < 0.5:
            st.want_suspect = False
            o = _sub(rng, BytesSub)(v) if (hashable or rng.random() < 0.5) else _sub(rng, ByteArraySub)(v)
            st.suspects.append(("bytes", o))
            return o
        if hashable:
            return bytes(v)
        return rng.choice([bytes, bytes, bytearray, memoryview])(v)
    if k in ("tinyint", "smallint", "int", "bigint", "varint"):
        if r < 0.15:
            st.tags.append("int-subclass")
            return _sub(rng, IntSub)(v)
        return v
    if k == "boolean":
        return bool(v)
    if k == "double":
        if r < 0.2:
            o = _sub(rng, FloatSub)(v)
            if math.isinf(v):
                if not st.want_suspect:
                    return v
                st.want_suspect = False
                st.suspects.append(("floatinf", o))
            else:
                st.tags.append("float-subclass")
            return o
        return v
    if k == "decimal":
        if r < 0.15:
            st.tags.append("decimal-subclass")
            return _sub(rng, DecimalSub)(v)
        return v
    if k == "uuid":
        if r < 0.15:
            st.tags.append("uuid-subclass")
            return _sub(rng, UUIDSub)(int=v.int)
        return v
    if k == "timestamp":
        extra_us = rng.choice([0, 0, 1, 499, 500, 999, rng.randint(0, 999)])
        dt = EPOCH + datetime.timedelta(milliseconds=v, microseconds=extra_us)
        if st.want_suspect and r < 0.5:
            st.want_suspect = False
            o = _sub(rng, DateTimeSub)(dt.year, dt.month, dt.day, dt.hour, dt.minute, dt.second, dt.microsecond)
            st.suspects.append(("temporal", o))
            return o
        if r < 0.75:
            return dt
        off = datetime.timezone(datetime.timedelta(minutes=rng.choice([0, 60, -300, 330, 765, -720, rng.randint(-1439, 1439)])))
        st.tags.append("aware-datetime")
        return dt.replace(tzinfo=datetime.timezone.utc).astimezone(off)
    if k == "date":
        in_range = -354285 <= v <= 2932896      # 1000-01-01 .. 9999-12-31 (4-digit years only, see assumptions)
        if in_range and st.want_suspect and r < 0.5:
            st.want_suspect = False
            d = datetime.date(1970, 1, 1) + datetime.timedelta(days=v)
            o = _sub(rng, DateSub)(d.year, d.month, d.day)
            st.suspects.append(("temporal", o))
            return o
        if in_range and r < 0.7:
            return datetime.date(1970, 1, 1) + datetime.timedelta(days=v)
        return util.Date(v)
    if k == "time":
        us, rest = divmod(v, 1000)
        as_time = lambda cls: cls(us // 3600000000, us // 60000000 % 60, us // 1000000 % 60, us % 1000000)
        if rest == 0 and st.want_suspect and r < 0.5:
            st.want_suspect = False
            o = as_time(_sub(rng, TimeSub))
            st.suspects.append(("temporal", o))
            return o
        if rest == 0 and r < 0.7:
            return as_time(datetime.time)
        return util.Time(v)
    if k == "inet":
        return ipaddress.ip_address(bytes(v))
    if k == "list":
        items = [to_py(rng, t[1], e, st, hashable) for e in v]
        if st.want_suspect and r < 0.35:
            st.want_suspect = False
            if len(items) == 2 and rng.random() < 0.5:
                o = (PairSub if rng.random() < 0.4 else Pair)(*items)
            elif len(items) == 3 and rng.random() < 0.5:
                o = Triple(*items)
            else:
                o = _sub(rng, TupleSub)(items) if (hashable or rng.random() < 0.5) else _sub(rng, ListSub)(items)
            st.suspects.append(("collection", o))
            return o
        if hashable:
            return tuple(items)
        return tuple(items) if rng.random() < 0.35 else items
    if k == "set":
        items = [to_py(rng, t[1], e, st, True) for e in v]
        if st.want_suspect and r < 0.35:
            st.want_suspect = False
            o = _sub(rng, FrozenSetSub)(items) if (hashable or rng.random() < 0.5) else _sub(rng, SetSub)(items)
            st.suspects.append(("collection", o))
            return o
        if hashable:
            return frozenset(items)
        q = rng.random()
        if q < 0.2 and items and t[1][0] in ("text", "int", "bigint", "varint", "uuid") and not any(type(x) is not type(items[0]) for x in items):
            return util.sortedset(items)
        return frozenset(items) if q < 0.5 else set(items)
    if k == "map":
        pairs = [(to_py(rng, t[1], a, st, True), to_py(rng, t[2], b, st, False)) for a, b in v]
        if st.want_suspect and r < 0.35:
            st.want_suspect = False
            if rng.random() < 0.3:
                o = collections.defaultdict(int)
                o.update(pairs)
            else:
                o = _sub(rng, DictSub)(pairs)
            st.suspects.append(("collection", o))
            return o
        q = rng.random()
        if q < 0.2:
            return collections.OrderedDict(pairs)
        if q < 0.4:
            return util.OrderedMap(pairs)
        return dict(pairs)
    raise AssertionError(t)


# --------------------------------------------------------------------------------------------
# reading literals for a target type (independent of the driver)
# --------------------------------------------------------------------------------------------
class Unreadable(Exception):
    pass


_DIG = "0123456789"


def _all_digits(s):
    return bool(s) and all(c in _DIG for c in s)


def date_string_to_days(s):
    """'YYYY-MM-DD' with a 4-digit year only."""
    if len(s) != 10 or s[4] != "-" or s[7] != "-" or not (_all_digits(s[:4]) and _all_digits(s[5:7]) and _all_digits(s[8:])):
        raise Unreadable("date literal %r is not YYYY-MM-DD" % (s,))
    y, m, d = int(s[:4]), int(s[5:7]), int(s[8:])
    try:
        return datetime.date(y, m, d).toordinal() - 719163
    except ValueError:
        raise Unreadable("date literal %r is not a calendar date" % (s,))


def time_string_to_nanos(s):
    """Cassandra's TimeSerializer: hh:mm:ss[.fffffffff]."""
    parts = s.split(":")
    if len(parts) != 3:
        raise Unreadable("time literal %r is not hh:mm:ss[.fffffffff]" % (s,))
    hh, mm, rest = parts
    if "." in rest:
        ss, frac = rest.split(".", 1)
        if not _all_digits(frac) or len(frac) > 9:
            raise Unreadable("time literal %r has a bad fraction" % (s,))
        nanos = int(frac + "0" * (9 - len(frac)))
    else:
        ss, nanos = rest, 0
    if not (_all_digits(hh) and _all_digits(mm) and _all_digits(ss)):
        raise Unreadable("time literal %r is not hh:mm:ss[.fffffffff]" % (s,))
    h, m, sec = int(hh), int(mm), int(ss)
    if h > 23 or m > 59 or sec > 59:
        raise Unreadable("time literal %r out of range" % (s,))
    return ((h * 60 + m) * 60 + sec) * 10 ** 9 + nanos


def leaf_bytes_from_term(S, t, term, toks):
    """Bytes Cassandra stores for the literal ``term`` assigned to a column of scalar type ``t``."""
    k = t[0]
    kind = term.kind
    text = toks[term.start].text if term.end - term.start == 1 else None
    if k == "text":
        if kind != "string":
            raise Unreadable("a %s literal, not a string" % kind)
        return S.enc(t, term.value)
    if k == "blob":
        if kind != "blob":
            raise Unreadable("a %s literal, not a blob" % kind)
        return S.enc(t, term.value)
    if k in ("tinyint", "smallint", "int", "bigint", "varint"):
        if kind != "int":
            raise Unreadable("a %s literal, not an integer" % kind)
        return S.enc(t, term.value)
    if k == "boolean":
        if kind != "bool":
            raise Unreadable("a %s literal, not a boolean" % kind)
        return S.enc(t, term.value)
    if k == "double":
        if kind not in ("float", "int"):
            raise Unreadable("a %s literal, not a number" % kind)
        return S.enc(t, float(term.value))
    if k == "uuid":
        if kind != "uuid":
            raise Unreadable("a %s literal, not a uuid" % kind)
        return S.enc(t, term.value)
    if k == "timestamp":
        if kind != "int":
            raise Unreadable("a %s literal; only integer (millisecond) timestamps are read by this oracle" % kind)
        return S.enc(t, term.value)
    if k == "date":
        if kind == "int":
            return S.enc(t, term.value - 2 ** 31)
        if kind != "string":
            raise Unreadable("a %s literal, not a date" % kind)
        return S.enc(t, date_string_to_days(term.value))
    if k == "time":
        if kind == "int":
            return S.enc(t, term.value)
        if kind != "string":
            raise Unreadable("a %s literal, not a time" % kind)
        return S.enc(t, time_string_to_nanos(term.value))
    if k == "inet":
        if kind != "string":
            raise Unreadable("a %s literal, not an inet string" % kind)
        try:
            return ipaddress.ip_address(term.value).packed
        except ValueError:
            raise Unreadable("%r is not an address" % (term.value,))
    raise AssertionError(t)


def decimal_from_term(term, toks):
    """java.math.BigDecimal(text) for a numeric literal; None for NaN / Infinity."""
    if term.kind not in ("float", "int"):
        raise Unreadable("a %s literal, not a number" % term.kind)
    if term.end - term.start != 1 or toks[term.start].kind not in ("INT", "FLOAT"):
        return None
    return decimal.Decimal(toks[term.start].text)


def has_hetero(t):
    if t[0] in ("hlist", "hset"):
        return True
    if t[0] in ("list", "set"):
        return has_hetero(t[1])
    if t[0] == "map":
        return has_hetero(t[1]) or has_hetero(t[2])
    return False


def contains(obj, target):
    """identity search of ``target`` in a nested python value"""
    if obj is target:
        return True
    if isinstance(obj, (str, bytes, bytearray, memoryview)):
        return False
    if hasattr(obj, "items") and hasattr(obj, "keys"):
        return any(contains(a, target) or contains(b, target) for a, b in obj.items())
    if isinstance(obj, (list, tuple, set, frozenset)) or type(obj).__name__ in ("SortedSet", "ValueSequence"):
        return any(contains(e, target) for e in obj)
    return False


# --------------------------------------------------------------------------------------------
# oracle
# --------------------------------------------------------------------------------------------
class Judge(object):
    def __init__(self, ctx, L, S, G, enc, bind_params):
        self.ctx, self.L, self.S, self.G, self.enc, self.bind = ctx, L, S, G, enc, bind_params
        self._dtypes = {}

    def dtype(self, t):
        dt = self._dtypes.get(t)
        if dt is None:
            dt = self._dtypes[t] = self.G.driver_type(t)
        return dt

    # -- classification of the known mechanisms -------------------------------------------
    def verbatim(self, obj):
        """The narrow predicate shared by the subclass findings: the object's exact type has no encoder entry and the literal
        emitted for it is str(obj) verbatim."""
        try:
            return type(obj) not in self.enc.mapping and self.bind("%s", (obj,), self.enc) == str(obj)
        except Exception:
            return False

    def suspect_slug(self, suspects, out):
        for kind, obj in suspects:
            if self.verbatim(obj) and str(obj) in out:
                if kind == "floatinf" and str(obj) not in ("inf", "-inf"):
                    continue
                return SUSPECT_SLUG[kind]
        return None

    # -- one literal ----------------------------------------------------------------------------
    def term_matches(self, t, obj, term, toks, path, problems, under_suspect):
        """Append (slug, text) to ``problems`` for every disagreement between ``term`` and python object ``obj`` of target ``t``."""
        ctx, S = self.ctx, self.S
        k = t[0]

        def bad(default_slug, msg, leaf=None):
            slug = default_slug
            sus = under_suspect
            if sus is None and leaf is not None:
                for kind, so in self.current_suspects:
                    if contains(leaf, so):
                        sus = (kind, so)
            if sus is not None and self.verbatim(sus[1]) and not (sus[0] == "floatinf" and str(sus[1]) not in ("inf", "-inf")):
                slug = SUSPECT_SLUG[sus[0]]
            problems.append((slug, "%s: %s" % (path, msg)))

        here = under_suspect
        if here is None:
            for kind, so in self.current_suspects:
                if so is obj:
                    here = (kind, so)
        if k in ("hlist", "hset"):
            # every element has its own target type; a set is read in the iteration order of the very object the encoder walked
            want_kind = "list" if k == "hlist" else "set"
            elems = list(obj)
            if term.kind != want_kind or len(term.value) != len(elems):
                bad("literal-of-wrong-kind", "expected a %s literal with %d entries, found %s" % (want_kind, len(elems), term.kind), obj)
                return
            if k == "hset" and len(elems) != len(t[1]):
                return          # equal elements collapsed inside the python set: element types can no longer be told apart
            specs = t[1] if k == "hlist" else [self.spec_of(t[1], e) for e in elems]
            for i, (sp, e, sub) in enumerate(zip(specs, elems, term.value)):
                if sp is None:
                    continue
                self.term_matches(sp[1], e, sub, toks, "%s[%d]" % (path, i), problems, here)
            self.ctx.count("heterogeneous_collections_judged")
            return
        if k in ("list", "set", "map"):
            want = {"list": ("list",), "set": ("set", "empty_braces"), "map": ("map", "empty_braces")}[k]
            if term.kind not in want or (term.kind == "empty_braces" and len(obj) != 0):
                bad("literal-of-wrong-kind", "expected a %s literal, found %s" % (k, term.kind), obj)
                return
            items = [] if term.kind == "empty_braces" else term.value
            if len(items) != len(obj):
                bad("collection-literal-size-differs", "%s literal has %d entries, the value has %d" % (k, len(items), len(obj)), obj)
                return
            if k == "list":
                for i, (e, sub) in enumerate(zip(obj, items)):
                    self.term_matches(t[1], e, sub, toks, "%s[%d]" % (path, i), problems, here)
                return
            if k == "map" and has_hetero(t[2]):
                # values with per-element target types: walk the pairs in the iteration order of the very object the encoder walked
                for (a, b), (ta, tb) in zip(obj.items(), items):
                    try:
                        same_key = self.py_key(t[1], a) == self.term_key(t[1], ta, toks)
                    except Unreadable as e:
                        same_key = False
                    if not same_key:
                        bad("literal-denotes-different-value", "map literal key does not denote %r" % (a,), obj)
                        return
                    self.term_matches(t[2], b, tb, toks, "%s[%r]" % (path, a), problems, here)
                return
            # sets and maps: order-free comparison through canonical keys built from leaf bytes
            try:
                if k == "set":
                    got = sorted(repr(self.term_key(t[1], sub, toks)) for sub in items)
                    exp = sorted(repr(self.py_key(t[1], e)) for e in obj)
                else:
                    got = sorted(repr((self.term_key(t[1], a, toks), self.term_key(t[2], b, toks))) for a, b in items)
                    exp = sorted(repr((self.py_key(t[1], a), self.py_key(t[2], b))) for a, b in obj.items())
            except Unreadable as e:
                bad("literal-unreadable-for-target-type", "inside the %s literal: %s" % (k, e), obj)
                return
            ctx.count("leaf_literals_compared_with_prepared_bytes", len(got))
            if got != exp:
                # find out whether only decimals differ (known mechanism) by a numeric comparison
                if self.only_decimal_rounding(t, obj, term, toks):
                    bad(K_DECIMAL, "a decimal inside the %s literal reads back as a different number (float rounding)" % k)
                else:
                    bad("literal-denotes-different-value", "%s literal denotes different entries than the value" % k, obj)
            return
        # ---- scalar leaf
        if obj is None:
            if term.kind != "null":
                bad("literal-of-wrong-kind", "None was emitted as a %s literal" % term.kind)
            return
        if k == "decimal":
            self.decimal_leaf(obj, term, toks, path, problems, bad)
            return
        try:
            got = leaf_bytes_from_term(S, t, term, toks)
        except Unreadable as e:
            bad("literal-unreadable-for-target-type", "%s literal for %r: %s" % (k, obj, e), obj)
            return
        except S.SpecError as e:
            bad("literal-out-of-range-for-target-type", "%s literal for %r: %s" % (k, obj, e), obj)
            return
        exp = bytes(self.dtype(t).serialize(obj, 4))
        ctx.count("leaf_literals_compared_with_prepared_bytes")
        if k == "double" and obj != obj:
            ok = term.kind == "float" and term.value != term.value
        else:
            ok = got == exp
        if not ok:
            bad("literal-denotes-different-value", "%s literal %r reads as bytes %s, the prepared path sends %s for %r" % (
                k, toks[term.start].text, got.hex()[:40], exp.hex()[:40], obj), obj)

    def decimal_leaf(self, obj, term, toks, path, problems, bad):
        ctx = self.ctx
        try:
            lit = decimal_from_term(term, toks)
        except Unreadable as e:
            bad("literal-unreadable-for-target-type", "decimal literal for %r: %s" % (obj, e), obj)
            return
        ctx.count("leaf_literals_compared_with_prepared_bytes")
        ctx.count("decimal_literals_judged")
        text = " ".join(x.text for x in toks[term.start:term.end])
        if lit is not None and lit == obj:
            if lit.as_tuple() != decimal.Decimal(obj).as_tuple():
                ctx.count("decimal_literals_equal_value_different_scale")
            return
        # not the same number: is it exactly the float detour (literal == encoding of float(value))?
        try:
            f = float(obj)
            through_float = (type(obj) is decimal.Decimal and
                             ((lit is not None and float(text) == f) or
                              (lit is None and term.kind == "float" and (term.value == f or (f != f and term.value != term.value)))))
        except Exception:
            through_float = False
        if through_float:
            problems.append((K_DECIMAL, "%s: Decimal %s was emitted as %s (the double nearest to it)" % (path, obj, text)))
        else:
            bad("literal-denotes-different-value", "decimal literal %s is not the number %s" % (text, obj), obj)

    def only_decimal_rounding(self, t, obj, term, toks):
        """True when a set/map literal differs from the value only at exact-Decimal leaves whose literal is the float detour."""
        probs = []
        try:
            self._loose(t, obj, term, toks, probs)
        except Exception:
            return False
        return bool(probs) and all(p == K_DECIMAL for p in probs)

    def _loose(self, t, obj, term, toks, probs):
        k = t[0]
        if k == "decimal":
            sub = []
            self.decimal_leaf(obj, term, toks, "", sub, lambda slug, msg, leaf=None: sub.append((slug, msg)))
            probs.extend(s for s, _ in sub)
            return
        if k == "list":
            for e, s in zip(obj, term.value):
                self._loose(t[1], e, s, toks, probs)
            return
        if k in ("set", "map"):
            items = [] if term.kind == "empty_braces" else term.value
            # pair elements by their float image (decimals) / exact key otherwise
            if k == "set":
                exp = sorted(obj, key=lambda e: repr(self.float_key(t[1], e)))
                got = sorted(items, key=lambda s: repr(self.float_term_key(t[1], s, toks)))
                for e, s in zip(exp, got):
                    self._loose(t[1], e, s, toks, probs)
            else:
                exp = sorted(obj.items(), key=lambda kv: repr(self.float_key(t[1], kv[0])))
                got = sorted(items, key=lambda ab: repr(self.float_term_key(t[1], ab[0], toks)))
                for (a, b), (sa, sb) in zip(exp, got):
                    self._loose(t[1], a, sa, toks, probs)
                    self._loose(t[2], b, sb, toks, probs)
            return
        if self.py_key(t, obj) != self.term_key(t, term, toks):
            probs.append("other")

    def float_key(self, t, obj):
        k = t[0]
        if k == "decimal":
            return ("d", float(obj))
        if k == "list":
            return tuple(self.float_key(t[1], e) for e in obj)
        if k == "set":
            return tuple(sorted(repr(self.float_key(t[1], e)) for e in obj))
        return self.py_key(t, obj)

    def float_term_key(self, t, term, toks):
        k = t[0]
        if k == "decimal":
            return ("d", float(term.value))
        if k == "list":
            return tuple(self.float_term_key(t[1], e, toks) for e in term.value)
        if k == "set":
            return tuple(sorted(repr(self.float_term_key(t[1], e, toks)) for e in ([] if term.kind == "empty_braces" else term.value)))
        return self.term_key(t, term, toks)

    @staticmethod
    def spec_of(specs, e):
        """element spec of a heterogeneous set member, found by the python type the generator gave it"""
        names = {"pydate": datetime.date, "pydatetime": datetime.datetime, "datetimesub": DateTimeSub, "int": int, "intsub": IntSub, "bool": bool,
                 "str": str, "strsub": StrSub, "float": float, "floatsub": FloatSub, "dec": decimal.Decimal, "decsub": DecimalSub,
                 "uuid": uuid.UUID, "uuidsub": UUIDSub, "bytes": bytes, "bytessub": BytesSub, "tuple": tuple}
        for sp in specs:
            if names.get(sp[2]) is type(e) or (sp[2] == "namedtuple" and isinstance(e, tuple) and type(e) is not tuple):
                return sp
        return None

    # canonical keys (order-free for sets/maps), leaves are bytes
    def py_key(self, t, obj):
        k = t[0]
        if k in ("hlist", "hset"):
            elems = list(obj)
            specs = t[1] if k == "hlist" else [self.spec_of(t[1], e) for e in elems]
            return ("H",) + tuple(self.py_key(sp[1], e) for sp, e in zip(specs, elems))
        if k == "list":
            return ("L",) + tuple(self.py_key(t[1], e) for e in obj)
        if k == "set":
            return ("S",) + tuple(sorted(repr(self.py_key(t[1], e)) for e in obj))
        if k == "map":
            return ("M",) + tuple(sorted(repr((self.py_key(t[1], a), self.py_key(t[2], b))) for a, b in obj.items()))
        if k == "decimal":
            d = decimal.Decimal(obj)
            return ("dec", str(d.normalize()) if d != 0 else "0")
        if k == "double" and obj != obj:
            return ("nan",)
        return bytes(self.dtype(t).serialize(obj, 4))

    def term_key(self, t, term, toks, obj=None):
        k = t[0]
        if k in ("hlist", "hset"):
            raise Unreadable("heterogeneous collection inside a set / map literal is compared elementwise only")
        if k in ("list", "set", "map"):
            want = {"list": ("list",), "set": ("set", "empty_braces"), "map": ("map", "empty_braces")}[k]
            if term.kind not in want:
                raise Unreadable("expected a %s literal, found %s" % (k, term.kind))
            items = [] if term.kind == "empty_braces" else term.value
            if k == "list":
                return ("L",) + tuple(self.term_key(t[1], e, toks) for e in items)
            if k == "set":
                return ("S",) + tuple(sorted(repr(self.term_key(t[1], e, toks)) for e in items))
            return ("M",) + tuple(sorted(repr((self.term_key(t[1], a, toks), self.term_key(t[2], b, toks))) for a, b in items))
        if k == "decimal":
            d = decimal_from_term(term, toks)
            if d is None:
                return ("dec", "non-finite")
            return ("dec", str(d.normalize()) if d != 0 else "0")
        if k == "double" and term.kind == "float" and term.value != term.value:
            return ("nan",)
        try:
            return leaf_bytes_from_term(self.S, t, term, toks)
        except self.S.SpecError as e:
            raise Unreadable(str(e))

    # -- one statement --------------------------------------------------------------------------
    def statement(self, template, params, plist, suspects, info):
        """``params`` is what bind_params receives; ``plist`` = [(placeholder name or index, target type, python object)] in template order."""
        ctx, L = self.ctx, self.L
        self.current_suspects = suspects
        ctx.count("statements_bound")
        witness = {"template": template, "parameters": [repr(o)[:200] for _, _, o in plist],
                   "parameter_types": [type(o).__name__ for _, _, o in plist], "targets": [info["names"][i] for i in range(len(plist))]}
        if suspects:
            witness["subclass_instance_inside"] = ["%s(%r)" % (type(o).__name__, o) for _, o in suspects][0][:200]
        try:
            out = self.bind(template, params, self.enc)
        except Exception as e:
            ctx.violation("bind-params-raises", "bind_params raised %s: %s" % (type(e).__name__, str(e)[:200]), witness)
            return
        witness["statement"] = out if len(out) < 1200 else out[:1200] + "..."

        def structural(default_slug, msg):
            slug = self.suspect_slug(suspects, out) or default_slug
            ctx.violation(slug, msg, witness)

        ttoks = L.lex(template)
        try:
            otoks = L.lex(out)
        except L.LexError as e:
            structural("substituted-statement-does-not-lex", "the substituted statement does not lex: %s" % e)
            return
        j = 0
        terms = []
        for tt in ttoks:
            if tt.kind in ("PYFMT_POS", "PYFMT_NAMED"):
                try:
                    term, j2 = L.parse_term(otoks, j)
                except L.ParseError as e:
                    structural("parameter-is-not-one-term", "placeholder %d did not become one literal term: %s" % (len(terms), e))
                    return
                terms.append(term)
                j = j2
                continue
            if j >= len(otoks):
                structural("parameter-changed-statement-structure", "the statement ends before template token %r" % tt.text)
                return
            ot = otoks[j]
            if (ot.kind, ot.value) != (tt.kind, tt.value):
                structural("parameter-changed-statement-structure",
                           "template token %r is not in place: found %s %r after %d parameter(s)" % (tt.text, ot.kind, ot.text, len(terms)))
                return
            j += 1
        if j != len(otoks):
            structural("parameter-changed-statement-structure", "%d extra tokens after the template's last token, starting with %r" % (
                len(otoks) - j, otoks[j].text))
            return
        ctx.count("statements_with_template_tokens_in_place")
        ctx.count("placeholders_read_as_one_term", len(terms))
        seen = set()
        for (name, t, obj), term in zip(plist, terms):
            problems = []
            if t[0] == "inlist":
                if term.kind != "tuple" or len(term.value) != len(obj):
                    problems.append(("literal-of-wrong-kind", "IN list was emitted as %s with %d entries" % (term.kind, len(term.value) if isinstance(term.value, list) else -1)))
                else:
                    for i, (e, sub) in enumerate(zip(obj, term.value)):
                        self.term_matches(t[1], e, sub, otoks, "param %s[%d]" % (name, i), problems, None)
            else:
                self.term_matches(t, obj, term, otoks, "param %s" % (name,), problems, None)
            for slug, msg in problems:
                if slug in seen:
                    continue
                seen.add(slug)
                w = dict(witness)
                w["literal"] = " ".join(x.text for x in otoks[term.start:term.end])[:300]
                ctx.violation(slug, msg, w)
        if not seen:
            ctx.count("statements_fully_agreeing")
            if suspects:
                ctx.count("subclass_variants_that_read_back_correctly")


TEMPLATES = [
    (1, "SELECT * FROM ks.t WHERE a = {0} AND x = 1"),
    (1, "SELECT v FROM ks.t WHERE k = 0 AND a = {0} AND x = 'y' ALLOW FILTERING;"),
    (2, "INSERT INTO ks.t (a, b) VALUES ({0}, {1})"),
    (3, "INSERT INTO ks.t (a, b, c) VALUES ({0}, {1}, {2}) USING TTL 10"),
    (2, "UPDATE ks.t SET v = {0} WHERE k = {1} AND x = 1"),
    (3, "UPDATE ks.t SET v = {0}, w = {1} WHERE k = {2} IF EXISTS"),
    (4, "BEGIN BATCH INSERT INTO ks.t (a, b) VALUES ({0}, {1}); UPDATE ks.t SET v = {2} WHERE k = {3}; APPLY BATCH"),
    (1, "DELETE FROM ks.t WHERE a = {0} AND x = 1 /* end */"),
    (2, "SELECT * FROM ks.t WHERE a = {0} AND b > {1} -- tail"),
]
IN_TEMPLATE = "SELECT * FROM ks.t WHERE a IN {0} AND x = 1"


def type_name(S, t):
    if t[0] in ("hlist", "hset"):
        return "%s<%s>" % ("list" if t[0] == "hlist" else "set", " | ".join("%s as %s" % (type_name(S, sp[1]), sp[2]) for sp in t[1]))
    if t[0] in ("list", "set"):
        return "%s<%s>" % (t[0], type_name(S, t[1]))
    if t[0] == "map":
        return "map<%s, %s>" % (type_name(S, t[1]), type_name(S, t[2]))
    if t[0] == "inlist":
        return "in-list<%s>" % S.cql_name(t[1])
    return "null" if t[0] == "null" else S.cql_name(t)


def key_of(G, S, t, v):
    if t[0] == "null":
        return None
    if t[0] == "inlist":
        return tuple(G.canon_key(t[1], e) for e in v)
    try:
        return G.canon_key(t, v)
    except Exception:
        return repr(v)


def one_case(ctx, judge, rng, G, S, enc_mod):
    n, tmpl = rng.choice(TEMPLATES)
    named = rng.random() < 0.5
    st = GenState(want_suspect=rng.random() < 0.12)
    in_case = rng.random() < 0.06
    plist, canon = [], []
    if in_case:
        n, tmpl = 1, IN_TEMPLATE
    names = ["p%d" % i for i in range(n)]
    if named and rng.random() < 0.3:
        names = rng.sample(["a", "x", "s", "n0", "value", "k_1", "P", "select", "p 1", "p-1"], n)
    for i in range(n):
        r = rng.random()
        if in_case:
            et = (rng.choice(KEYABLE),)
            vals = [gen_canonical(rng, G, et) for _ in range(rng.randint(1, 4))]
            t = ("inlist", et)
            obj = enc_mod.ValueSequence(to_py(rng, et, e, st, False) for e in vals)
            canon.append((t, vals))
        elif r < 0.05:
            t, obj = ("null",), None
            canon.append((t, None))
        else:
            t = gen_type(rng, rng.choice([0, 0, 0, 1, 1, 2, 3]))
            v = gen_canonical(rng, G, t)
            obj = to_py(rng, t, v, st, False)
            canon.append((t, v))
        plist.append((names[i] if named else i, t, obj))
    if named:
        template = tmpl.format(*["%%(%s)s" % nm for nm in names])
        params = dict((nm, o) for (nm, _, o) in plist)
        if rng.random() < 0.3:
            params = dict(reversed(list(params.items())))
    else:
        template = tmpl.format(*["%s"] * n)
        params = tuple(o for _, _, o in plist) if rng.random() < 0.7 else [o for _, _, o in plist]
    fixed = [(nm, ("text",) if t[0] == "null" else t, o) for nm, t, o in plist]
    info = {"names": [type_name(S, t) for t, _ in canon]}
    nested = any(t[0] in ("list", "set", "map", "inlist", "hlist", "hset") for t, _ in canon)
    ctx.case(repr((tmpl, named, [(type_name(S, t), key_of(G, S, t, v), type(o).__name__) for (t, v), (_, _, o) in zip(canon, plist)])),
             nontrivial=True)
    ctx.count("named_statements" if named else "positional_statements")
    if nested:
        ctx.count("statements_with_nested_parameters")
    if st.suspects:
        ctx.count("statements_with_a_subclass_variant")
    judge.statement(template, params, fixed, st.suspects, info)
    return template, params


def fixed_cases(ctx, judge, enc_mod):
    """Hand-picked statements: the break-out strings through every exact string path, and one minimal case per suspected defect."""
    T = "SELECT * FROM ks.t WHERE a = %s AND x = 1"
    for s in INJECTION_TEXTS:
        ctx.case(("fixed-text", s))
        judge.statement(T, (s,), [(0, ("text",), s)], [], {"names": ["text"]})
        judge.statement("INSERT INTO ks.t (a, b) VALUES (%(a)s, %(b)s)", {"a": s, "b": [s, s]},
                        [("a", ("text",), s), ("b", ("list", ("text",)), [s, s])], [], {"names": ["text", "list<text>"]})
        judge.statement(T, ({s: s},), [(0, ("map", ("text",), ("text",)), {s: s})], [], {"names": ["map<text, text>"]})
    minimal = [
        (("text",), StrSub("x' OR 1=1 --"), "str"),
        (("blob",), BytesSub(b"ab"), "bytes"),
        (("timestamp",), DateTimeSub(2020, 1, 2, 3, 4, 5), "temporal"),
        (("date",), DateSub(2020, 1, 2), "temporal"),
        (("time",), TimeSub(1, 2, 3), "temporal"),
        (("list", ("int",)), Pair(1, 2), "collection"),
        (("set", ("int",)), SetSub([1]), "collection"),
        (("double",), FloatSub("inf"), "floatinf"),
    ]
    for t, obj, kind in minimal:
        ctx.case(("fixed-subclass", repr(obj)))
        judge.statement(T, (obj,), [(0, t, obj)], [(kind, obj)], {"names": [kind]})
    for d in ["0.1234567890123456789012345678901234", "1E+400", "9007199254740993", "0.1", "5", "1.10"]:
        dv = decimal.Decimal(d)
        ctx.case(("fixed-decimal", d))
        judge.statement(T, (dv,), [(0, ("decimal",), dv)], [], {"names": ["decimal"]})


def run(ctx):
    from vlib import shim
    shim.import_cluster()
    import cassandra.encoder as enc_mod
    from cassandra.query import bind_params
    from props import _cqlgen as G
    from spec import cqlcodec as S
    from spec import cqllex as L

    L._selftest()
    S.selfcheck()
    ctx.rule = ("a case = one statement template (SELECT/INSERT/UPDATE/DELETE/BATCH/IN with literal neighbours) + 1-4 parameters, positional "
                "(tuple or list) or named (dict, odd names, shuffled order); each parameter = (target CQL type tree to depth 3, value, Python "
                "rendering): exact mapped types (str, bytes/bytearray/memoryview, int, bool, float, Decimal, UUID, datetime naive/aware, date, "
                "time, util.Date/Time, ipaddress, list/tuple, set/frozenset/sortedset, dict/OrderedDict/OrderedMap, ValueSequence, None) and "
                "subclasses (str, bytes, bytearray, int, float, Decimal, UUID, datetime, date, time, list, tuple, namedtuple, set, frozenset, "
                "dict, defaultdict); texts from a break-out pool (quotes, comment openers, $$, %s, NUL, unicode quotes); numbers at the "
                "extremes; at most one subclass of a kind suspected to fall through per statement; distinct by (template, style, types, values)")
    ctx.assume("decimal literals are compared by numeric value: the encoder's literal may carry a different scale (1.10 -> 1.1) which Cassandra "
               "stores with different bytes but compares as the same decimal; only a different number is a violation")
    ctx.assume("datetime.date values are generated for 4-digit years only (how Cassandra reads '999-01-02' or '1-01-02', which strftime produces "
               "for earlier years, is not established); earlier/later days go through util.Date (integer literal)")
    ctx.assume("time-of-day values with tzinfo, Decimal NaN/Infinity, lone surrogates, integers beyond Python's str() digit limit, None inside "
               "collections (rejected by Cassandra in literals), generators, geometry types and float targets narrower than double are not generated")
    ctx.assume("float / decimal literals with an exponent (1e+22, 5e-324, 1E-7) are read by Cassandra's FLOAT token rule (digits, optional "
               "fraction, [eE][+-]digits) and converted with java.lang.Double.valueOf / new BigDecimal(text), which accept exactly these forms")
    ctx.assume("a NaN parameter must read back as NaN (payload bits are not compared); set / map literals are compared without regard to order")
    ctx.assume("a tuple parameter is judged against the list literal the plain Encoder documents for it (mapping[tuple] -> list collection)")
    rng = ctx.rng
    enc = enc_mod.Encoder()
    judge = Judge(ctx, L, S, G, enc, bind_params)

    if ctx.worker in (None, 0):
        fixed_cases(ctx, judge, enc_mod)
    n = ctx.scale(30000, 1200000)
    budget = 35 if ctx.quick else 270
    for i in range(n):
        if i % 256 == 0 and ctx.time_left(budget) < 0:
            ctx.note("stopped by time budget after %d statements" % i)
            break
        template, params = one_case(ctx, judge, rng, G, S, enc_mod)
        if len(ctx.samples) < 5 and i % 997 == 3:
            try:
                ctx.sample({"template": template, "parameters": repr(params)[:300], "statement": bind_params(template, params, enc)[:300]})
            except Exception:
                pass
    ctx.floor_distinct = 8000 if ctx.quick else 200000
    ctx.floor_counters = {"statements_bound": 8000, "statements_with_template_tokens_in_place": 6000, "placeholders_read_as_one_term": 10000,
                          "leaf_literals_compared_with_prepared_bytes": 20000, "statements_with_nested_parameters": 2000,
                          "named_statements": 2000, "positional_statements": 2000, "statements_fully_agreeing": 5000,
                          "decimal_literals_judged": 500, "heterogeneous_collections_judged": 2000}
