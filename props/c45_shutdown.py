"""C45 - shutdown releases every connection and stops accepting work.

Monitor (fault enumeration): a scripted user thread drives the real Cluster/Session stack in the
deterministic world through a history - connect, requests in flight, a connection failure with a
node that is away for a while and a reconnector bringing it back, a pool replacing its connection
(handshake answer of the replacement kept back: "connected at the node, not yet returned to the
pool"), a control connection failure and reconnection, a connection trashed after the orphan
threshold - and Cluster.shutdown() / Session.shutdown() is injected by the main thread at EVERY
scheduling step k = 0..N of that history (the history is replayed from the same seed up to step k).

Oracle at quiescence (virtual time advanced generously): every connection ever created is closed
(or was refused); nothing opens a connection after the shutdown call returned; connections whose
constructor ran while shutdown was in progress end closed; a request issued after shutdown raises
or fails, it is not left pending.
"""
import random

PROPERTY = "C45"
LEVEL = "fault_enumeration"
ENGINE = "sim"
TECHNIQUE = "runtime monitor in a deterministic world: shutdown injected at every scheduling step of replayed histories, connection registry as ground truth"
LEVEL_TEXT = ("For each history variant (what happens x protocol v4/v2 x Cluster.shutdown/Session.shutdown) the shutdown call is injected at "
              "every scheduling step of the history (all k in 0..N; the evidence states how many variants were enumerated completely and "
              "the number of steps covered); the set of open connections, connections opened after the call returned and the fate of a "
              "request issued afterwards are judged at quiescence. Fault enumeration over the step index, exploration over schedules of the "
              "shutdown call itself (seeded).")
LEVEL_NOTE = ("Trusted base: sim/world.py (switches only at synchronisation points), sim/node.py. A step is one scheduling decision of the "
              "world; the prefix up to step k is identical for all k (same seed), the interleaving of the shutdown call with the driver's "
              "threads after step k is chosen by the seeded chooser (random preemption at odd k+seed, none at even). cluster.scheduler is the world's SimScheduler (the driver's own "
              "_Scheduler thread is not exercised). The connection class lowers max_in_flight in the 'trash' variant only.")
QUICK_WORKERS = 4
WORKERS = 14

FLAVOURS = ('reconnect', 'replace', 'control', 'requests', 'trash', 'two_sessions', 'keyspace_sync', 'control_fail', 'trash_convict', 'trash_lenient', 'reconnect_cancel', 'control_sched', 'requests3')
INF = 10 ** 9

K_TRASH = "trashed-connection-never-closed-by-hostconnection-shutdown"
K_INSTALL = "replacement-connection-installed-into-shut-down-pool"
K_POOL_LATE = "pool-finished-after-session-shutdown-is-installed-open"
K_POOL_QUEUED = "pool-creation-queued-before-session-shutdown-still-opens-a-connection-afterwards"
K_CC_QUEUED = "control-reconnect-queued-before-shutdown-still-makes-its-first-attempt"
K_CC_LATE = "control-connection-installed-by-reconnect-after-shutdown"
K_CONNECT_RACE = "session-created-while-cluster-shuts-down-is-never-shut-down"


class InjectChooser(object):
    """Seeded random choices; counts scheduling steps and hands the baton to main at step k."""
    def __init__(self, rng, k, p_preempt):
        from sim import world as W
        self.inner = W.RandomChooser(rng, p_time=0.0, p_preempt=p_preempt)
        self.k = k
        self.n = 0

    def choose(self, kind, options):
        if kind == 'run':
            self.n += 1
            if self.k < INF and 'main' in options:
                return options.index('main')
        return self.inner.choose(kind, options)

    def flip(self, kind, p=None):
        if kind == 'preempt':
            # every potential preemption point (lock acquisition, push, event set, submit) is a step as well
            self.n += 1
            if self.k < INF and self.n >= self.k:
                return True
        return self.inner.flip(kind, p)


def variants():
    out = []
    for fl in FLAVOURS:
        for proto in (4, 2):
            for kind in ('cluster', 'session'):
                if fl.startswith('trash') and proto == 2:
                    continue            # the trash of HostConnectionPool is filled by the size-down logic, a different path (not driven here)
                out.append((fl, proto, kind))
    return out


def run_history(seed, variant, k):
    """One history of `variant` with the shutdown injected at step k (k=INF: run to the end, returns the number of steps)."""
    from sim.env import SimEnv
    from sim import world as W
    from sim.scen import uid_query, uid_of, ECHO_COLS
    from cassandra.cluster import ExecutionProfile, EXEC_PROFILE_DEFAULT
    from cassandra.policies import RoundRobinPolicy, ConvictionPolicy, ConstantReconnectionPolicy, HostDistance, FallthroughRetryPolicy

    flavour, proto, kind = variant
    rng = random.Random(seed)
    random.seed(seed)
    ch = InjectChooser(random.Random(seed * 13 + 5), k, rng.choice([0.0, 0.05, 0.15]))
    addrs = ['127.0.0.1', '127.0.0.2'] + (['127.0.0.3'] if flavour in ('control_fail', 'requests3') else [])
    env = SimEnv(ch, addresses=addrs, max_virtual_time=600.0)
    w = env.world
    if flavour.startswith('trash'):
        env.conn_class.max_in_flight = 8
        env.conn_class.orphaned_threshold = 3
    plan = {}                      # uid -> action
    ctrl_fail = {}                 # {'from_conn': id, 'count': n, 'delay': s}: system.local on new control connections answered with a late server error
    hold_use = {}                  # address -> {'from_conn': id, 'delays': [(keyspace, delay)]}  answers to USE on new pool connections kept back
    hold_handshake = {}            # address -> [count, delay, op]   keep the answer to OPTIONS/STARTUP back for `delay` seconds
    convict = {'127.0.0.1': True, '127.0.0.2': True, '127.0.0.3': True}
    S = {'cluster': None, 'session': None, 'session2': None, 'stop': False, 'done': False, 'log': [], 'futures': []}

    def timed_release(frame_holder, delay):
        def fire():
            for h in list(env.net.held):
                if h.req is frame_holder and not h.done:
                    h.release()
        w.add_timer(delay, fire, label='harness-release')

    def behaviour(node, cstate, req):
        a = node.address
        hh = hold_handshake.get(a)
        if hh and hh[0] > 0 and req['op'] == hh[2] and (len(hh) < 4 or cstate.conn.sim_creator == hh[3]):
            hh[0] -= 1
            r = node.default_reaction(cstate, req)
            timed_release(req, hh[1])
            return ('hold', r[1])
        if req['op'] != 'QUERY':
            return None
        uid = uid_of(req['query'])
        if uid is None:
            cf = ctrl_fail
            if cf.get('count', 0) > 0 and cstate.conn.sim_id >= cf['from_conn'] and 'system.local' in req['query'].lower():      # (only control connections ask system.local; a scheduled control reconnection is tagged 'reconnector')
                # the control connection that is being set up gets a late server error for its system.local query: the attempt fails, not with a
                # connection error, after `delay`
                cf['count'] -= 1
                S['control_queries_failed_late'] = S.get('control_queries_failed_late', 0) + 1
                if cf.get('mode') == 'late':
                    r = node.default_reaction(cstate, req)      # the ordinary answer, only late: the attempt is in flight for `delay`
                else:
                    r = node.error(cstate, req, 'server', 'scripted server error')
                timed_release(req, cf['delay'])
                return ('hold', r[1])
            hu = hold_use.get(a)
            if hu and cstate.conn.sim_creator == 'pool-init' and cstate.conn.sim_id >= hu['from_conn']:
                for ks, delay in hu['delays']:
                    if ('"%s"' % ks) in req['query'] and req['query'].lstrip().upper().startswith('USE'):
                        # the per-connection USE of a pool that is being built is answered late
                        r = node.default_reaction(cstate, req)
                        timed_release(req, delay)
                        S['use_held'] = S.get('use_held', 0) + 1
                        return ('hold', r[1])
            return None
        act = plan.get(uid, 'rows')
        r = node.rows(cstate, req, ECHO_COLS, [[uid, a]], 'ks', 't')
        if act == 'rows':
            return r
        if act == 'silent':
            return ('silence',)
        if act == 'reset':
            return ('reset',)
        if isinstance(act, tuple) and act[0] == 'hold':
            timed_release(req, act[1])
            return ('hold', r[1])
        return r

    for nd in env.net.nodes.values():
        nd.behaviour = behaviour
    n1, n2 = env.net.nodes['127.0.0.1'], env.net.nodes['127.0.0.2']

    class PerHostConviction(ConvictionPolicy):
        def add_failure(self, connection_exc):
            return convict.get(self.host.endpoint.address, True)

        def reset(self):
            pass

    uids = iter(range(1, 10000))
    running = {}                   # thread ident -> record of the executor task it is running
    task_seq = iter(range(1, 10 ** 9))

    def watch_executor(cluster):
        ex = cluster.executor
        orig = ex.submit

        def submit(fn, *a, **kw):
            rec = {'seq': next(task_seq), 't': w.now, 'fn': getattr(fn, '__qualname__', None) or getattr(getattr(fn, 'func', None), '__qualname__', repr(fn)[:60]),
                   'after_call': S.get('called', False), 'after_return': S.get('returned', False)}

            def run(*a2, **kw2):
                import threading
                tid = threading.get_ident()
                prev = running.get(tid)
                running[tid] = rec
                try:
                    return fn(*a2, **kw2)
                finally:
                    running[tid] = prev
            return orig(run, *a, **kw)
        ex.submit = submit

    orig_register = env.net.register_conn

    def register_conn(conn, creator):
        import threading
        r = orig_register(conn, creator)
        conn.sim_task = running.get(threading.get_ident())
        return r
    env.net.register_conn = register_conn

    def sleep(dt):
        w.block(None, w.now + dt, 'user-sleep')

    def request(session, host=None, act='rows', timeout=2.0):
        uid = next(uids)
        plan[uid] = act
        try:
            f = session.execute_async(uid_query(uid), timeout=timeout, host=host)
            S['futures'].append(f)
        except Exception as e:
            S['log'].append(('request-raised', type(e).__name__))

    def user():
        try:
            prof = ExecutionProfile(load_balancing_policy=RoundRobinPolicy(), request_timeout=4.0, retry_policy=FallthroughRetryPolicy())
            cluster = env.cluster(contact_points=['127.0.0.1'], executor_threads=3, protocol_version=proto,
                                  execution_profiles={EXEC_PROFILE_DEFAULT: prof}, conviction_policy_factory=PerHostConviction,
                                  reconnection_policy=ConstantReconnectionPolicy(0.5, max_attempts=None), connect_timeout=3.0,
                                  status_event_refresh_window=0, topology_event_refresh_window=0)
            if proto < 3:
                cluster.set_core_connections_per_host(HostDistance.LOCAL, 1)
                cluster.set_max_connections_per_host(HostDistance.LOCAL, 2)
            watch_executor(cluster)
            cc_ = cluster.control_connection
            orig_cc_shutdown = cc_.shutdown

            def cc_shutdown():
                r = orig_cc_shutdown()
                # which connections had finished their handshake when the control connection was marked shut down
                S['connected_when_cc_shut'] = set(c.sim_id for c in env.net.conns if c.connected_event.is_set())
                S['conns_when_cc_shut'] = len(env.net.conns)
                return r
            cc_.shutdown = cc_shutdown
            S['cluster'] = cluster
            if S['stop']:
                return
            if flavour == 'keyspace_sync':
                session = cluster.connect('ks1', wait_for_all_pools=True)
            else:
                session = cluster.connect(wait_for_all_pools=(flavour != 'requests'))
            S['session'] = session
            S['connect_steps'] = ch.n
            if S['stop']:
                return
            hosts = dict((h.endpoint.address, h) for h in cluster.metadata.all_hosts())
            h2 = hosts.get('127.0.0.2')
            if flavour == 'requests3':
                # three hosts, requests in flight on every pool (answered late or never): closing one pool's connection fails its requests while the
                # other pools are still to be shut down
                for a_ in ('127.0.0.1', '127.0.0.2', '127.0.0.3'):
                    request(session, host=hosts.get(a_), act=('hold', 0.4))
                    request(session, host=hosts.get(a_), act='silent', timeout=3.0)
                    if S['stop']:
                        return
                sleep(0.2)
                if S['stop']:
                    return
                for a_ in ('127.0.0.3', '127.0.0.1'):
                    request(session, host=hosts.get(a_), act=('hold', 0.3))
                sleep(1.0)
            elif flavour == 'requests':
                for i in range(3):
                    request(session, act=('hold', 0.3 + 0.1 * i))
                    if S['stop']:
                        return
                request(session, act='silent', timeout=0.6)
                sleep(1.0)
            elif flavour == 'two_sessions':
                S['session2'] = cluster.connect(wait_for_all_pools=True)
                if S['stop']:
                    return
                request(S['session2'], act=('hold', 0.2))
                request(session, act=('hold', 0.3))
                sleep(0.6)
            elif flavour == 'reconnect':
                # node 2 loses the connection with a request in flight and refuses connections for a while:
                # host down, reconnector attempt at +0.5 refused, attempt at +1.0 succeeds, on_up builds a new pool
                n2.up = False
                request(session, host=h2, act='reset')
                if S['stop']:
                    return
                sleep(0.7)
                n2.up = True
                hold_handshake['127.0.0.2'] = [1, 0.2, 'STARTUP']
                if S['stop']:
                    return
                sleep(1.2)
                if S['stop']:
                    return
                request(session, host=h2)
                sleep(0.3)
            elif flavour == 'replace':
                # lenient conviction: the pool keeps the host up and replaces the connection; the replacement's handshake answer is late
                convict['127.0.0.2'] = False
                hold_handshake['127.0.0.2'] = [1, 0.5, 'OPTIONS']
                request(session, host=h2, act='reset')
                if S['stop']:
                    return
                sleep(1.0)
                if S['stop']:
                    return
                request(session, host=h2)
                sleep(0.3)
            elif flavour == 'control':
                # node 1 (control connection host) goes away: control connection and pool connection reset, the host is marked down,
                # the control connection reconnects to node 2 and the handshake answer of that new connection is late
                cc = cluster.control_connection._connection
                hold_handshake['127.0.0.2'] = [1, 0.4, 'STARTUP']
                n1.up = False
                if cc is not None:
                    env.net.server_close(cc, reset=True)
                request(session, host=hosts.get('127.0.0.1'), act='reset')
                if S['stop']:
                    return
                sleep(0.2)
                if S['stop']:
                    return
                request(session)
                sleep(0.6)
                if S['stop']:
                    return
                n1.up = True
                sleep(0.8)
            elif flavour == 'reconnect_cancel':
                # node 2's pool connection is reset (host down); the reconnector's probe connects but its handshake answer is late; meanwhile the
                # server announces the node as UP: on_up cancels the reconnection handler and builds the pool; the probe then completes for a
                # handler that has been cancelled
                from sim.node import ip_bytes
                from spec import frames as F_
                hold_handshake['127.0.0.2'] = [1, 0.6, 'OPTIONS', 'reconnector']
                request(session, host=h2, act='reset')
                if S['stop']:
                    return
                sleep(0.7)
                if S['stop']:
                    return
                for nd_ in env.net.nodes.values():
                    nd_.push_event(F_.body_event_status('UP', ip_bytes('127.0.0.2'), 9042))
                sleep(0.8)
                if S['stop']:
                    return
                request(session, host=h2)
                sleep(0.3)
            elif flavour == 'control_sched':
                # both nodes go away for a moment: the control connection's immediate reconnect finds no host and a _ControlReconnectionHandler is
                # scheduled; when its attempt runs the nodes are back and the new control connection's system.local answer is late, so the scheduled
                # attempt is in flight for a while
                cc = cluster.control_connection._connection
                n1.up = False
                n2.up = False
                if cc is not None:
                    env.net.server_close(cc, reset=True)
                request(session, host=hosts.get('127.0.0.1'), act='reset')
                request(session, host=h2, act='reset')
                if S['stop']:
                    return
                sleep(0.2)
                n1.up = True
                n2.up = True
                ctrl_fail.update({'from_conn': len(env.net.conns), 'count': 1, 'delay': 0.5, 'mode': 'late'})
                if S['stop']:
                    return
                sleep(1.0)
                if S['stop']:
                    return
                request(session)
                sleep(0.8)
            elif flavour == 'control_fail':
                # three nodes: node 1 (control connection host) goes away; the control connection reconnects over the other two hosts and its first
                # attempt fails late with a server error on system.local (not a connection error), the next host then succeeds
                cc = cluster.control_connection._connection
                ctrl_fail.update({'from_conn': len(env.net.conns), 'count': 1, 'delay': 0.4})
                n1.up = False
                if cc is not None:
                    env.net.server_close(cc, reset=True)
                request(session, host=hosts.get('127.0.0.1'), act='reset')
                if S['stop']:
                    return
                sleep(0.2)
                if S['stop']:
                    return
                request(session)
                sleep(0.9)
                if S['stop']:
                    return
                n1.up = True
                sleep(0.8)
            elif flavour == 'keyspace_sync':
                # node 2 goes away and is reconnected; while on_up builds the new pool (its USE "ks1" is answered late) the session keyspace is
                # switched on the other pool, so the pool task has to re-sync the new pool (USE "ks2", answered late as well) before installing it
                n2.up = False
                request(session, host=h2, act='reset')
                if S['stop']:
                    return
                sleep(0.7)
                n2.up = True
                hold_use['127.0.0.2'] = {'from_conn': len(env.net.conns), 'delays': [('ks1', 0.3), ('ks2', 0.4)]}
                if S['stop']:
                    return
                sleep(0.4)                 # reconnector attempt at +1.0 has succeeded, on_up's pool waits for USE "ks1"
                if S['stop']:
                    return
                try:
                    session.set_keyspace('ks2')
                except Exception as e:
                    S['log'].append(('set_keyspace-raised', type(e).__name__))
                if S['stop']:
                    return
                sleep(1.0)
                if S['stop']:
                    return
                request(session, host=h2)
                sleep(0.3)
            elif flavour.startswith('trash'):
                # three requests never answered time out on the client: orphan threshold reached, the next borrow replaces the connection
                # while two more requests (one answered late, one never) are still in flight on the old one -> the old connection goes to the pool's trash
                for i in range(3):
                    request(session, host=h2, act='silent', timeout=0.3)
                request(session, host=h2, act=('hold', 3.0), timeout=6.0)
                request(session, host=h2, act='silent', timeout=500.0)      # a live request the node never answers: nothing but shutdown will end it
                sleep(0.5)
                if S['stop']:
                    return
                request(session, host=h2)
                sleep(0.5)
                if S['stop']:
                    return
                request(session, host=h2)
                sleep(0.5)
                if flavour in ('trash_convict', 'trash_lenient'):
                    # the replacement connection itself is then lost with a request in flight while the old one still sits in the trash with its live
                    # request: the host is convicted (the pool shuts itself down, reconnector, new pool) or, with a lenient conviction policy, the
                    # pool has no current connection while the next replacement waits for its handshake answer
                    if S['stop']:
                        return
                    if flavour == 'trash_lenient':
                        convict['127.0.0.2'] = False
                        hold_handshake['127.0.0.2'] = [1, 0.6, 'OPTIONS', 'pool-replace']
                    request(session, host=h2, act='reset')
                    sleep(1.0)
                    if S['stop']:
                        return
                    request(session, host=h2)
                    sleep(0.3)
        except W.WorldKilled:
            raise
        except Exception as e:
            S['log'].append(('user-raised', type(e).__name__, str(e)[:120]))
        finally:
            S['done'] = True

    R = {'steps': None, 'viol': [], 'trivial': False, 'info': {}}
    with env:
        env.world.spawn(user, name='user', kind='driver')
        try:
            w.block(lambda: ch.n >= ch.k or S['done'], None, 'inject')
        except W.WorldHang as e:
            R['harness'] = 'history hangs before the injection point: %s' % e
            return R, env
        R['steps'] = ch.n
        ch.k = INF
        if k < INF and (k + seed) % 2 == 0:
            # every other step: the shutdown call itself runs without being preempted (the thread it interrupted stays where it was until
            # shutdown blocks or returns); the other steps keep the seeded random interleaving of the shutdown call with the driver's threads
            ch.inner.p_preempt = 0.0
        elif k < INF:
            ch.inner.p_preempt = max(ch.inner.p_preempt, 0.25)      # the other steps: the shutdown call is interleaved with the driver's threads for real
        if k >= INF:
            # measuring run: the history ran to its end
            with w.inspect():
                R['info']['conns'] = len(env.net.conns)
                R['info']['creators'] = sorted(set(c.sim_creator for c in env.net.conns))
                R['info']['log'] = list(S['log'])
                R['info']['connect_steps'] = S.get('connect_steps', 0)
                R['info']['use_held'] = S.get('use_held', 0)
                R['info']['control_queries_failed_late'] = S.get('control_queries_failed_late', 0)
            if S['cluster'] is not None:
                S['cluster'].shutdown()
            w.settle(until=w.now + 30.0)
            return R, env
        S['stop'] = True
        cluster, session = S['cluster'], S['session']
        if cluster is None:
            R['trivial'] = True
            return R, env
        target = 'session' if (kind == 'session' and session is not None) else 'cluster'
        R['info']['target'] = target
        with w.inspect():
            pre_conns = len(env.net.conns)
            pre_connected = dict((c.sim_id, bool(c.connected_event.is_set())) for c in env.net.conns)
            pre_trash = set()
            trash_at_pool_shutdown = set()
            pre_pool_conns = set()
            pools_pre = []
            try:
                sessions_at_call = list(cluster.sessions)
            except Exception:
                sessions_at_call = []
            for s_ in [x for x in (S['session'], S['session2']) if x is not None]:
                for p_ in list(s_._pools.values()):
                    pools_pre.append(p_)
                    for c in list(getattr(p_, '_trash', ())):
                        pre_trash.add(c.sim_id)
                    for c in list(p_.get_connections()):
                        pre_pool_conns.add(c.sim_id)

                    if isinstance(getattr(p_, '_trash', None), set):
                        # observe what goes through the pool's trash from now on (shutdown swaps the set for a fresh one)
                        class LoggedSet(set):
                            def add(self_, x):
                                trash_at_pool_shutdown.add(x.sim_id)
                                set.add(self_, x)
                        for c in list(p_._trash):
                            trash_at_pool_shutdown.add(c.sim_id)
                        p_._trash = LoggedSet(p_._trash)
        t_call = w.now
        S['called'] = True
        try:
            if target == 'session':
                session.shutdown()
            else:
                cluster.shutdown()
        except W.WorldHang as e:
            R['viol'].append(('shutdown-never-returns', "%s.shutdown() injected at step %d never returns: %s" % (target, k, e), {}))
            return R, env
        except (W.WorldLimit, W.WorldKilled):
            raise
        except Exception as e:
            # shutdown must not raise; what it left behind is judged as usual below
            import traceback
            R['viol'].append(('shutdown-raised', "%s.shutdown() injected at step %d raised %s: %s" % (target, k, type(e).__name__, str(e)[:160]),
                              {'exception': type(e).__name__, 'where': [f.name for f in traceback.extract_tb(e.__traceback__)][-3:]}))
        S['returned'] = True
        with w.inspect():
            ret_conns = len(env.net.conns)
            t_ret = w.now
        # a request after shutdown
        probe = None
        probe_raised = None
        if session is not None:
            uid = next(uids)
            try:
                probe = session.execute_async(uid_query(uid), timeout=None)
            except Exception as e:
                probe_raised = e
        w.settle(until=w.now + 60.0)
        # ---------------- oracle
        with w.inspect():
            all_pools = []
            for s_ in [x for x in (S['session'], S['session2']) if x is not None]:
                if target == 'session' and s_ is not session:
                    continue
                for p_ in list(s_._pools.values()):
                    if p_ not in all_pools:
                        all_pools.append(p_)
            for p_ in pools_pre:
                if p_ not in all_pools and (target == 'cluster' or getattr(p_, '_session', None) is not None):
                    try:
                        owner_ok = target == 'cluster' or p_._session.is_shutdown
                    except ReferenceError:
                        owner_ok = False
                    if owner_ok:
                        all_pools.append(p_)
            cc = cluster.control_connection

            def where(conn):
                for p_ in all_pools:
                    if conn in list(p_.get_connections()):
                        return ('pool', p_)
                    if conn in list(getattr(p_, '_trash', ())):
                        return ('trash', p_)
                if getattr(cc, '_connection', None) is conn:
                    return ('control', None)
                return (None, None)

            def owner(pool):
                for s_ in (S['session'], S['session2']):
                    if s_ is not None and pool is not None and pool in list(s_._pools.values()):
                        return s_
                return None

            def owner_shutdown(pool):
                o = owner(pool)
                return None if o is None else bool(o.is_shutdown)

            def owner_registered(pool):
                o = owner(pool)
                return None if o is None else any(o is x for x in sessions_at_call)

            def task_info(conn):
                t_ = getattr(conn, 'sim_task', None)
                return None if t_ is None else {'fn': t_['fn'], 'submitted_after_call': t_['after_call'], 'submitted_after_return': t_['after_return']}

            def judged(conn):
                """Does the shutdown that was called have to release this connection?"""
                if target == 'cluster':
                    return True
                # Session.shutdown(): only the connections of that session's pools
                if conn.sim_creator in ('control', 'reconnector') or conn.sim_creator.startswith('other'):
                    return False
                if S['session2'] is not None:
                    # two sessions share the nodes: attribute by pool membership / request history is not possible for a connection
                    # that never entered a pool - judge only those found in the shut-down session's pools
                    return where(conn)[0] == 'pool'
                return True

            n_open = 0
            for conn in env.net.conns:
                if conn.is_closed:
                    continue
                if not judged(conn):
                    continue
                n_open += 1
                wh, pool = where(conn)
                info = {'conn': conn.sim_id, 'creator': conn.sim_creator, 'created_at': conn.sim_created_at, 'existed_at_call': conn.sim_id < pre_conns,
                        'existed_at_return': conn.sim_id < ret_conns, 'connected_at_call': pre_connected.get(conn.sim_id, False),
                        'was_in_trash_at_call': conn.sim_id in pre_trash, 'went_through_pool_trash': conn.sim_id in trash_at_pool_shutdown, 'where': wh,
                        'pool': type(pool).__name__ if pool is not None else None, 'pool_shutdown': bool(pool.is_shutdown) if pool is not None else None,
                        'orphan_threshold_reached': bool(getattr(conn, 'orphaned_threshold_reached', False)), 'target': target, 'proto': proto,
                        'connected_when_control_connection_shut_down': conn.sim_id in S.get('connected_when_cc_shut', ()),
                        'task': task_info(conn), 'pool_installed_at_call': pool is not None and any(pool is x for x in pools_pre), 'conn_in_a_pool_at_call': conn.sim_id in pre_pool_conns,
                        'owner_session_shutdown': owner_shutdown(pool), 'owner_session_registered_at_call': owner_registered(pool)}
                R['viol'].append(('open', "connection %d to %s (creator %s, opened at t=%.3f) is still open %.0f s after %s.shutdown() returned (injected at step %d, t=%.3f)" % (
                    conn.sim_id, conn.endpoint, conn.sim_creator, conn.sim_created_at, w.now - t_ret, target, k, t_call), info))
            for conn in env.net.conns[ret_conns:]:
                if not judged(conn) and not (target == 'session' and conn.sim_creator.startswith('pool') and S['session2'] is None):
                    continue
                wh, pool = where(conn)
                R['viol'].append(('late', "connection %d to %s (creator %s) was opened at t=%.3f, after %s.shutdown() had returned at t=%.3f" % (
                    conn.sim_id, conn.endpoint, conn.sim_creator, conn.sim_created_at, target, t_ret),
                    {'conn': conn.sim_id, 'creator': conn.sim_creator, 'target': target, 'closed_in_the_end': bool(conn.is_closed), 'task': task_info(conn),
                     'where': wh, 'pool_shutdown': bool(pool.is_shutdown) if pool is not None else None, 'owner_session_shutdown': owner_shutdown(pool),
                     'pool_installed_at_call': pool is not None and any(pool is x for x in pools_pre)}))
            if target == 'cluster' and S.get('conns_when_cc_shut') is not None:
                # once the control connection has been shut down no further control connection attempt is started
                for conn in env.net.conns[S['conns_when_cc_shut']:]:
                    if conn.sim_creator != 'control':
                        continue
                    tk = getattr(conn, 'sim_task', None)
                    earlier = tk is not None and any(c2.sim_creator == 'control' and getattr(c2, 'sim_task', None) is tk and c2.sim_id < conn.sim_id for c2 in env.net.conns)
                    R['viol'].append(('cc_late', "control connection attempt %d to %s was started at t=%.3f, after ControlConnection.shutdown() had completed (Cluster.shutdown() called at t=%.3f)" % (
                        conn.sim_id, conn.endpoint, conn.sim_created_at, t_call),
                        {'conn': conn.sim_id, 'task': task_info(conn), 'same_task_had_made_an_earlier_attempt': earlier, 'closed_in_the_end': bool(conn.is_closed),
                         'opened_after_shutdown_returned': conn.sim_id >= ret_conns}))
            if probe is not None and probe._event.is_set() and probe._final_exception is None:
                R['viol'].append(('accepted', "a request issued after %s.shutdown() returned was executed successfully" % target, {'target': target}))
            if probe is not None and not probe._event.is_set():
                R['viol'].append(('pending', "a request issued after %s.shutdown() returned is still pending 60 s later (timeout=None)" % target, {'target': target}))
            R['info'].update({'open': n_open, 'conns': len(env.net.conns), 'during': ret_conns - pre_conns, 'after': len(env.net.conns) - ret_conns,
                              'probe': 'raised' if probe_raised is not None else ('failed' if probe is not None and probe._final_exception is not None else
                                                                                  ('none' if probe is None else ('ok' if probe._event.is_set() else 'pending'))),
                              'user_blocked': not S['done'], 'log': list(S['log'])[:6]})
        if target == 'session':
            cluster.shutdown()
            w.settle(until=w.now + 30.0)
            with w.inspect():
                left = [c.sim_id for c in env.net.conns if not c.is_closed]
                R['info']['open_after_cluster_shutdown'] = left
    return R, env


def classify(v, R=None):
    kind, what, info = v
    if kind == 'open':
        cr = info['creator']
        if info['where'] is None and info['went_through_pool_trash'] and info['orphan_threshold_reached'] and cr.startswith('pool') and info['proto'] >= 3:
            # it was in the pool's trash when HostConnection.shutdown swapped the trash set: emptied without closing it
            return K_TRASH
        if info['where'] == 'pool' and info['pool_shutdown'] and cr in ('pool-replace', 'pool-grow') and not info['conn_in_a_pool_at_call']:
            return K_INSTALL
        if info['where'] is None and cr == 'pool-replace' and (info['task'] or {}).get('fn', '').endswith('HostConnection._replace') \
                and not info['conn_in_a_pool_at_call'] and not (info['task'] or {}).get('submitted_after_return') and info['proto'] >= 3:
            # same late _replace; HostConnection.shutdown was between closing the old connection and `self._connection = None` when the
            # replacement was stored: the slot is wiped without closing what is in it
            return K_INSTALL
        if info['where'] == 'trash' and info['pool_shutdown'] and info['pool'] == 'HostConnection' and not info['was_in_trash_at_call'] \
                and info['conn_in_a_pool_at_call'] and info['orphan_threshold_reached']:
            # the same _replace finishing after shutdown: it installs the new connection (closed by the shutdown that follows or not) and
            # parks the old one in the trash of the already shut-down pool
            return K_INSTALL
        if info['where'] == 'pool' and info['pool_shutdown'] is False and cr == 'pool-init' and info['owner_session_shutdown'] is False \
                and info['owner_session_registered_at_call'] is False and info['target'] == 'cluster':
            return K_CONNECT_RACE
        if info['where'] == 'pool' and info['pool_shutdown'] is False and cr == 'pool-init' and info['owner_session_shutdown'] and not info['pool_installed_at_call'] \
                and not (info['task'] or {}).get('submitted_after_return'):
            return K_POOL_LATE
        if info['where'] == 'control' and cr == 'control' and info['connected_when_control_connection_shut_down'] and info['target'] == 'cluster' \
                and (info['task'] or {}).get('fn', '').endswith('ControlConnection._reconnect') and not (info['task'] or {}).get('submitted_after_return'):
            # past the is_shutdown re-check of _try_connect (handshake done before the control connection was shut down), installed by _set_new_connection afterwards
            return K_CC_LATE
        if info['where'] == 'control':
            return "control-connection-left-open-after-shutdown"
        return "connection-open-after-shutdown"
    if kind == 'late':
        t = info.get('task') or {}
        if t.get('submitted_after_return'):
            return "task-accepted-after-shutdown-opened-a-connection"
        if info['creator'] == 'pool-init' and info['target'] == 'session' and info['where'] == 'pool' and info['pool_shutdown'] is False \
                and info['owner_session_shutdown'] and not info['pool_installed_at_call'] and t.get('fn', '').endswith('run_add_or_renew_pool'):
            return K_POOL_LATE          # the task was queued before Session.shutdown() and ran afterwards: same missing re-check
        if info['creator'] == 'pool-init' and info['target'] == 'session' and info['closed_in_the_end'] and info['where'] is None \
                and t.get('fn', '').endswith('run_add_or_renew_pool') and not t.get('submitted_after_call'):
            return K_POOL_QUEUED        # queued before Session.shutdown(), started afterwards; closed again once connected
        return "connection-opened-after-shutdown-returned"
    if kind == 'cc_late':
        t = info.get('task') or {}
        if not info['same_task_had_made_an_earlier_attempt'] and t.get('fn', '').endswith('ControlConnection._reconnect') and not t.get('submitted_after_call') \
                and info['closed_in_the_end']:
            return K_CC_QUEUED          # a reconnect task queued before shutdown that starts while the executor drains: first attempt, closed right away
        return "control-connection-attempt-started-after-control-connection-shutdown"
    if kind == 'accepted':
        if R is not None and any(v2[0] == 'open' and classify(v2) in (K_POOL_LATE, K_CONNECT_RACE) for v2 in R['viol']):
            return [classify(v2) for v2 in R['viol'] if v2[0] == 'open' and classify(v2) in (K_POOL_LATE, K_CONNECT_RACE)][0]
        return "request-accepted-after-shutdown"
    if kind == 'pending':
        return "request-after-shutdown-left-pending"
    return kind


def run(ctx):
    from vlib import shim
    shim.import_cluster()
    from vlib.run import Inconclusive
    from sim.world import WorldLimit
    ctx.rule = ("a case is (history variant, injection step k): variant = what happens (reconnect / replace / control / requests / trash / "
                "two_sessions / keyspace_sync / control_fail / trash_convict / trash_lenient / reconnect_cancel / control_sched / requests3) x protocol (v4 HostConnection, v2 HostConnectionPool) x which shutdown (Cluster / Session); for each variant all k in "
                "0..N are run (N = scheduling steps of the uninterrupted history); distinct by (variant, k); non-trivial = the cluster object existed "
                "at step k")
    ctx.assume("requests that were in flight when shutdown was called are not judged (they carry finite timeouts); only a request issued after the call returned must not stay pending")
    ctx.assume("Session.shutdown(): only connections of that session's pools must be released; the cluster's control connection and reconnectors legitimately live on until Cluster.shutdown()")
    allv = variants()
    me, nw = ctx.worker or 0, max(1, ctx.nworkers)
    # quick: each worker enumerates one variant per round, rotated by the seed so that seeds 1..5 cover all of them; thorough: all variants over the workers
    order = list(range(len(allv)))
    first = [allv.index(('reconnect', 4, 'session')), allv.index(('control', 4, 'cluster')), allv.index(('replace', 2, 'cluster')),
             allv.index(('trash', 4, 'cluster')),
             allv.index(('keyspace_sync', 4, 'session')), allv.index(('reconnect_cancel', 4, 'cluster')), allv.index(('trash_convict', 4, 'cluster')),
             allv.index(('requests3', 4, 'session'))]
    if ctx.quick:
        first = first[:8]
    rest = [i for i in order if i not in first]
    rot = (ctx.seed - 1) % max(1, len(rest))
    rest = rest[rot:] + rest[:rot]
    order = first + rest
    budget = 20 if ctx.quick else 150        # CPU seconds of this worker (vlib caps wall-clock at 4x)
    mine = [allv[i] for j, i in enumerate(order) if j % nw == me]
    rounds = 0
    complete = 0
    while ctx.time_left(budget) > 0:
        # measure every variant of this worker, then inject: first at the steps after connect() of each variant in turn (the connect phase is the
        # same in every variant), then at the connect-phase steps
        plan_post, plan_pre, left, c0s = [], [], {}, {}
        for variant in mine:
            if ctx.time_left(budget) < 0:
                break
            seed = ctx.seed * 1000003 + rounds * 7919 + hash(variant) % 1000
            try:
                R0, env0 = run_history(seed, variant, INF)
            except WorldLimit:
                ctx.count("histories_over_budget")
                continue
            if env0.world.errors or env0.net.parse_failures or R0.get('harness'):
                raise Inconclusive("harness error in the measuring run of %r seed %d: %r" % (variant, seed, (R0.get('harness'), list(env0.world.errors)[:2], env0.net.parse_failures[:1])))
            N = R0['steps']
            ctx.count("variants_started")
            ctx.count("steps_in_uninterrupted_histories", N)
            if variant[0] == 'keyspace_sync':
                ctx.count("keyspace_resync_variants_with_late_use_answers", 1 if R0['info'].get('use_held', 0) >= 2 else 0)
            ks = list(range(0, N + 1))
            random.Random(seed).shuffle(ks)         # a partial enumeration (time budget) is spread evenly
            c0 = R0['info'].get('connect_steps', 0)
            c0s[(variant, seed)] = c0
            plan_post.append((variant, seed, N, [k for k in ks if k >= c0]))
            plan_pre.append((variant, seed, N, [k for k in ks if k < c0]))
            left[(variant, seed)] = N + 1
        # the connect phase is the last to be enumerated; so that a time-boxed run has looked at it at all, a spread sample of its steps
        # goes first (Cluster.shutdown() racing connect() is only visible with a cluster-wide shutdown)
        plan_connect = []
        for i, (variant, seed, N, ks) in enumerate(plan_pre):
            if variant[2] == 'cluster' and ks:
                n_first = 24 if ctx.quick else 60
                plan_connect.append((variant, seed, N, ks[:n_first]))
                plan_pre[i] = (variant, seed, N, ks[n_first:])
                break
        for variant, seed, N, ks in plan_connect + plan_post + plan_pre:
            for k in ks:
                if ctx.time_left(budget) < 0:
                    break
                left[(variant, seed)] -= 1
                try:
                    R, env = run_history(seed, variant, k)
                except WorldLimit:
                    ctx.count("histories_over_budget")
                    continue
                except Exception as e:
                    import traceback
                    raise Inconclusive("history %r seed %d k=%d failed in the harness: %s: %s\n%s" % (variant, seed, k, type(e).__name__, e, traceback.format_exc()[-900:]))
                if R.get('harness'):
                    raise Inconclusive("%r seed %d k=%d: %s" % (variant, seed, k, R['harness']))
                ctx.case(repr((variant, seed, k)), nontrivial=not R['trivial'])
                ctx.count("shutdown_injections")
                if R['trivial']:
                    ctx.count("injections_before_the_cluster_existed")
                    continue
                if env.net.parse_failures:
                    raise Inconclusive("parse failure in %r seed %d k=%d: %r" % (variant, seed, k, env.net.parse_failures[:1]))
                info = R['info']
                ctx.count("injections_of_%s_shutdown" % info.get('target', '?'))
                if k < c0s.get((variant, seed), 0):
                    ctx.count("injections_while_connect_was_running")
                ctx.count("connections_judged", info.get('conns', 0))
                ctx.count("connections_opened_while_shutdown_ran", info.get('during', 0))
                ctx.count("requests_after_shutdown_" + str(info.get('probe')))
                if info.get('user_blocked'):
                    ctx.count("user_thread_still_inside_a_driver_call_at_quiescence")
                seen = set()
                for v in R['viol']:
                    mech = classify(v, R)
                    if mech in seen:
                        continue
                    seen.add(mech)
                    ctx.violation(mech, "%s [%s v%d %s, seed %d]" % (v[1], variant[0], variant[1], variant[2], seed),
                                  {"variant": variant, "seed": seed, "k": k, "N": N, "detail": v[2], "info": info})
                if env.world.errors and not R['viol']:
                    raise Inconclusive("exception escaped a sim thread in %r seed %d k=%d: %r" % (variant, seed, k, [(e[0], repr(e[1])) for e in env.world.errors[:2]]))
                if not R['viol'] and len(ctx.samples) < 4 and k % 37 == 5:
                    ctx.sample({"variant": variant, "k": k, "N": N, "info": info})
        for (variant, seed), n_left in left.items():
            if n_left == 0:
                complete += 1
                ctx.count("variants_enumerated_completely")
                ctx.count("variant_complete: %s v%d %s" % variant)
        rounds += 1          # time left: enumerate the same variants again under another seed
    ctx.floor_distinct = 40 if ctx.quick else 1500
    ctx.floor_counters = {"shutdown_injections": 40, "variants_started": 2, "connections_judged": 150, "injections_while_connect_was_running": 20}
