"""C33 - driver collection types behave as their mathematical models.

Monitor: seeded operation sequences are applied in lock-step to the real ``cassandra.util.SortedSet`` /
``OrderedMapSerializedKey`` / ``OrderedMap`` and to the sequential reference models of
``spec/collections_model.py`` (a list kept unique/ascending with ``==``/``<`` only; an insertion-ordered
association list keyed by the CQL encoding computed by the spec encoder).  Every observable return value,
raised exception type and ``list(iter(...))`` after every step is compared.  A class invariant
(``_items`` strictly ascending) is attached to ``SortedSet`` with icontract and checked around every
public method.
"""
import pickle

PROPERTY = "C33"
LEVEL = "exploration"
ENGINE = "spec"
TECHNIQUE = ("model-based runtime monitoring: random operation histories applied to the real collections and to sequential "
             "reference models, every return value / exception / iteration compared; icontract class invariant on SortedSet")
LEVEL_TEXT = ("seeded operation sequences (length <= 30) over small element domains incl. unhashable elements and keys; "
              "every step judged against an independent sequential model")
LEVEL_NOTE = ("trusted base: spec/collections_model.py (models and CQL key encoder), icontract; sequences are sampled, not enumerated; "
              "single-threaded")
QUICK_WORKERS = 2
WORKERS = 12

MAX_OPS = 30


class InvariantBroken(Exception):
    pass


# --------------------------------------------------------------------------- element domains
class Domain(object):
    def __init__(self, name, make, hashable, ordered=True):
        self.name, self.make, self.hashable, self.ordered = name, make, hashable, ordered

    def elem(self, rng):
        return self.make(rng)


def _domains(SortedSet):
    tup = [(), (0,), (1,), (0, 0), (0, 1), (1, 0), (1, 1), (0, 1, 0)]
    strs = ["", "a", "ab", "b", "ba", "é", "A"]
    byts = [b"", b"\x00", b"\x7f", b"\x80", b"\xff", b"\x00\x01"]
    flts = [-1.5, 0.0, 0.5, 2.0, 1e300, -1e-300]
    nest = [[], [[]], [[0]], [[0], [1]], [[1]], [[0, 1]], [[], [0]]]
    subsets = [(), (1,), (2,), (3,), (1, 2), (1, 3), (2, 3), (1, 2, 3)]
    return [
        Domain("int", lambda r: r.randrange(7), True),
        Domain("str", lambda r: r.choice(strs), True),
        Domain("tuple", lambda r: r.choice(tup), True),
        Domain("bytes", lambda r: r.choice(byts), True),
        Domain("float", lambda r: r.choice(flts), True),
        Domain("list", lambda r: list(r.choice(tup)), False),
        Domain("list-of-lists", lambda r: [list(x) for x in r.choice(nest)], False),
        # elements as a set<frozen<set<int>>> column yields them; '<' on SortedSet is the subset relation (a partial order)
        Domain("sortedset", lambda r: SortedSet(r.choice(subsets)), False, ordered=False),
    ]


# --------------------------------------------------------------------------- SortedSet
class Mismatch(Exception):
    def __init__(self, mech, what):
        Exception.__init__(self, what)
        self.mech = mech
        self.what = what


def _outcome(thunk):
    try:
        return ("ok", thunk())
    except InvariantBroken:
        raise
    except (KeyError, IndexError, TypeError, ValueError, AttributeError, RecursionError) as e:
        return ("raise", type(e).__name__)


def _same_contents(actual_iterable, model):
    got = list(actual_iterable)
    if model.ordered:
        return got == model.xs
    return len(got) == len(model.xs) and all(any(g == x for g in got) for x in model.xs)


class SetRunner(object):
    def __init__(self, ctx, rng, dom, SortedSet, ModelSet):
        self.ctx, self.rng, self.dom, self.SS, self.MS = ctx, rng, dom, SortedSet, ModelSet
        self.trace = []

    def some(self, lo=0, hi=4):
        return [self.dom.elem(self.rng) for _ in range(self.rng.randint(lo, hi))]

    def other(self, kinds):
        """-> (label, real operand, element list)"""
        items = self.some()
        kinds = [k for k in kinds if self.dom.hashable or k not in ("set", "frozenset")]
        k = self.rng.choice(kinds)
        if k == "ss":
            return k, self.SS(items), items
        if k == "set":
            return k, set(items), items
        if k == "frozenset":
            return k, frozenset(items), items
        if k == "list":
            return k, list(items), items
        if k == "tuple":
            return k, tuple(items), items
        return k, (x for x in list(items)), items     # generator

    def check_state(self, s, m, after):
        self.ctx.count("set_state_comparisons")
        got = list(iter(s))
        if not _same_contents(got, m):
            raise Mismatch("sortedset-state-differs", "after %s: iteration gives %r, model %r" % (after, got, m.xs))
        if len(s) != len(m.xs):
            raise Mismatch("sortedset-state-differs", "after %s: len %d, model %d" % (after, len(s), len(m.xs)))
        if m.ordered and list(reversed(s)) != m.xs[::-1]:
            raise Mismatch("sortedset-state-differs", "after %s: reversed() differs" % after)
        for x in m.xs:
            if x not in s:
                raise Mismatch("sortedset-member-not-found", "after %s: %r is yielded by the model and by iteration but `in` says no" % (after, x))

    def expect(self, desc, act, exp, kind="value"):
        """kind: value | set (same contents) | member (any member of the pre-state)"""
        self.trace.append(desc)
        self.ctx.count("set_operations")
        a = _outcome(act)
        e = _outcome(exp)
        if a[0] != e[0] or (a[0] == "raise" and a[1] != e[1]):
            raise Mismatch("sortedset-exception-differs" if "raise" in (a[0], e[0]) else "sortedset-result-differs",
                           "%s: real %r, model %r" % (desc, a, e[:1] + (getattr(e[1], "xs", e[1]),)))
        if a[0] == "raise":
            self.ctx.count("set_expected_exceptions")
            return None
        av, ev = a[1], e[1]
        if kind == "set":
            if not _same_contents(av, ev):
                raise Mismatch("sortedset-result-differs", "%s: real %r, model %r" % (desc, list(av), ev.xs))
        elif kind == "value":
            if av is NotImplemented or type(av) is not type(ev) and not (isinstance(av, (list, tuple)) and isinstance(ev, (list, tuple))):
                raise Mismatch("sortedset-result-differs", "%s: real %r (%s), model %r" % (desc, av, type(av).__name__, ev))
            if av != ev:
                raise Mismatch("sortedset-result-differs", "%s: real %r, model %r" % (desc, av, ev))
        return av

    def step(self, s, m):
        rng, dom, SS = self.rng, self.dom, self.SS
        ordered = m.ordered
        ops = ["add", "add", "remove", "pop", "contains", "len", "copy", "update", "union", "intersection", "difference",
               "symdiff", "pred", "binop", "rbinop", "iop", "cmp", "rcmp", "pickle", "clear", "eq_clone"]
        if ordered:
            ops += ["getitem", "getslice", "delitem", "delslice"]
        op = rng.choice(ops)
        if op == "add":
            x = dom.elem(rng)
            self.expect("add(%r)" % (x,), lambda: s.add(x), lambda: m.add(x))
        elif op == "remove":
            x = dom.elem(rng)

            def mrem():
                if not m.discard(x):
                    raise KeyError(x)
            try:
                self.expect("remove(%r)" % (x,), lambda: s.remove(x), mrem)
            except Mismatch as e:
                if e.mech == "sortedset-exception-differs" and isinstance(x, tuple) and len(x) != 1 and x not in m and \
                        _outcome(lambda: s.remove(x)) == ("raise", "TypeError"):
                    # KeyError('%r' % item) formats a tuple element as an argument tuple; nothing was removed, the history goes on
                    self.ctx.violation("sortedset-remove-missing-tuple-typeerror", "SortedSet[%s]: %s" % (dom.name, e.what),
                                       {"domain": dom.name, "history": self.trace[-6:]})
                else:
                    raise
        elif op == "pop":
            self.trace.append("pop()")
            self.ctx.count("set_operations")
            a = _outcome(lambda: s.pop())
            if not m.xs:
                if a != ("raise", "KeyError"):
                    raise Mismatch("sortedset-exception-differs", "pop() on empty set: %r" % (a,))
            else:
                if a[0] != "ok" or a[1] not in m:
                    raise Mismatch("sortedset-result-differs", "pop() gave %r, members were %r" % (a, m.xs))
                m.discard(a[1])
        elif op == "contains":
            x = dom.elem(rng)
            self.expect("%r in s" % (x,), lambda: x in s, lambda: x in m)
        elif op == "len":
            self.expect("len", lambda: len(s), lambda: len(m))
        elif op == "getitem":
            i = rng.randint(-len(m) - 2, len(m) + 1)
            self.expect("s[%d]" % i, lambda: s[i], lambda: m.xs[i])
        elif op == "getslice":
            sl = slice(rng.choice([None, 0, 1, -2, 2]), rng.choice([None, 0, 1, -1, 3]), rng.choice([None, 1, 2, -1]))
            self.expect("s[%r]" % (sl,), lambda: s[sl], lambda: m.xs[sl])
        elif op == "delitem":
            i = rng.randint(-len(m) - 1, len(m))

            def mdel():
                del m.xs[i]

            def sdel():
                del s[i]
            self.expect("del s[%d]" % i, sdel, mdel)
        elif op == "delslice":
            a, b = rng.randint(0, 3), rng.randint(0, 5)

            def mdel():
                del m.xs[a:b]

            def sdel():
                del s[a:b]
            self.expect("del s[%d:%d]" % (a, b), sdel, mdel)
        elif op == "clear":
            if rng.random() < 0.3:
                self.expect("clear()", lambda: s.clear(), lambda: m.xs.clear())
        elif op == "copy":
            c = self.expect("copy()", lambda: s.copy(), lambda: m.copy(), "set")
            x = dom.elem(rng)
            if type(c) is not SS or c is s:
                raise Mismatch("sortedset-result-differs", "copy() returned %r" % (c,))
            c.add(x)      # the copy must be independent (state check of s follows)
        elif op == "update":
            k, o, items = self.other(["ss", "set", "list", "tuple", "gen"])
            def mupd():
                for x in items:
                    m.add(x)
            self.expect("update(%s %r)" % (k, items), lambda: s.update(o), mupd)
        elif op in ("union", "intersection", "difference"):
            others = [self.other(["ss", "set", "frozenset", "list", "tuple"]) for _ in range(rng.randint(0, 2))]
            reals = [o[1] for o in others]
            lists = [o[2] for o in others]
            r = self.expect("%s(%s)" % (op, ", ".join("%s %r" % (o[0], o[2]) for o in others)),
                            lambda: getattr(s, op)(*reals), lambda: getattr(m, op)(*lists), "set")
            if type(r) is not SS or r is s:
                raise Mismatch("sortedset-result-differs", "%s returned %r (same object or wrong type)" % (op, r))
        elif op == "symdiff":
            k, o, items = self.other(["ss", "set", "frozenset"])
            self.expect("symmetric_difference(%s %r)" % (k, items), lambda: s.symmetric_difference(o),
                        lambda: m.symmetric_difference(items), "set")
        elif op == "pred":
            name = rng.choice(["isdisjoint", "issubset", "issuperset"])
            k, o, items = self.other(["ss", "set", "frozenset"])
            if rng.random() < 0.3:      # related operands make the interesting answers likely
                items = list(m.xs[:rng.randint(0, len(m))]) if rng.random() < 0.5 else list(m.xs) + items
                o = SS(items) if k == "ss" else (set(items) if k == "set" else frozenset(items))
            self.expect("%s(%s %r)" % (name, k, items), lambda: getattr(s, name)(o), lambda: getattr(m, name)(items))
        elif op in ("binop", "rbinop", "iop"):
            sym = rng.choice(["&", "|", "-", "^"])
            k, o, items = self.other(["ss", "set", "frozenset"] if op != "rbinop" else ["set", "frozenset", "ss"])
            if op in ("iop", "binop") and rng.random() < 0.2:
                # aliased operand: s -= s, s ^= s, s & s ... (an in-place operator must not iterate what it mutates)
                k, o, items = "alias-of-s", s, list(m.xs)
            mm = self.MS(items, ordered=ordered)
            fwd = {"&": lambda: m.intersection(items), "|": lambda: m.union(items), "-": lambda: m.difference(items),
                   "^": lambda: m.symmetric_difference(items)}
            rev = dict(fwd)
            rev["-"] = lambda: mm.difference(m.xs)
            if op == "binop":
                act = {"&": lambda: s & o, "|": lambda: s | o, "-": lambda: s - o, "^": lambda: s ^ o}[sym]
                self.expect("s %s (%s %r)" % (sym, k, items), act, fwd[sym], "set")
            elif op == "rbinop":
                act = {"&": lambda: o & s, "|": lambda: o | s, "-": lambda: o - s, "^": lambda: o ^ s}[sym]
                self.expect("(%s %r) %s s" % (k, items, sym), act, rev[sym], "set")
            else:
                holder = [s]

                def iact():
                    t = holder[0]
                    if sym == "&":
                        t &= o
                    elif sym == "|":
                        t |= o
                    elif sym == "-":
                        t -= o
                    else:
                        t ^= o
                    return t
                want = fwd[sym]()
                r = self.expect("s %s= (%s %r)" % (sym, k, items), iact, lambda: want, "set")
                if r is not s:
                    raise Mismatch("sortedset-result-differs", "in-place operator returned a different object")
                m.xs = want.xs
        elif op in ("cmp", "rcmp"):
            sym = rng.choice(["==", "!=", "<", "<=", ">", ">="])
            k, o, items = self.other(["ss", "set", "frozenset"] if op == "cmp" else ["set", "frozenset"] if dom.hashable else ["ss"])
            x = rng.random()
            if x < 0.6:
                items = list(m.xs[:rng.randint(0, len(m))]) if x < 0.2 else (list(m.xs) + items if x < 0.4 else list(m.xs))
                rng.shuffle(items)
                o = SS(items) if k == "ss" else (set(items) if k == "set" else frozenset(items))
            mo = self.MS(items, ordered=ordered)
            sub, sup = m.issubset(items), m.issuperset(items)
            eq = sub and sup
            if op == "cmp":
                want = {"==": eq, "!=": not eq, "<": sub and not sup, "<=": sub, ">": sup and not sub, ">=": sup}[sym]
                act = {"==": lambda: s == o, "!=": lambda: s != o, "<": lambda: s < o, "<=": lambda: s <= o,
                       ">": lambda: s > o, ">=": lambda: s >= o}[sym]
                self.expect("s %s (%s %r)" % (sym, k, items), act, lambda: want)
            else:
                want = {"==": eq, "!=": not eq, "<": sup and not sub, "<=": sup, ">": sub and not sup, ">=": sub}[sym]
                act = {"==": lambda: o == s, "!=": lambda: o != s, "<": lambda: o < s, "<=": lambda: o <= s,
                       ">": lambda: o > s, ">=": lambda: o >= s}[sym]
                self.expect("(%s %r) %s s" % (k, items, sym), act, lambda: want)
            del mo
        elif op == "pickle":
            r = self.expect("pickle round trip", lambda: pickle.loads(pickle.dumps(s)), lambda: m, "set")
            if type(r) is not SS:
                raise Mismatch("sortedset-result-differs", "unpickled object is %r" % type(r))
        elif op == "eq_clone":
            items = list(m.xs)
            rng.shuffle(items)
            self.expect("s == SortedSet(shuffled own items)", lambda: s == SS(items), lambda: True)
        self.check_state(s, m, self.trace[-1] if self.trace else "init")

    def run(self, nops):
        init = self.some(0, 6)
        self.trace.append("SortedSet(%r)" % (init,))
        s = self.SS(init)
        m = self.MS(init, ordered=self.dom.ordered)
        self.check_state(s, m, "construction")
        for _ in range(nops):
            self.step(s, m)


def sortedset_sequences(ctx, n, SortedSet, ModelSet, domains, deadline):
    import time
    for i in range(n):
        if (i & 63) == 0 and time.time() > deadline:
            ctx.note("sorted-set part stopped by the time budget after %d sequences" % i)
            break
        dom = ctx.rng.choice(domains)
        if not dom.ordered and ctx.rng.random() < 0.7:
            dom = ctx.rng.choice(domains)       # the partially ordered domain is a side show
        r = SetRunner(ctx, ctx.rng, dom, SortedSet, ModelSet)
        nops = ctx.rng.randint(1, MAX_OPS)
        try:
            r.run(nops)
        except Mismatch as e:
            mech = e.mech if dom.ordered else "sortedset-partially-ordered-elements"
            ctx.violation(mech, "SortedSet[%s]: %s" % (dom.name, e.what), {"domain": dom.name, "history": r.trace[-12:]})
        except InvariantBroken as e:
            mech = "sortedset-invariant-broken" if dom.ordered else "sortedset-partially-ordered-elements"
            ctx.violation(mech, "SortedSet[%s]: class invariant %s" % (dom.name, e), {"domain": dom.name, "history": r.trace[-12:]})
        ctx.case(("set", dom.name, tuple(r.trace)))
        ctx.count("set_sequences")
        ctx.count("set_sequences_%s" % ("ordered_domain" if dom.ordered else "partial_order_domain"))
        if dom.hashable is False:
            ctx.count("set_sequences_unhashable_elements")
        if i < 2:
            ctx.sample({"domain": dom.name, "history": r.trace[:10]})


# --------------------------------------------------------------------------- ordered maps
KEY_TYPES = [
    # (spec type, key maker, hashable)
    ("int", lambda r: r.randrange(6), True),
    ("text", lambda r: r.choice(["", "a", "b", "ab", "é中"]), True),
    (("list", "int"), lambda r: r.choice([list, tuple])(r.choice([(), (0,), (1,), (0, 1), (1, 0), (0, 0)])), False),
    (("set", "int"), lambda r: list(r.choice([(), (0,), (1,), (0, 1), (0, 1, 2)])), False),
    (("map", "int", "text"), lambda r: dict(r.choice([(), ((1, "a"),), ((1, "b"),), ((1, "a"), (2, "b")), ((2, "b"), (1, "a"))])), False),
    (("tuple", "int", "text"), lambda r: r.choice([(0, "a"), (0, "b"), (1, "a"), (None, "a"), (1, None)]), True),
    (("list", ("list", "int")), lambda r: [list(x) for x in r.choice([(), ((),), ((0,),), ((0,), (1,)), ((0, 1),)])], False),
]


class MapRunner(object):
    def __init__(self, ctx, rng, real, model, newkey, ident, label):
        self.ctx, self.rng, self.real, self.model, self.newkey, self.ident, self.label = ctx, rng, real, model, newkey, ident, label
        self.trace = []

    def check_state(self, after):
        d, m = self.real, self.model
        self.ctx.count("map_state_comparisons")
        keys = list(iter(d))
        if [self.ident(k) for k in keys] != m.idents():
            raise Mismatch("orderedmap-state-differs", "after %s: keys %r, model %r" % (after, keys, [e[1] for e in m.entries]))
        if len(d) != len(m):
            raise Mismatch("orderedmap-state-differs", "after %s: len %d, model %d" % (after, len(d), len(m)))
        if list(d.values()) != m.values():
            raise Mismatch("orderedmap-state-differs", "after %s: values %r, model %r" % (after, list(d.values()), m.values()))
        items = list(d.items())
        if [(self.ident(k), v) for k, v in items] != list(zip(m.idents(), m.values())):
            raise Mismatch("orderedmap-state-differs", "after %s: items() %r disagrees with the model" % (after, items))
        for k, v in zip(keys, m.values()):       # every key handed out by iteration finds its own value
            self.ctx.count("map_lookups_of_iterated_keys")
            a = _outcome(lambda: d[k])
            if a != ("ok", v):
                raise Mismatch("orderedmap-iterated-key-lookup", "after %s: d[%r] for a key yielded by iteration gave %r, expected %r" % (after, k, a, v))

    def expect(self, desc, act, exp):
        self.trace.append(desc)
        self.ctx.count("map_operations")
        a, e = _outcome(act), _outcome(exp)
        if a != e:
            raise Mismatch("orderedmap-exception-differs" if "raise" in (a[0], e[0]) else "orderedmap-result-differs",
                           "%s: real %r, model %r" % (desc, a, e))
        if a[0] == "raise":
            self.ctx.count("map_expected_exceptions")
        return a

    def step(self):
        rng, d, m = self.rng, self.real, self.model
        op = rng.choice(["set", "set", "insert", "get", "get", "contains", "getdefault", "del", "del", "popitem", "len", "eq"])
        k = self.newkey(rng)
        if op in ("set", "insert"):
            v = rng.choice([None, 0, 1, 2, 3, 99])

            def act():
                if op == "set":
                    d[k] = v
                else:
                    d._insert(k, v)
            self.expect("%s d[%r] = %r" % (op, k, v), act, lambda: m.set(k, v))
        elif op == "get":
            self.expect("d[%r]" % (k,), lambda: d[k], lambda: m.get(k))
        elif op == "contains":
            self.expect("%r in d" % (k,), lambda: k in d, lambda: m.has(k))
        elif op == "getdefault":
            self.expect("d.get(%r, 'dflt')" % (k,), lambda: d.get(k, "dflt"), lambda: m.get(k) if m.has(k) else "dflt")
        elif op == "del":
            if rng.random() < 0.6 and len(m):
                k = rng.choice(m.entries)[1]

            def act():
                del d[k]
            self.expect("del d[%r]" % (k,), act, lambda: m.delete(k))
        elif op == "popitem":
            def act():
                kk, vv = d.popitem()
                return self.ident(kk), vv
            self.expect("popitem()", act, lambda: m.popitem())
        elif op == "len":
            self.expect("len", lambda: len(d), lambda: len(m))
        elif op == "eq":
            from cassandra.util import OrderedMap
            clone = OrderedMap([(e[1], e[2]) for e in m.entries]) if type(d) is OrderedMap else type(d)(d.cass_key_type, d.protocol_version)
            if type(d) is not OrderedMap:
                for e in m.entries:
                    clone._insert(e[1], e[2])
            same_keys = [e[1] for e in m.entries] == list(d)      # equality of maps compares key objects with ==
            if same_keys:
                self.expect("d == clone built by the same insertions", lambda: d == clone, lambda: True)
                if len(m):
                    clone[m.entries[0][1]] = "other"
                    self.expect("d == clone with one value changed", lambda: d == clone, lambda: False)
        self.check_state(self.trace[-1] if self.trace else "init")


def orderedmap_sequences(ctx, n, deadline):
    import time
    from cassandra.util import OrderedMap, OrderedMapSerializedKey
    from cassandra.cqltypes import lookup_casstype
    from spec.collections_model import ModelMap, encode_key, encode_map, casstype_name
    rng = ctx.rng
    ctx.assume("serialized maps handed to MapType.deserialize have distinct, non-null keys (Cassandra never sends anything else)")
    for i in range(n):
        if (i & 63) == 0 and time.time() > deadline:
            ctx.note("ordered-map part stopped by the time budget after %d sequences" % i)
            break
        how = rng.choice(["deserialize", "deserialize", "direct", "plain"])
        kt, mk, hashable = rng.choice(KEY_TYPES)
        if how == "plain":
            # OrderedMap proper identifies keys by their pickle; only keys whose pickle is canonical are generated
            kt, mk, hashable = rng.choice([KEY_TYPES[0], KEY_TYPES[2]])
            ident = (lambda k: repr(list(k)).encode()) if kt != "int" else (lambda k: repr(k).encode())
            mk2 = (lambda r, mk=mk: list(mk(r))) if kt != "int" else mk
            model = ModelMap(ident)
            pairs = []
            for _ in range(rng.randint(0, 4)):
                k, v = mk2(rng), rng.randrange(4)
                pairs.append((k, v))
                model.set(k, v)
            form = rng.choice(["pairs", "dict", "kwargs"]) if kt == "int" else "pairs"
            if form == "pairs":
                real = OrderedMap(pairs)
            elif form == "dict":
                dd = {}
                for k, v in pairs:
                    dd[k] = v
                real = OrderedMap(dd)
            else:
                real = OrderedMap()
                for k, v in pairs:
                    real[k] = v
            runner = MapRunner(ctx, rng, real, model, mk2, ident, "OrderedMap")
            runner.trace.append("OrderedMap(%s %r)" % (form, pairs))
            label = "plain"
        else:
            proto = rng.choice([3, 4, 5]) if kt not in ("int", "text") else rng.choice([2, 3, 4, 5])
            ident = lambda k, kt=kt: encode_key(kt, k)
            cass_kt = lookup_casstype(casstype_name(kt))
            model = ModelMap(ident)
            pairs = []
            for _ in range(rng.randint(0, 4)):
                k, v = mk(rng), rng.randrange(4)
                if not model.has(k):
                    pairs.append((k, v))
                    model.set(k, v)
            if how == "deserialize":
                mt = lookup_casstype("MapType(%s, Int32Type)" % casstype_name(kt))
                real = mt.deserialize(encode_map(kt, "int", pairs, proto), proto)
                ctx.count("maps_built_by_deserialization")
            else:
                real = OrderedMapSerializedKey(cass_kt, proto)
                for k, v in pairs:
                    real._insert(k, v)
            if type(real) is not OrderedMapSerializedKey:
                ctx.violation("map-column-not-ordered-map", "MapType.deserialize returned %r" % type(real), {"key_type": repr(kt)})
                continue
            runner = MapRunner(ctx, rng, real, model, mk, ident, "OrderedMapSerializedKey")
            runner.trace.append("%s map<%r,int> proto %d %r" % (how, kt, proto, pairs))
            label = how
        try:
            runner.check_state("construction")
            for _ in range(rng.randint(1, MAX_OPS)):
                runner.step()
        except Mismatch as e:
            ctx.violation(e.mech, "%s[%r]: %s" % (runner.label, kt, e.what), {"key_type": repr(kt), "history": runner.trace[-12:]})
        ctx.case(("map", label, repr(kt), tuple(runner.trace)))
        ctx.count("map_sequences")
        if not hashable:
            ctx.count("map_sequences_unhashable_keys")
        if i < 2:
            ctx.sample({"map": runner.label, "key_type": repr(kt), "history": runner.trace[:10]})


# --------------------------------------------------------------------------- entry
def items_strictly_ascending(self):
    it = self._items
    if it and isinstance(it[0], type(self)):
        return True        # elements ordered by the subset relation: no total order to hold the invariant against
    return all(a < b for a, b in zip(it, it[1:]))


def run(ctx):
    import time
    import icontract
    from cassandra import util
    from spec.collections_model import ModelSet

    SortedSet = util.SortedSet
    icontract.invariant(items_strictly_ascending,
                        error=lambda self: InvariantBroken("items_strictly_ascending violated: %r" % (self._items,)))(SortedSet)
    # the decorator must really be in force, otherwise the invariant monitor would be silently absent
    probe = SortedSet([2, 1])
    probe._items = [2, 1]
    try:
        len(probe)
        from vlib.run import Inconclusive
        raise Inconclusive("icontract invariant not active on SortedSet")
    except InvariantBroken:
        ctx.count("invariant_monitor_selfcheck")

    ctx.rule = ("seeded operation sequences, 1..%d operations each: SortedSet over 8 single-type element domains (3 unhashable, 1 only "
                "partially ordered) with operands that are SortedSets, sets, frozensets, lists, tuples, generators; ordered maps built by "
                "MapType.deserialize / direct insertion / OrderedMap constructors over 7 key types (4 unhashable); distinct = (structure, "
                "domain, full operation history)" % MAX_OPS)
    ctx.assume("SortedSet elements come from one type with a total order per sequence (dict/map elements are not comparable and are not "
               "generated); the argument of a set predicate / operator is a SortedSet, set or frozenset; list/tuple/generator arguments "
               "only for update/union/intersection/difference")
    ctx.assume("pop() may return any member (the model removes whichever member was returned)")
    ctx.assume("which of two key objects with the same encoding an ordered map retains is unspecified: keys are compared by encoding")
    domains = _domains(SortedSet)
    budget = 40 if ctx.quick else 330
    t0 = time.time()
    n_set = ctx.scale(12000, 1200000)
    n_map = ctx.scale(9000, 1000000)
    sortedset_sequences(ctx, n_set, SortedSet, ModelSet, domains, t0 + budget * 0.55)
    orderedmap_sequences(ctx, n_map, t0 + budget)
    ctx.floor_distinct = 2000
    ctx.floor_counters = {"set_sequences": 1000, "map_sequences": 1000, "set_operations": 10000, "map_operations": 10000,
                          "set_state_comparisons": 10000, "map_state_comparisons": 10000, "set_sequences_unhashable_elements": 200,
                          "map_sequences_unhashable_keys": 200, "maps_built_by_deserialization": 200,
                          "set_expected_exceptions": 100, "map_expected_exceptions": 100}
