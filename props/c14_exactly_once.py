"""C14 - every request (and every page fetch) completes exactly once.

Monitor: the real Cluster/Session/pools/ResponseFuture run in the deterministic world against 1-4 scripted
wire-level nodes.  Histories mix speculative executions (ConstantSpeculativeExecutionPolicy, 0-2 extra
executions), a retry policy with seeded decisions, server errors, UNPREPARED, connection close/reset,
silence, answers held and released later (also after the client timeout) and paged statements.  Every future
carries several registered (callback, errback) pairs: one registered before the request is sent (request-init
listener), one right after execute_async returned, some between events, one after completion; result() is
called at quiescence.  The oracle counts invocations per registration and per page epoch.
"""
import random

PROPERTY = "C14"
LEVEL = "exploration"
ENGINE = "sim"
TECHNIQUE = "runtime monitor in a deterministic world: exactly-once counting of callback/errback invocations per registration and page epoch + bounded completion at quiescence"
LEVEL_TEXT = ("Several hundred to a thousand (quick) and five to fifteen thousand (thorough) of seeded schedules of 1-3 concurrent requests with up to 3 "
              "executions each, scripted retries, server errors, connection failures, client timeouts and late answers: per registered "
              "pair and page epoch #callback + #errback == 1, all registrations and result() agree on the same outcome object, a late "
              "registration fires exactly once immediately, and an outcome is present once every message sent for the epoch was "
              "answered/failed or the timeout elapsed, and a page fetch is completed by an answer to one of its own messages. "
              "Held-on-observed schedules. Multiple completions are classified from the observable pattern by narrow classifiers "
              "(four of the mechanisms found were repaired in the repository by the once-guard of commit 8244c26; two remain known findings).")
LEVEL_NOTE = ("Trusted base: sim/world.py (one thread runs at a time, switches only at synchronisation points), sim/node.py, spec/frames.py, "
              "sim/s1_req.py. Which internal path produced a completion is not observable; multiple completions are classified from the "
              "observable pattern (kinds and identity of the outcome objects, messages sent and answered).")
QUICK_WORKERS = 4
WORKERS = 14

KNOWN_SLUGS = ('earlier-page-execution-completes-later-page-fetch', 'response-dropped-after-another-requests-timeout')
FIXED_SLUGS = ('double-completion-after-speculative-executions', 'completion-after-timeout-by-late-response', 'double-timeout-error',
               'timeout-error-after-completion')          # repaired by the once-guard (repository commit 8244c26): ordinary violations now


def _is_oto(ev):
    from cassandra import OperationTimedOut
    return ev[0] == 'eb' and isinstance(ev[3], OperationTimedOut)


def classify_multi(outs, own, stale_l, spec_on):
    """Slugs for a page epoch whose first registration saw more than one outcome (outs in delivery order).
    own: the messages of this epoch the nodes received (arrival records); stale_l: messages of *earlier* page epochs
    answered or failed during this epoch."""
    import collections
    from cassandra.connection import ConnectionException
    sent = len([a for a in own if a['op'] != 'PREPARE'])
    answered = len([a for a in own if a['answered'] is not None])
    stale = len(stale_l)
    failed = len([a for a in own + stale_l if a['answered'] == ('failed',)])
    ids = collections.Counter(id(o[3]) for o in outs if o[3] is not None)
    for o in outs:
        c = ids.get(id(o[3]), 0)
        if c > 1 and not (isinstance(o[3], ConnectionException) and failed >= c):
            # the very same result / exception object handed over again: a repeated delivery, not a second completion
            # (a failing connection hands one ConnectionShutdown object to every pending handler: that is not a repeat)
            return ['same-outcome-object-delivered-more-than-once']
    if len([o for o in outs if not _is_oto(o)]) > max(answered + stale, 1):
        return ['more-completions-than-answered-messages']
    slugs = []
    first = outs[0]
    for i in range(1, len(outs)):
        o = outs[i]
        before = outs[:i]
        if _is_oto(o):
            if any(_is_oto(b) for b in before):
                slug = 'double-timeout-error'
            else:
                # a timeout error after the request was completed: known only as the consequence of a message that was answered or
                # failed after the completion (the retry it triggers notices the elapsed timeout), of an execution sent in the very
                # instant of the completion (the speculative-execution timer re-arms the timeout after the completion cancelled it),
                # or of the timer thread and an executor thread completing the future in the same instant
                later = [a for a in own + stale_l if a['answered'] is not None and a['answered_ev'] >= first[4]]
                same_instant = [a for a in own if a['op'] != 'PREPARE' and a['t'] >= first[2] - 1e-3]
                concurrent = o[2] - first[2] < 1e-3          # two threads completed the future in the same instant
                slug = 'timeout-error-after-completion' if (later or same_instant or concurrent) else 'timeout-error-after-completion-unexplained'
        else:
            slug = None
            if any(_is_oto(b) for b in before):
                slug = 'completion-after-timeout-by-late-response'
            if any(not _is_oto(b) for b in before):
                if slug:
                    slugs.append(slug)
                if stale:
                    slug = 'earlier-page-execution-completes-later-page-fetch'
                elif spec_on and sent >= 2 and answered >= 2:
                    slug = 'double-completion-after-speculative-executions'
                else:
                    slug = 'multiple-completions-without-speculative-executions'
        if slug not in slugs:
            slugs.append(slug)
    return slugs


def echo_id(row):
    return row['uid'] if isinstance(row, dict) else row[0]


def _short(ev):
    v = ev[3]
    return "%s@%.3f:%s" % (ev[0], ev[2], (type(v).__name__ + ':' + str(v)[:60]) if isinstance(v, BaseException) else repr(v)[:60])


def run_history(seed, knobs=None):
    from sim.env import SimEnv
    from sim import world as W
    from sim import s1_req as R
    from cassandra.cluster import ExecutionProfile, EXEC_PROFILE_DEFAULT
    from cassandra.policies import RoundRobinPolicy, ConstantSpeculativeExecutionPolicy
    from cassandra.query import SimpleStatement

    knobs = knobs or {}
    rng = random.Random(seed)
    random.seed(seed)
    nnodes = knobs.get('nodes') or rng.choice([1, 2, 2, 3, 3, 4])
    addrs = ['127.0.0.%d' % (i + 1) for i in range(nnodes)]
    spec_extra = rng.choice([0, 1, 1, 2, 2])
    spec_delay = rng.choice([0.05, 0.15, 0.4])
    T = rng.choice([0.5, 1.0])
    p_preempt = rng.choice([0.0, 0.1, 0.3])
    p_time = rng.choice([0.0, 0.05, 0.15])
    # "burst" histories: every host of the plan gets an execution, all answers are held and then released back to back, so that several
    # completions of one request (answers on the reactor thread, retry tasks ending in NoHostAvailable on executor threads) fall into the
    # same virtual instant on different world threads, with a high preemption probability at the lock acquisitions
    burst = rng.random() < 0.3
    if burst:
        nnodes = rng.choice([2, 2, 3])
        addrs = ['127.0.0.%d' % (i + 1) for i in range(nnodes)]
        spec_extra, spec_delay = nnodes - 1, 0.05
        p_preempt, p_time = rng.choice([0.3, 0.5, 0.7]), 0.0
    ch = W.RandomChooser(random.Random(seed * 7 + 1), p_time=0.0, p_preempt=p_preempt)
    env = SimEnv(ch, addresses=addrs, max_steps=60000)
    plan = R.ReqPlan(env.world)
    for n in env.net.nodes.values():
        n.behaviour = plan.behaviour
    viol = []
    cnt = {}

    def count(k, n=1):
        cnt[k] = cnt.get(k, 0) + n

    with env:
        world = env.world
        retry = R.scripted_retry(seed * 13 + 5, weights=rng.choice([(1, 6, 1, 1), (0, 1, 0, 0), (2, 4, 1, 1)]) if burst else
                                 rng.choice([(3, 3, 2, 1), (1, 4, 2, 1), (4, 1, 1, 1), (1, 1, 4, 2)]))
        prof = ExecutionProfile(load_balancing_policy=RoundRobinPolicy(), retry_policy=retry, request_timeout=T,
                                speculative_execution_policy=ConstantSpeculativeExecutionPolicy(spec_delay, spec_extra) if spec_extra else None)
        cluster = env.cluster(protocol_version=rng.choice([3, 4, 4]), execution_profiles={EXEC_PROFILE_DEFAULT: prof})
        session = cluster.connect()
        world.settle(advance=False)
        starter = R.Starter(session, world, env.net)

        # ------------------------------------------------------------ the requests of this history
        nreq = rng.choice([1, 1, 2, 2, 3])
        specs = []
        for uid in range(1, nreq + 1):
            kind = rng.choices(['simple', 'bound', 'paged'], [5, 2, 3])[0]
            idem = rng.random() < 0.85 or burst

            def actions(first_page, kind=kind):
                if burst and first_page:
                    out = [rng.choice(['hold', 'hold', R.held_err(rng.choice(R.RETRYABLE)), R.held_err(rng.choice(R.RETRYABLE))]) for _ in range(nnodes)]
                    return out + [rng.choice(['rows', 'hold'])]
                menu = [('rows', 5), ('hold', 4), ('late', 2 if first_page else 1), ('silent', 2), ('err', 5), ('held-err', 1), ('final', 1),
                        ('close', 1), ('reset', 1)]
                if kind != 'paged':
                    menu.append(('void', 1))
                if kind == 'bound':
                    menu.append(('unprepared', 2))
                out = []
                for _ in range(rng.randint(1, 5)):
                    a = rng.choices([m[0] for m in menu], [m[1] for m in menu])[0]
                    if a == 'err':
                        a = R.err(rng.choice(R.RETRYABLE))
                    elif a == 'held-err':
                        a = R.held_err(rng.choice(R.RETRYABLE))
                    elif a == 'final':
                        a = R.err(rng.choice(R.FINAL_ERRORS))
                    out.append(a)
                # the last action repeats for every further arrival: it must not feed an endless exchange (UNPREPARED -> PREPARE -> ...)
                out.append(rng.choice(['rows', 'rows', 'silent', 'hold']))
                return out
            if kind == 'paged':
                npages = rng.randint(2, 4)
                plan.pages[uid] = [list(range(10 * k, 10 * k + rng.randint(0, 2))) for k in range(npages)]
                for k in range(npages):
                    plan.set_page(uid, k, actions(k == 0))
            else:
                plan.set_page(uid, 0, actions(True))
            specs.append({'uid': uid, 'kind': kind, 'idem': idem})
        prepared = {}
        for s in specs:
            if s['kind'] == 'bound':
                ps = session.prepare(R.uid_query(s['uid']))
                ps.is_idempotent = s['idem']
                prepared[s['uid']] = ps
        world.settle(advance=False)
        # Session.__init__ walks a *set* of Future objects (identity hash): the schedule of the connect phase depends on heap addresses.
        # Pin the generators again at this quiescent point so that the phase under test is a function of the seed.
        ch.rng = random.Random(seed * 7 + 2)
        random.seed(seed + 1)
        ch.p_time = p_time

        mons = {}
        to_start = list(specs)
        post_checked = {}

        def held(kinds, uid=None):
            out = []
            for h in env.net.held:
                if h.done:
                    continue
                a = h.req.get('_s1_action')
                k = a[0] if isinstance(a, tuple) else a
                if k in kinds and (uid is None or h.req.get('_s1_uid') == uid):
                    out.append(h)
            return out

        def start(s):
            uid = s['uid']
            mon = R.Mon(world, uid, T, env.net)
            mon.info = s
            mons[uid] = mon
            plan.started.add(uid)
            plan.epoch_of[uid] = 0
            if s['kind'] == 'bound':
                st = prepared[uid]
            else:
                st = SimpleStatement(R.uid_query(uid), is_idempotent=s['idem'], fetch_size=2 if s['kind'] == 'paged' else None)
            starter.start(mon, st)
            count('requests_started')

        def quiet():
            return cluster.executor.idle() and all(not q for q in env.net.inbound.values())

        def arrivals_of(uid, epoch):
            plan.resolve(env.net.events)
            return [a for a in plan.arrivals if a['uid'] == uid and a['epoch'] == epoch]

        def midcheck():
            """no-time quiescence: every message sent for the epoch answered/failed -> the outcome must be there"""
            if not quiet():
                count('midchecks_skipped_executor_busy')
                return
            with world.inspect():
                for mon in mons.values():
                    if mon.future is None:
                        continue
                    arr = arrivals_of(mon.uid, mon.epoch)
                    if not arr or any(a['answered'] is None for a in arr):
                        continue
                    count('quiescence_checks_all_messages_answered')
                    if not mon.outcomes():
                        # Known interference: the timeout handler of ANOTHER request looked up (its new connection, its old stream id) and
                        # removed this request's handler, so the answer was dropped.  Observable: another request timed out, it has a message
                        # on the connection of one of this request's answered messages and a message with that message's stream id.
                        culprit = None
                        for other in mons.values():
                            if other is mon or other.future is None or not any(_is_oto(x) for x in other.primary.events):
                                continue
                            theirs = [a for a in plan.arrivals if a['uid'] == other.uid]
                            for m in arr:
                                if any(t['conn'] == m['conn'] for t in theirs) and any(t['stream'] == m['stream'] and t is not m for t in theirs):
                                    culprit = (other.uid, m['conn'], m['stream'])
                        if culprit:
                            viol.append(('response-dropped-after-another-requests-timeout',
                                         'uid %d epoch %d at t=%.6f: its message on conn%d stream %d was answered but no callback/errback ran; request uid %d timed out before, '
                                         'it used that connection and (elsewhere) that stream id' % (mon.uid, mon.epoch, world.now, culprit[1], culprit[2], culprit[0]), mon))
                        else:
                            viol.append(('no-outcome-after-all-requests-answered',
                                         'uid %d epoch %d at t=%.6f: %d messages sent, all answered or failed, nothing pending, but no callback/errback ran' % (
                                             mon.uid, mon.epoch, world.now, len(arr)), mon))

        def checkpoints():
            """late registration + result() for every future whose current epoch shows an outcome"""
            for mon in mons.values():
                if mon.future is None or not mon.outcomes() or post_checked.get(mon.uid, -1) >= mon.epoch:
                    continue
                post_checked[mon.uid] = mon.epoch
                with world.inspect():
                    if rng.random() < 0.8:
                        w = mon.watch('late', rng.choice(['pair', 'pair', 'cb-eb', 'eb-cb']))
                        w.immediate = list(w.events)
                        count('late_registrations')
                    try:
                        rs = mon.future.result()
                        mon.results[mon.epoch] = ('cb', rs)
                    except W.WorldHang:
                        mon.results[mon.epoch] = ('hang', None)
                    except W.WorldLimit:
                        raise
                    except Exception as e:      # noqa
                        mon.results[mon.epoch] = ('eb', e)
                    count('result_calls')

        def settle0():
            world.settle(advance=False)
            midcheck()
            checkpoints()

        def next_page(mon):
            cross = rng.random() < 0.3
            outs = mon.outcomes()
            if not outs or mon.epoch >= 5:
                return False
            refetch = False
            if outs[-1][0] != 'cb':
                # a LATER page fetch failed (client timeout, server error, no host): while the paging state of the previous page is still there
                # the application may fetch that page again on the same future (a failed first page leaves nothing to resume)
                if mon.epoch == 0 or getattr(mon, 'refetches', 0) >= 2:
                    return False
                refetch = True
            if not cross:
                # no answer of this epoch crosses into the next one: release what is held and deliver it first
                for h in held(('hold', 'late', 'hold-error'), mon.uid):
                    h.release()
            settle0()
            with world.inspect():
                more = mon.future.has_more_pages
            if not more:
                return False
            mon.next_epoch(env.net)
            plan.epoch_of[mon.uid] = mon.epoch
            mon.future.start_fetching_next_page()
            count('later_page_fetches')
            if refetch:
                mon.refetches = getattr(mon, 'refetches', 0) + 1
                count('page_fetches_repeated_after_a_failed_fetch')
            return True

        if burst:
            while to_start:
                start(to_start.pop(0))
            world.advance_to(world.now + spec_delay * spec_extra + rng.choice([0.01, 0.03]))
            if rng.random() < 0.5:
                rng.choice(list(mons.values())).watch('mid', rng.choice(['pair', 'cb-eb', 'eb-cb']))
                count('mid_registrations')
            c = held(('hold', 'hold-error'))
            rng.shuffle(c)
            for h in c:
                h.release()
            count('burst_histories')
            count('burst_answers_released_together', len(c))
            settle0()
        steps = rng.randint(3, 14) if not burst else rng.randint(0, 4)
        for _ in range(steps):
            r = rng.random()
            if to_start and r < 0.3:
                start(to_start.pop(0))
            elif r < 0.4:
                live = [m for m in mons.values() if m.future is not None and sum(1 for w in m.watches if w.kind == 'mid') < 2]
                if live:
                    rng.choice(live).watch('mid', rng.choice(['pair', 'cb-eb', 'eb-cb']))
                    count('mid_registrations')
            elif r < 0.55:
                c = held(('hold', 'hold-error'))
                if c:
                    rng.choice(c).release()
            elif r < 0.7:
                settle0()
            elif r < 0.85:
                world.advance_to(world.now + rng.choice([0.02, spec_delay, spec_delay + 0.01, 0.3]))
            else:
                paged = [m for m in mons.values() if m.future is not None and m.info['kind'] == 'paged']
                if paged:
                    next_page(rng.choice(paged))
        while to_start:
            start(to_start.pop(0))
            if rng.random() < 0.5:
                world.advance_to(world.now + rng.choice([0.02, spec_delay]))
        # ------------------------------------------------------------ drain
        for rounds in range(8):
            c = held(('hold', 'hold-error'))
            rng.shuffle(c)
            for h in c:
                h.release()
                if rng.random() < 0.4:
                    world.settle(advance=False)
            settle0()
            progressed = False
            for mon in mons.values():
                if mon.future is not None and mon.info['kind'] == 'paged' and rng.random() < 0.8:
                    progressed = next_page(mon) or progressed
            if rng.random() < 0.5:
                world.advance_to(world.now + rng.choice([0.02, spec_delay, 0.3]))
            if not progressed and not held(('hold', 'hold-error')):
                break
        settle0()
        t_end = max([m.epoch_start[-1] + T for m in mons.values()] + [world.now]) + R.EPS
        world.advance_to(t_end)
        settle0()
        late = held(('late', 'hold', 'hold-error'))
        rng.shuffle(late)
        for h in late:
            h.release()
        settle0()
        world.advance_to(world.now + 1.5)
        settle0()

        # ------------------------------------------------------------ final oracle (main keeps the baton)
        world.preempt = False
        plan.resolve(env.net.events)
        for mon in mons.values():
            if mon.raised is not None or mon.future is None:
                viol.append(('execute-async-raised', 'uid %d: execute_async raised %r' % (mon.uid, mon.raised), mon))
                continue
            spec_on = bool(spec_extra) and mon.info['idem']
            for e in range(mon.epoch + 1):
                count('epochs_checked')
                outs = mon.primary.in_epoch(e)
                arr = [a for a in plan.arrivals if a['uid'] == mon.uid and a['epoch'] == e]
                sent = len([a for a in arr if a['op'] != 'PREPARE'])
                answered = len([a for a in arr if a['answered'] is not None])
                lo = mon.epoch_start_ev[e]
                hi = mon.epoch_start_ev[e + 1] if e + 1 < len(mon.epoch_start_ev) else len(env.net.events) + 1
                stale_l = [a for a in plan.arrivals if a['uid'] == mon.uid and a['epoch'] < e and a['answered'] is not None and lo <= a['answered_ev'] < hi]
                stale = len(stale_l)
                if e == mon.epoch:
                    count('timeout_elapsed_checks')
                if len(outs) == 0:
                    if e == mon.epoch:
                        # the timeout of this (the last) page fetch has elapsed: virtual time is past its start + T + eps and all due timers ran
                        viol.append(('no-outcome-after-timeout-elapsed', 'uid %d page fetch %d: no callback/errback although the %.1f s timeout elapsed %.2f s ago' % (
                            mon.uid, e + 1, T, world.now - mon.epoch_start[e] - T), mon))
                    for w in mon.watches[1:]:
                        if w.in_epoch(e):
                            viol.append(('callback-invoked-for-some-registrations-only', 'uid %d epoch %d: registration %s saw %s, the first registration nothing' % (
                                mon.uid, e, w.kind, [_short(x) for x in w.in_epoch(e)]), mon))
                    continue
                if len(outs) > 1:
                    count('epochs_with_multiple_completions')
                    for slug in classify_multi(outs, arr, stale_l, spec_on):
                        count('seen:' + slug)
                        viol.append((slug, 'uid %d epoch %d: %d outcomes for one registration: %s (messages sent %d, answered/failed %d, answers to messages of earlier epochs %d, speculative executions %s)' % (
                            mon.uid, e, len(outs), [_short(x) for x in outs], sent, answered, stale, 'on' if spec_on else 'off'), mon))
                    continue
                # exactly one outcome for the first registration: everybody must agree on it
                count('epochs_with_single_completion')
                o = outs[0]
                if mon.info['kind'] == 'paged' and o[0] == 'cb' and o[3]:
                    # the rows echo the page they belong to: the outcome of a page fetch must answer a message sent for THIS page fetch
                    count('page_outcomes_attributed')
                    got_pages = set((echo_id(r) % 1000) // 10 for r in o[3])
                    asked = set(a['page'] for a in arr if a['op'] != 'PREPARE')
                    if not (got_pages <= asked):
                        slug = 'earlier-page-execution-completes-later-page-fetch' if stale_l else 'page-fetch-completed-with-rows-of-another-page'
                        count('seen:' + slug)
                        viol.append((slug, 'uid %d epoch %d: the page fetch asked for page(s) %s but completed with rows of page %s: %s (answers to messages of earlier epochs during this one: %d)' % (
                            mon.uid, e, sorted(asked), sorted(got_pages), _short(o), stale), mon))
                for w in mon.watches[1:]:
                    if w.epoch > e:
                        continue
                    got = w.in_epoch(e)
                    count('registrations_compared')
                    if len(got) == 0:
                        viol.append(('registered-callback-never-invoked', 'uid %d epoch %d: registration %s (made in epoch %d) saw nothing, outcome was %s' % (
                            mon.uid, e, w.kind, w.epoch, _short(o)), mon))
                    elif len(got) > 1:
                        viol.append(('registered-callback-invoked-more-than-once', 'uid %d epoch %d: registration %s saw %s, the first registration only %s' % (
                            mon.uid, e, w.kind, [_short(x) for x in got], _short(o)), mon))
                    elif got[0][0] != o[0] or got[0][3] is not o[3]:
                        viol.append(('registrations-disagree-on-outcome', 'uid %d epoch %d: registration %s saw %s, the first registration %s' % (
                            mon.uid, e, w.kind, _short(got[0]), _short(o)), mon))
                    if w.kind == 'late' and w.epoch == e and w.immediate is not None:
                        count('late_registrations_checked')
                        if len(w.immediate) != 1:
                            viol.append(('late-registration-not-fired-immediately-once', 'uid %d epoch %d: add_callbacks after completion invoked %d functions before returning' % (
                                mon.uid, e, len(w.immediate)), mon))
                res = mon.results.get(e)
                if res is not None:
                    count('result_calls_compared')
                    if res[0] == 'hang':
                        viol.append(('result-blocks-after-completion', 'uid %d epoch %d: result() blocks although %s was delivered' % (mon.uid, e, _short(o)), mon))
                    elif res[0] != o[0]:
                        viol.append(('result-disagrees-with-callbacks', 'uid %d epoch %d: result() %s but callbacks saw %s' % (
                            mon.uid, e, 'returned' if res[0] == 'cb' else 'raised %r' % (res[1],), _short(o)), mon))
                    elif res[0] == 'eb' and res[1] is not o[3]:
                        viol.append(('result-disagrees-with-callbacks', 'uid %d epoch %d: result() raised %r, errback got %r' % (mon.uid, e, res[1], o[3]), mon))
                    elif res[0] == 'cb':
                        v = o[3]
                        rows = res[1]._current_rows
                        same = (rows is v) if v is not None else (rows == [])
                        if not same:
                            viol.append(('result-disagrees-with-callbacks', 'uid %d epoch %d: result() rows %r, callback got %r' % (mon.uid, e, rows, v), mon))
        for mon in mons.values():
            mon.frozen = True
        harness = list(world.errors) + [('parse', p) for p in env.net.parse_failures] + [('plan', u) for u in plan.unexpected]
        sig = tuple(x[:2] for x in world.trace)
        info = {'seed': seed, 'burst': burst, 'nodes': nnodes, 'spec_extra': spec_extra, 'spec_delay': spec_delay, 'timeout': T, 'p_time': p_time, 'p_preempt': p_preempt,
                'requests': [dict(s) for s in specs], 'retry_decisions': len(retry.calls), 'messages': len(plan.arrivals),
                'answered': sum(1 for a in plan.arrivals if a['answered'] is not None)}
        hist = {}
        for mon in mons.values():
            hist[mon.uid] = {'kind': mon.info['kind'], 'idempotent': mon.info['idem'], 'epochs': mon.epoch + 1,
                             'registrations': [(w.kind, w.epoch, [_short(x) + '/e%d' % x[1] for x in w.events]) for w in mon.watches],
                             'messages': [(a['epoch'], a['op'], a['node'], 'conn%d' % a['conn'], a['stream'], round(a['t'], 4), a['action'], a['answered'])
                                          for a in plan.arrivals if a['uid'] == mon.uid]}
        info['retry_calls'] = [c for c in retry.calls][:20]
        cluster.shutdown()
        world.settle()
    return viol, harness, sig, info, hist, cnt


def run(ctx):
    from vlib import shim
    shim.import_cluster()
    from vlib.run import Inconclusive
    from sim.world import WorldLimit
    ctx.rule = ("a case is one seeded history (1-4 nodes, 1-3 requests simple/bound/paged, 0-2 speculative executions, seeded retry decisions, "
                "per-message node behaviour rows/void/hold/late/silent/error/unprepared/close/reset, registration points, schedule); distinct by "
                "event-order signature of the world trace; non-trivial = at least one message was answered")
    ctx.assume("callback invocations are attributed to the page epoch current when they run; in 30 % of the page transitions answers of the finished epoch "
               "are left outstanding on purpose (an answer crossing into a later epoch is classified by the messages answered during that epoch)")
    ctx.assume("void results are not served for paged statements; UNPREPARED is served to EXECUTE only")
    n = ctx.scale(4000, 200000)
    budget = 14 if ctx.quick else 130      # CPU seconds of this worker (ctx.time_left), wall is capped at 4x
    base = ctx.seed * 1000003 + (ctx.worker or 0) * 100003
    # budget by time, but never fewer histories than the floors need (a loaded machine must not turn the verdict inconclusive)
    at_least = 70 if ctx.quick else 300
    for i in range(n):
        if ctx.time_left(budget) < 0 and i >= at_least:
            ctx.note("stopped by time budget after %d histories" % i)
            break
        seed = base + i
        try:
            viol, harness, sig, info, hist, cnt = run_history(seed)
        except WorldLimit:
            ctx.count("histories_over_budget")
            continue
        except Exception as e:
            import traceback
            raise Inconclusive("history seed %d failed in the harness: %s: %s\n%s" % (seed, type(e).__name__, e, traceback.format_exc()[-1200:]))
        if harness:
            raise Inconclusive("harness error in history seed %d: %r" % (seed, harness[:2]))
        ctx.case(repr(sig), nontrivial=info['answered'] >= 1)
        ctx.count("histories")
        ctx.count("messages_sent_for_requests", info['messages'])
        ctx.count("messages_answered_or_failed", info['answered'])
        ctx.count("retry_decisions", info['retry_decisions'])
        for k, v in cnt.items():
            ctx.count(k, v)
        seen = set()
        for mech, what, mon in viol:
            if mech in seen:
                continue
            seen.add(mech)
            ctx.violation(mech, "%s [seed %d]" % (what, seed), {"seed": seed, "info": info, "future": hist.get(mon.uid)})
        if not viol and len(ctx.samples) < 4 and info['retry_decisions'] and info['messages'] >= 3:
            ctx.sample({"info": info, "futures": hist})
    ctx.floor_distinct = 120 if ctx.quick else 2000
    ctx.floor_counters = {"histories": 150, "epochs_with_single_completion": 150, "registrations_compared": 300, "late_registrations_checked": 80,
                          "result_calls_compared": 100, "quiescence_checks_all_messages_answered": 150, "retry_decisions": 50,
                          "later_page_fetches": 20, "timeout_elapsed_checks": 150, "burst_histories": 40, "page_fetches_repeated_after_a_failed_fetch": 12,
                          "burst_answers_released_together": 80}
