"""C19 - unknown prepared statements are transparently re-prepared.

Monitor: the real Cluster/Session/pool/Connection/ResponseFuture stack runs in the deterministic world against 1-3
scripted wire-level nodes (protocol v3, v4, DSE v1 = 0x41 - which, like v3/v4, does NOT carry a keyspace in PREPARE - and
DSE v2 = 0x42, the keyspace-carrying PREPARE variant the scripted node can speak; v5/v6 need segment framing, which it
cannot).  A statement is prepared through session.prepare() (the node's
statement id is md5(keyspace NUL query), so it depends on the connection keyspace exactly like a real node's), then
executed; the first host of the scripted plan answers EXECUTE with UNPREPARED.  The PREPARE that follows is answered
with {same id, a different id, an error, connection reset/close, silence}; the re-sent EXECUTE with rows / void /
errors / UNPREPARED again.  Keyspace scenarios: none, session keyspace, session keyspace changed between prepare and
execute (ids no longer match), keyspace passed to session.prepare (DSE v2), PreparedStatement.keyspace set on a
protocol that does not carry it (the "keyspace no longer matches" branch).  The statement object executed is the one
the cluster's weak statement cache holds, or the first of two objects prepared for the same query after the later one was
dropped (the cache entry goes with it), or one prepared through another Cluster of the same world.

Oracle over the node-side trace (every EXECUTE of the statement id / PREPARE of the statement text that reached any
node, in arrival order) and the client outcome: equal to the trace of a reference walk - PREPARE on the same host with
the same text (and keyspace where the protocol carries it), then the original EXECUTE again on that host; on id
mismatch / keyspace mismatch / PREPARE error / silence the request fails with that error and NO further frame for it
reaches any node; on connection loss during PREPARE it moves on along the plan; the future completes exactly once.

A second family (every fifth history) has a PREPARE answer arrive AFTER the request failed: two re-prepare flows at once
(idempotent statement, speculative execution on a second host, both hosts answer UNPREPARED; one PREPARE answer fails
the request, the other host's successful answer is delivered afterwards), or the client timeout firing while the
PREPARE is outstanding.  Same oracle: nothing is sent for a request that has failed.
"""
import hashlib
import random

PROPERTY = "C19"
LEVEL = "exploration"
ENGINE = "sim"
TECHNIQUE = "runtime monitor in a deterministic world: node-side EXECUTE/PREPARE trace and outcome vs. a reference walk over scripted UNPREPARED / PREPARE / EXECUTE answers"
LEVEL_TEXT = ("Hundreds (quick) to thousands (thorough) of seeded histories over protocol {3, 4, DSE v2} x 1-3 hosts x 7 keyspace scenarios x "
              "PREPARE answered with {same id, other id, 7 error kinds, reset, close, silence} x re-sent EXECUTE answered with rows / void / "
              "10 error kinds / UNPREPARED again. Every frame of the request that reached a node, the keyspace and text of the PREPARE, the "
              "outcome and the number of completions are compared with the reference walk. Held-on-observed histories (sampled, small space).")
LEVEL_NOTE = ("Trusted base: sim/world.py, sim/node.py (statement id = md5(keyspace NUL text)), spec/frames.py, the reference walk here. "
              "Protocol v5 is not covered (the scripted node does not speak segments): DSE v2 stands in for the keyspace-carrying PREPARE. "
              "The 'keyspace does not match' branch is unreachable through session.prepare on v3/v4 (PreparedStatement.keyspace is only set "
              "from the keyspace= argument, which v3/v4 cannot encode): the harness sets the public attribute. No timeout/response races: "
              "virtual time is advanced explicitly, only to let the client timeout fire on a silent node and to watch for late frames.")
QUICK_WORKERS = 4
WORKERS = 14

PREPARE_ERRORS = ['invalid', 'syntax', 'unauthorized', 'config', 'server', 'overloaded', 'is_bootstrapping']
REQUEST_TIMEOUT = 2.0


def prepare_error_class(kind):
    import cassandra
    from cassandra import protocol as P
    return {'invalid': cassandra.InvalidRequest, 'unauthorized': cassandra.Unauthorized, 'syntax': P.SyntaxException,
            'config': P.ConfigurationException, 'server': P.ServerError, 'overloaded': P.OverloadedErrorMessage,
            'is_bootstrapping': P.IsBootstrappingErrorMessage}[kind]


def is_request_frame(q, query_id):
    """the original request of the history: an EXECUTE of the statement id, or a BATCH that contains it"""
    if q['op'] == 'EXECUTE':
        return q.get('query_id') == query_id
    if q['op'] == 'BATCH':
        return any(x[0] == 'id' and x[1] == query_id for x in q['queries'])
    return False


def reference(order, reaction, answers, natural_mismatch, value_error):
    """-> (frames [(op, host)], outcome).  answers[i] = how EXECUTE arrival i is answered: 'unprepared' | 'rows' | 'void' |
    ('err', errgen-dict) | ('final-err', kind)."""
    frames = []
    pos = 1
    ai = 0
    if not order:
        return frames, ('nohost',)
    h = order[0]
    frames.append(('EXECUTE', h))
    first = True
    while True:
        a = answers[min(ai, len(answers) - 1)]
        ai += 1
        if a == 'unprepared':
            if value_error:
                return frames, ('valueerror',)
            frames.append(('PREPARE', h))
            r = reaction if first else 'same'
            first = False
            if r == 'same' and natural_mismatch:
                r = 'diff'
            if r == 'same':
                frames.append(('EXECUTE', h))
                continue
            if r == 'diff':
                return frames, ('mismatch',)
            if r == 'silent':
                return frames, ('timeout',)
            if r in ('reset', 'close'):
                if pos < len(order):
                    h = order[pos]
                    pos += 1
                    frames.append(('EXECUTE', h))
                    continue
                return frames, ('nohost',)
            return frames, ('prepare-error', r[1])
        if a in ('rows', 'void'):
            return frames, ('ok', a, h)
        if a[0] == 'err':
            return frames, ('rethrow', a[1])
        return frames, ('final-err', a[1])


def run_history(seed):
    from sim.env import SimEnv
    from sim import world as W
    from sim.scen import Plan, Recorder, echoed_uid, uid_query
    from sim import s2_common as C
    from spec import frames as F
    import cassandra
    from cassandra import OperationTimedOut, DriverException
    from cassandra.cluster import ExecutionProfile, EXEC_PROFILE_DEFAULT, NoHostAvailable
    from cassandra.policies import ConstantReconnectionPolicy

    rng = random.Random(seed)
    random.seed(seed)
    n = rng.choice([1, 2, 2, 3])
    addrs = ['127.0.0.%d' % (i + 1) for i in range(n)]
    proto = rng.choice([3, 4, 4, 4, 0x41, 0x41, 0x42, 0x42])      # v3, v4, DSE v1 (no keyspace in PREPARE), DSE v2 (keyspace in PREPARE)
    carries_ks = proto == 0x42
    ch = W.RandomChooser(random.Random(seed * 19 + 1), p_time=0.0, p_preempt=rng.choice([0.0, 0.0, 0.1, 0.3]))
    env = SimEnv(W.PrefixChooser([]), addresses=addrs)
    plan = Plan()
    armed = {'a': None}
    prepares_seen = []

    def behaviour(node, cstate, req):
        a = armed['a']
        if req['op'] == 'PREPARE':
            prepares_seen.append((node.address, req['query'], req.get('keyspace'), cstate.keyspace))
        if req['op'] == 'PREPARE' and a is not None and not a['used'] and req['query'] == a['text']:
            a['used'] = True
            plan.behaviour(node, cstate, req)
            r = a['reaction']
            if r == 'same':
                return None
            if r == 'diff':
                other = hashlib.md5(b'another statement ' + a['text'].encode()).digest()
                plan.prepared[other] = a['text']
                return node.reply(cstate, req, 'RESULT', F.body_result_prepared(req['version'], other, [], [], [], b'\x00' * 16,
                                                                                 result_md={'global_spec': False}))
            if r in ('reset', 'close'):
                return (r,)
            if r == 'silent':
                return ('silence',)
            return node.error(cstate, req, r[1], 'scripted %s' % r[1])
        return plan.behaviour(node, cstate, req)

    for nd in env.net.nodes.values():
        nd.behaviour = behaviour
    lbp = C.make_fixed_plan_policy()
    pol = C.make_oracle_retry_policy(script=[])          # every consultation: RETHROW
    errgen = C.ErrGen(rng)
    viol, infos = [], []
    # which PreparedStatement object is executed: the one the cluster's (weak) statement cache holds; the FIRST of two objects prepared
    # for the same query after the second was dropped (the cache entry goes with it); or one prepared through another Cluster object
    psmode = rng.choices(['cached', 'first-of-two-later-dropped', 'other-cluster'], [6, 3, 1])[0]
    # the request that carries the statement id: EXECUTE of the bound statement, or a BATCH of it (alone / mixed with a simple statement)
    form = rng.choice(['execute', 'execute', 'execute', 'batch', 'batch-mixed'])
    if form != 'execute':
        psmode = 'cached'       # a batch future has no statement object of its own: only the cluster's cache can name the text
    with env:
        session2 = None
        if psmode == 'other-cluster':
            cluster2 = env.cluster(protocol_version=proto, reconnection_policy=ConstantReconnectionPolicy(5000.0),
                                   execution_profiles={EXEC_PROFILE_DEFAULT: ExecutionProfile(load_balancing_policy=C.make_fixed_plan_policy())})
            session2 = cluster2.connect()
            env.world.settle(advance=False)
        cluster = env.cluster(protocol_version=proto, reconnection_policy=ConstantReconnectionPolicy(5000.0),
                              execution_profiles={EXEC_PROFILE_DEFAULT: ExecutionProfile(load_balancing_policy=lbp, retry_policy=pol)})
        session = C.connect_deterministically(env, cluster, ch)
        rec = Recorder(env.world)
        # ---- keyspace scenario
        if psmode == 'other-cluster':
            ksmode = rng.choice(['none', 'param']) if carries_ks else 'none'      # the other session's connections stay without keyspace
        elif carries_ks:
            ksmode = rng.choice(['none', 'session', 'changed', 'param', 'param+session', 'param+changed'])
        else:
            ksmode = rng.choice(['none', 'none', 'session', 'changed', 'attr-mismatch', 'attr-mismatch-session', 'attr-match'])
        if form != 'execute' and ksmode == 'changed':
            ksmode = 'session'      # id mismatch is only checked for a future with its own statement: not generated for batches
        uid = 1
        text = uid_query(uid, ' WHERE k = %d' % rng.randint(0, 99))
        if ksmode in ('session', 'changed', 'param+session', 'param+changed', 'attr-match'):
            session.set_keyspace('ks1')
            env.world.settle(advance=False)
        kw = {'keyspace': 'ksA'} if ksmode.startswith('param') else {}
        ps = (session2 or session).prepare(text, **kw)
        env.world.settle(advance=False)
        if psmode == 'first-of-two-later-dropped':
            later = session.prepare(text, **kw)
            env.world.settle(advance=False)
            del later            # reference counting frees it; the weak cache entry registered last for this id goes with it
        with env.world.inspect():
            in_cache = cluster._prepared_statements.get(ps.query_id) is ps
        if ksmode in ('changed', 'param+changed', 'attr-mismatch-session'):
            session.set_keyspace('ks2')
            env.world.settle(advance=False)
        if ksmode.startswith('attr-'):
            ps.keyspace = 'ks1'
        natural_mismatch = ksmode == 'changed'
        value_error = ksmode in ('attr-mismatch', 'attr-mismatch-session')
        # ---- script
        order = rng.sample(addrs, rng.randint(1, n))
        reaction = rng.choices(['same', 'diff', 'error', 'reset', 'close', 'silent'], [30, 20, 15, 10, 10, 8])[0]
        if reaction == 'error':
            reaction = ('error', rng.choice(PREPARE_ERRORS))
        if (natural_mismatch or form != 'execute') and reaction == 'diff':
            reaction = 'same'

        def final_answer():
            r = rng.random()
            if r < 0.5:
                return rng.choice(['rows', 'void'])
            if r < 0.85:
                return ('err', errgen.make(rng.choice(C.SERVER_KINDS)))
            return ('final-err', rng.choice(['invalid', 'syntax', 'unauthorized']))
        answers = ['unprepared']
        if rng.random() < 0.2 and reaction != 'diff' and not natural_mismatch:
            answers.append('unprepared')
        answers.append(final_answer())
        if answers[-1] not in ('rows', 'void'):
            answers.append('rows')           # only reached if the driver goes on after the failure

        def action_of(a):
            if a == 'unprepared' and form != 'execute':
                # a BATCH frame has no single id: the node names the one it does not know
                return lambda node, cstate, req, uid_: node.error(cstate, req, 'unprepared', 'unprepared', query_id=ps.query_id)
            if a in ('unprepared', 'rows', 'void'):
                return a
            if a[0] == 'err':
                return a[1]['action']
            return ('error', a[1], {})
        plan.set(uid, [action_of(a) for a in answers])
        frames, outcome = reference(order, reaction, answers, natural_mismatch, value_error)
        cl = rng.choice(C.CLS)
        bound = ps.bind(())
        bound.consistency_level = cl
        if form != 'execute':
            from cassandra.query import BatchStatement, SimpleStatement
            inner = bound
            bound = BatchStatement(consistency_level=cl)
            if form == 'batch-mixed' and rng.random() < 0.5:
                bound.add(SimpleStatement("INSERT INTO ks.t (k, v) VALUES (1, 2)"))
            bound.add(inner)
            if form == 'batch-mixed' and len(bound._statements_and_parameters) == 1:
                bound.add(SimpleStatement("INSERT INTO ks.t (k, v) VALUES (3, 4)"))
        armed['a'] = dict(text=text, reaction=reaction, used=False)
        lbp.order = list(order)
        mark = len(env.net.wire_log)
        with env.world.inspect():       # callbacks are registered before any answer can be processed (no late-registration artefacts)
            rec.execute_async(session, uid, statement=bound, timeout=REQUEST_TIMEOUT)
        env.world.settle(advance=False)
        with env.world.inspect():
            outs_before_time = len(rec.outcomes(uid))
            frames_before_time = sum(1 for q in env.net.wire_log[mark:] if is_request_frame(q, ps.query_id)
                                     or q['op'] == 'PREPARE' and q.get('query') == text)
        env.world.advance_to(env.world.now + REQUEST_TIMEOUT + 1.5)
        env.world.settle(advance=False)
        lbp.order = None
        with env.world.inspect():
            obs = []
            for q in env.net.wire_log[mark:]:
                if is_request_frame(q, ps.query_id):
                    obs.append(('EXECUTE', q['_node'], q.get('consistency'), None, None))      # 'EXECUTE' = the original request (EXECUTE or BATCH)
                elif q['op'] == 'PREPARE' and q.get('query') == text:
                    obs.append(('PREPARE', q['_node'], None, q.get('keyspace'), q.get('query')))
                elif q['op'] == 'PREPARE':
                    obs.append(('PREPARE-OTHER-TEXT', q['_node'], None, q.get('keyspace'), q.get('query')))
            outs = rec.outcomes(uid)
            info = dict(seed=seed, proto=proto, nodes=n, plan=order, keyspace_scenario=ksmode, prepare_answer=reaction, statement_object=psmode, request_form=form,
                        statement_object_in_cluster_cache=in_cache,
                        execute_answers=[a if isinstance(a, str) else (a[0], a[1]['kind'] if a[0] == 'err' else a[1]) for a in answers],
                        node_trace=[(o[0], o[1], o[3]) for o in obs], expected_trace=frames, expected_outcome=outcome[:2] if outcome[0] != 'rethrow' else ('rethrow', outcome[1]['kind']),
                        outcomes=[(o[0], repr(o[3])[:200]) for o in outs], frames_before_time_passed=frames_before_time,
                        consultations=len(pol.log))
            v = judge(C, obs, outs, frames, outcome, reaction, natural_mismatch, carries_ks, ksmode, text, cl, uid, echoed_uid,
                      dict(NoHostAvailable=NoHostAvailable, OperationTimedOut=OperationTimedOut, DriverException=DriverException), outs_before_time)
            for mech, what in v:
                viol.append((mech, what, info))
            infos.append(info)
        pol.closed = True
        harness = C.harness_problems(env)
        env.world.preempt = False
        cluster.shutdown()
        env.world.settle()
        if session2 is not None:
            cluster2.shutdown()
            env.world.settle()
    return viol, harness, infos


def run_late_history(seed):
    """A PREPARE answer that arrives after the request has already FAILED must not make the driver send anything.
    two-flow: idempotent statement + speculative execution, EXECUTE outstanding on two hosts, both answer UNPREPARED, a PREPARE goes
    to each; one PREPARE answer fails the request (other id / error), the other host's successful answer is delivered afterwards.
    timeout: single flow, the client timeout fires while the PREPARE is outstanding, then the (successful) answer arrives."""
    from sim.env import SimEnv
    from sim import world as W
    from sim.scen import Plan, Recorder, echoed_uid, uid_query
    from sim import s2_common as C
    from spec import frames as F
    from cassandra import OperationTimedOut, DriverException
    from cassandra.cluster import ExecutionProfile, EXEC_PROFILE_DEFAULT, NoHostAvailable
    from cassandra.policies import ConstantReconnectionPolicy, ConstantSpeculativeExecutionPolicy

    rng = random.Random(seed)
    random.seed(seed)
    variant = rng.choice(['two-flow', 'two-flow', 'two-flow', 'timeout'])
    n = rng.choice([2, 3]) if variant == 'two-flow' else rng.choice([1, 2])
    addrs = ['127.0.0.%d' % (i + 1) for i in range(n)]
    proto = rng.choice([3, 4, 4, 0x41, 0x42])
    ch = W.RandomChooser(random.Random(seed * 23 + 9), p_time=0.0, p_preempt=rng.choice([0.0, 0.0, 0.1, 0.3]))
    env = SimEnv(W.PrefixChooser([]), addresses=addrs)
    plan = Plan()
    uid = 1
    text = uid_query(uid, ' WHERE k = %d' % rng.randint(0, 99))
    script = {}
    armed = [False]
    spec_delay = 0.2

    def behaviour(node, cstate, req):
        if req['op'] == 'PREPARE' and armed[0] and req['query'] == text:
            plan.behaviour(node, cstate, req)
            r = script.get(node.address, 'same')
            if r == 'same':
                return None
            if r == 'same-held':
                return ('hold', node.default_reaction(cstate, req)[1])
            if r == 'diff':
                other = hashlib.md5(b'another statement ' + text.encode()).digest()
                plan.prepared[other] = text
                return node.reply(cstate, req, 'RESULT', F.body_result_prepared(req['version'], other, [], [], [], b'\x00' * 16,
                                                                                 result_md={'global_spec': False}))
            return node.error(cstate, req, r[1], 'scripted %s' % r[1])
        return plan.behaviour(node, cstate, req)

    def held_unprepared(node, cstate, req, uid_):
        return ('hold', node.error(cstate, req, 'unprepared', 'unprepared', query_id=req['query_id'])[1])

    for nd in env.net.nodes.values():
        nd.behaviour = behaviour
    lbp = C.make_fixed_plan_policy()
    pol = C.make_oracle_retry_policy(script=[])
    viol, infos = [], []

    def release(pred):
        hit = [h for h in env.net.held if not h.done and pred(h)]
        for h in hit:
            h.release()
        env.world.settle(advance=False)
        return len(hit)

    with env:
        prof = ExecutionProfile(load_balancing_policy=lbp, retry_policy=pol,
                                speculative_execution_policy=ConstantSpeculativeExecutionPolicy(spec_delay, 1) if variant == 'two-flow' else None)
        cluster = env.cluster(protocol_version=proto, reconnection_policy=ConstantReconnectionPolicy(5000.0),
                              execution_profiles={EXEC_PROFILE_DEFAULT: prof})
        session = C.connect_deterministically(env, cluster, ch)
        rec = Recorder(env.world)
        ps = session.prepare(text)
        env.world.settle(advance=False)
        order = rng.sample(addrs, n)
        cl = rng.choice(C.CLS)
        bound = ps.bind(())
        bound.consistency_level = cl
        mark = len(env.net.wire_log)
        steps_ok = True
        if variant == 'two-flow':
            a_host, b_host = order[0], order[1]
            failing = rng.choice([a_host, b_host])
            late = b_host if failing == a_host else a_host
            fail_how = rng.choice(['diff', 'diff', ('error', rng.choice(PREPARE_ERRORS))])
            script[failing] = fail_how
            script[late] = 'same-held'
            plan.set(uid, [held_unprepared, held_unprepared, 'rows'])
            bound.is_idempotent = True
            armed[0] = True
            lbp.order = list(order)
            with env.world.inspect():
                rec.execute_async(session, uid, statement=bound, timeout=20.0)
            env.world.settle(advance=False)
            env.world.advance_to(env.world.now + spec_delay * 2 + 0.05)      # the speculative execution goes to the second host
            env.world.settle(advance=False)
            # UNPREPARED from the host whose PREPARE will be answered late, then from the one whose PREPARE fails the request
            steps_ok &= release(lambda h: h.req['op'] == 'EXECUTE' and h.node.address == late) == 1
            steps_ok &= release(lambda h: h.req['op'] == 'EXECUTE' and h.node.address == failing) == 1
            with env.world.inspect():
                outs_before = len(rec.outcomes(uid))
            steps_ok &= release(lambda h: h.req['op'] == 'PREPARE' and h.node.address == late) == 1     # the late, successful answer
            frames = [('EXECUTE', a_host), ('EXECUTE', b_host), ('PREPARE', late), ('PREPARE', failing)]
            outcome = ('mismatch',) if fail_how == 'diff' else ('prepare-error', fail_how[1])
            outs_before_time = 0
            label = 'two-flow:%s' % (fail_how if isinstance(fail_how, str) else fail_how[1])
        else:
            a_host = order[0]
            script[a_host] = 'same-held'
            plan.set(uid, ['unprepared', 'rows'])
            armed[0] = True
            lbp.order = list(order)
            with env.world.inspect():
                rec.execute_async(session, uid, statement=bound, timeout=REQUEST_TIMEOUT)
            env.world.settle(advance=False)
            with env.world.inspect():
                outs_before_time = len(rec.outcomes(uid))
            env.world.advance_to(env.world.now + REQUEST_TIMEOUT + 0.5)      # client timeout while the PREPARE is outstanding
            env.world.settle(advance=False)
            with env.world.inspect():
                outs_before = len(rec.outcomes(uid))
            steps_ok &= release(lambda h: h.req['op'] == 'PREPARE' and h.node.address == a_host) == 1
            frames = [('EXECUTE', a_host), ('PREPARE', a_host)]
            outcome = ('timeout',)
            label = 'timeout-then-answer'
        env.world.advance_to(env.world.now + 1.0)
        env.world.settle(advance=False)
        lbp.order = None
        with env.world.inspect():
            obs = []
            for q in env.net.wire_log[mark:]:
                if is_request_frame(q, ps.query_id):
                    obs.append(('EXECUTE', q['_node'], q.get('consistency'), None, None))      # 'EXECUTE' = the original request (EXECUTE or BATCH)
                elif q['op'] == 'PREPARE' and q.get('query') == text:
                    obs.append(('PREPARE', q['_node'], None, q.get('keyspace'), q.get('query')))
                elif q['op'] == 'PREPARE':
                    obs.append(('PREPARE-OTHER-TEXT', q['_node'], None, q.get('keyspace'), q.get('query')))
            outs = rec.outcomes(uid)
            info = dict(seed=seed, proto=proto, nodes=n, plan=order, keyspace_scenario='none', prepare_answer='late-answer:' + label,
                        execute_answers=['unprepared'] * (2 if variant == 'two-flow' else 1), node_trace=[(o[0], o[1], o[3]) for o in obs],
                        expected_trace=frames, expected_outcome=outcome[:2], outcomes=[(o[0], repr(o[3])[:200]) for o in outs],
                        completed_before_late_answer=outs_before, late=True)
            got = [(o[0], o[1]) for o in obs]
            if not steps_ok or got[:len(frames)] != frames or outs_before != 1:
                # the scripted situation (request failed, one PREPARE answer still to come) was not reached: nothing to judge here
                info['situation_reached'] = False
            else:
                info['situation_reached'] = True
                v = judge(C, obs, outs, frames, outcome, None, False, proto == 0x42, 'none', text, cl, uid, echoed_uid,
                          dict(NoHostAvailable=NoHostAvailable, OperationTimedOut=OperationTimedOut, DriverException=DriverException), outs_before_time)
                for mech, what in v:
                    viol.append((mech, what, info))
            infos.append(info)
        pol.closed = True
        harness = C.harness_problems(env)
        env.world.preempt = False
        cluster.shutdown()
        env.world.settle()
    return viol, harness, infos


def judge(C, obs, outs, frames, outcome, reaction, natural_mismatch, carries_ks, ksmode, text, cl, uid, echoed_uid, X, outs_before_time):
    v = []
    got = [(o[0], o[1]) for o in obs]
    # -- content of the PREPAREs
    for o in obs:
        if o[0] == 'PREPARE-OTHER-TEXT':
            v.append(('reprepare-with-different-query-text', 'PREPARE %r reached %s; the statement is %r' % (o[4], o[1], text)))
            return v
        if o[0] == 'PREPARE':
            want_ks = 'ksA' if (carries_ks and ksmode.startswith('param')) else None
            if o[3] != want_ks:
                v.append(('reprepare-keyspace-not-the-prepared-one', 'PREPARE on %s carried keyspace %r, the statement was prepared with %r' % (o[1], o[3], want_ks)))
                return v
        if o[0] == 'EXECUTE' and o[2] != cl:
            v.append(('resent-execute-differs-from-original', 'EXECUTE on %s carried consistency %r, the original had %r' % (o[1], o[2], cl)))
            return v
    # -- the trace
    if got != frames:
        k = 0
        while k < min(len(got), len(frames)) and got[k] == frames[k]:
            k += 1
        failed = outcome[0] in ('mismatch', 'valueerror', 'prepare-error', 'timeout')
        if k == len(frames) and failed:
            extra = got[k:]
            first_is_failure = bool(outs) and outs[0][0] == 'eb'
            if (outcome[0] == 'mismatch' and extra == [('EXECUTE', frames[-1][1])] and first_is_failure
                    and isinstance(outs[0][3], X['DriverException']) and 'ID mismatch' in str(outs[0][3])):
                v.append(('execute-resent-after-reprepare-id-mismatch',
                          're-prepare on %s returned another statement id: the future failed with the ID-mismatch error and the original EXECUTE '
                          'was sent to %s again all the same (%d completions)' % (frames[-1][1], frames[-1][1], len(outs))))
            else:
                v.append(('frame-sent-after-the-request-failed', 'expected failure %r after %r, yet further frames %r reached nodes' % (outcome[:2], frames, extra)))
        elif k == len(frames):
            v.append(('frame-sent-beyond-the-reference-walk', 'further frames %r after %r' % (got[k:], frames)))
        elif k == len(got):
            nxt = frames[k]
            if nxt[0] == 'PREPARE':
                v.append(('unprepared-answer-not-followed-by-prepare', 'no PREPARE reached %s after its UNPREPARED answer (trace %r)' % (nxt[1], got)))
            elif k > 0 and frames[k - 1][0] == 'PREPARE' and frames[k - 1][1] == nxt[1]:
                v.append(('execute-not-resent-after-successful-reprepare', 're-prepare on %s succeeded but the original EXECUTE was not sent again (trace %r)' % (nxt[1], got)))
            else:
                v.append(('request-not-continued-on-next-host', 'expected %r next, trace ends %r' % (nxt, got)))
        else:
            if got[k][0] == frames[k][0]:
                v.append(('reprepare-or-resend-on-another-host', 'frame %d: %r, reference walk %r' % (k, got[k], frames[k])))
            else:
                v.append(('unexpected-frame-kind', 'frame %d: %r, reference walk %r' % (k, got[k], frames[k])))
        return v
    # -- outcome, exactly once
    if not outs:
        v.append(('no-outcome-delivered', 'the request never completed (reference outcome %r)' % (outcome[:2],)))
        return v
    if len(outs) != 1:
        v.append(('completed-more-than-once', '%d completions: %r' % (len(outs), [(o[0], repr(o[3])[:80]) for o in outs])))
        return v
    o = outs[0]
    k = outcome[0]
    ok = True
    if k == 'ok':
        if o[0] != 'cb':
            ok = False
        elif outcome[1] == 'rows':
            rows = list(o[3] or [])
            ok = echoed_uid(rows) == uid and rows[0].node == outcome[2]
        else:
            ok = o[3] is None
    elif k == 'mismatch':
        ok = o[0] == 'eb' and isinstance(o[3], X['DriverException']) and 'ID mismatch' in str(o[3])
    elif k == 'valueerror':
        ok = o[0] == 'eb' and isinstance(o[3], ValueError)
    elif k == 'prepare-error':
        ok = o[0] == 'eb' and type(o[3]) is prepare_error_class(outcome[1])
    elif k == 'timeout':
        ok = o[0] == 'eb' and isinstance(o[3], X['OperationTimedOut']) and outs_before_time == 0
    elif k == 'nohost':
        ok = o[0] == 'eb' and isinstance(o[3], X['NoHostAvailable'])
    elif k == 'rethrow':
        ok = o[0] == 'eb' and C.rethrown_matches(outcome[1], o[3])
    elif k == 'final-err':
        ok = o[0] == 'eb' and type(o[3]) is prepare_error_class(outcome[1])
    if not ok:
        v.append(('outcome-not-the-reference-outcome', 'reference outcome %r, got %r %r' % (outcome[:2] if k != 'rethrow' else ('rethrow', outcome[1]['kind']), o[0], o[3])))
    return v


def run(ctx):
    from vlib import shim
    shim.import_cluster()
    from vlib.run import Inconclusive
    from sim.world import WorldLimit
    ctx.rule = ("a case is one prepared-statement execution in a seeded history: (protocol, plan arrangement over 1-3 hosts, keyspace scenario, "
                "answer to the PREPARE, answers to the EXECUTEs); distinct by that tuple; every case is non-trivial (the first EXECUTE is always "
                "answered UNPREPARED)")
    ctx.assume("protocol v5 / v6 are not generated (the scripted node does not speak segment framing); DSE v1 (0x41) and DSE v2 (0x42) are; DSE v2 carries the keyspace in PREPARE "
               "exactly like v5 and stands in for it")
    ctx.assume("an ERROR answer to the re-PREPARE fails the request with that error (what the driver documents in _execute_after_prepare); "
               "a connection lost during the re-PREPARE moves the request to the next host of the plan")
    ctx.assume("PreparedStatement.keyspace on v3/v4 is set by the harness (session.prepare cannot produce it on these versions)")
    ctx.assume("for a BATCH of prepared statements neither an id-changing re-PREPARE answer nor a statement object missing from the cluster's "
               "cache is generated: a batch future has no statement of its own to compare with or fall back to, and the property does not "
               "say what should happen then")
    ctx.assume("a late PREPARE answer is only generated after the request FAILED; what the driver does with one that arrives after the request "
               "succeeded through another execution is not stated by the property and is not judged")
    n = ctx.scale(1500, 60000)
    budget = 35 if ctx.quick else 300
    base = ctx.seed * 1000003 + (ctx.worker or 0) * 100003
    # the time budget bounds the run on a normal machine; on an overloaded one the floors are still reached (count first, capped)
    min_here = -(-280 // max(1, ctx.nworkers))
    for i in range(n):
        if ctx.time_left(budget) < 0 and (i >= min_here or ctx.time_left(budget * (5 if ctx.quick else 2)) < 0):
            ctx.note("stopped by time budget after %d histories" % i)
            break
        seed = base + i
        try:
            viol, harness, infos = run_late_history(seed) if i % 5 == 4 else run_history(seed)
        except WorldLimit:
            ctx.count("histories_over_budget")
            continue
        except Exception as e:
            import traceback
            raise Inconclusive("history seed %d failed in the harness: %s: %s\n%s" % (seed, type(e).__name__, e, traceback.format_exc()[-1200:]))
        if harness:
            raise Inconclusive("harness error in history seed %d: %r" % (seed, harness[:2]))
        ctx.count("histories")
        for q in infos:
            rel = tuple(q['plan'])
            ctx.case(repr((q['proto'], q['nodes'], rel, q['keyspace_scenario'], q['prepare_answer'], tuple(map(str, q['execute_answers'])),
                           q.get('statement_object'), q.get('request_form'))))
            if q.get('statement_object') and q['statement_object'] != 'cached':
                ctx.count("statement_object_" + q['statement_object'])
                if not q['statement_object_in_cluster_cache']:
                    ctx.count("executed_statement_not_the_object_in_the_cluster_cache")
            ctx.count("frames_compared", len(q['node_trace']))
            ctx.count("reprepares_observed", sum(1 for f in q['node_trace'] if f[0] == 'PREPARE'))
            ctx.count("executes_resent_after_reprepare", max(0, sum(1 for f in q['node_trace'] if f[0] == 'EXECUTE') - 1))
            ctx.count("outcome_" + str(q['expected_outcome'][0]))
            ctx.count("keyspace_scenario_" + q['keyspace_scenario'])
            if q['proto'] == 0x42:
                ctx.count("histories_on_keyspace_carrying_protocol")
            ctx.count("histories_protocol_0x%02x" % q['proto'])
            if q.get('request_form', 'execute') != 'execute':
                ctx.count("histories_with_batch_of_prepared_statements")
            if q.get('late'):
                ctx.count("late_prepare_answer_histories_judged" if q['situation_reached'] else "late_prepare_answer_situation_not_reached")
            if len(ctx.samples) < 5 and len(q['node_trace']) >= 3:
                ctx.sample(q)
        seen = set()
        for mech, what, info in viol:
            if mech in seen:
                continue
            seen.add(mech)
            ctx.violation(mech, "%s [seed %d]" % (what, seed), info)
    ctx.floor_distinct = 120 if ctx.quick else 1500
    ctx.floor_counters = {"histories": 150, "reprepares_observed": 100, "executes_resent_after_reprepare": 40, "outcome_mismatch": 15,
                          "outcome_ok": 20, "outcome_prepare-error": 10, "outcome_timeout": 5, "outcome_valueerror": 5, "outcome_nohost": 3,
                          "histories_on_keyspace_carrying_protocol": 20, "keyspace_scenario_param": 3,
                          "late_prepare_answer_histories_judged": 20, "executed_statement_not_the_object_in_the_cluster_cache": 30,
                          "histories_protocol_0x41": 20, "histories_with_batch_of_prepared_statements": 30, "histories_protocol_0x03": 10, "histories_protocol_0x04": 20}
