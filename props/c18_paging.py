"""C18 - paged results yield every row exactly once, in server order.

Monitor: the real Cluster/Session/ResponseFuture/ResultSet run in the deterministic world against a scripted
wire-level node that serves a statement as a sequence of pages (0-3 rows each, empty pages included, unique row
ids, opaque random paging states).  Every page-size sequence up to a bound is combined with every access pattern
(iterate, list(), all(), manual fetch_next_page + current_rows, indexing / equality (list mode), one(), callback-driven paging
with the handler attached before / after the first response, or while the callbacks of a page are being dispatched (from inside an
earlier callback, or by the application thread between two callbacks), iteration
interleaved with the read-only observers has_more_pages / one() / current_rows / paging_state) and the three
stock row factories.  Oracle: the rows the caller saw are the concatenation of the pages; request i carries exactly
the paging state returned with page i-1 (the first none) and the statement's fetch size; nothing is requested
after a page without paging state; materialised list == iteration.

A sampled fault family adds server errors on page fetches with a scripted retry policy (RETHROW caught and resumed by the
application, IGNORE, RETRY, RETRY_NEXT_HOST): same oracle, the paging-state chain generalised to re-requested pages.
"""
import itertools
import random

PROPERTY = "C18"
LEVEL = "exploration"
ENGINE = "sim"
TECHNIQUE = "runtime monitor in a deterministic world: scripted page server + sequential reference (concatenation of pages, paging-state chain) over an enumerated space of page-size sequences x access patterns"
LEVEL_TEXT = ("Exhaustive over page-size sequences in {0..3}^(1..4) on quick ({0..3}^(1..7) on thorough) x 17 access patterns x {load-balanced, pinned to one of two hosts with host=}, row factory "
              "tuple/dict/named rotating (all three for every sequence up to length 6 on thorough): rows seen == concatenation of pages, paging-state chain "
              "exact, no request after the final page, list materialisation == iteration, observers agree with the page model. "
              "Exhaustive within those bounds for the sequential access patterns listed; schedules (thread interleavings) are sampled.")
LEVEL_NOTE = ("Trusted base: sim/world.py, sim/node.py, spec/frames.py (independent encoder of the ROWS frames and parser of the QUERY frames). "
              "One healthy node, no faults, no speculative executions (those are C14's). Calling iter() again on a partially consumed "
              "ResultSet and mixing iteration with fetch_next_page() are not generated: the driver does not define them.")
QUICK_WORKERS = 4
WORKERS = 14

COLS = [('id', ('int',)), ('tag', ('text',))]
PATTERNS = ['iterate', 'list', 'all', 'manual', 'index', 'eq', 'next-observed', 'one-then-iterate', 'manual-observed', 'bool-then-list',
            'callback-paging-early', 'callback-paging-late', 'callback-paging-split',
            'callback-paging-nested0', 'callback-paging-nested1', 'callback-paging-thread0', 'callback-paging-thread1']


class PageServer(object):
    """serves registered statements page by page; logs the paging state / page size of every request"""
    def __init__(self):
        self.specs = {}

    def add(self, uid, pages, states):
        self.specs[uid] = {'pages': pages, 'states': states, 'index': dict((bytes(s), i + 1) for i, s in enumerate(states)),
                           'log': [], 'flags': []}
        return self.specs[uid]

    def behaviour(self, node, cstate, req):
        from sim.scen import uid_of
        if req['op'] != 'QUERY':
            return None
        uid = uid_of(req['query'])
        sp = self.specs.get(uid)
        if sp is None:
            return None
        ps = req.get('paging_state')
        sp['log'].append((None if ps is None else bytes(ps), req.get('page_size')))
        sp.setdefault('nodes', []).append(node.address)
        pages = sp['pages']
        if len(sp['log']) > len(pages) + 3:
            sp['flags'].append('runaway')
            return node.rows(cstate, req, COLS, [], 'ks', 't')
        if ps is None:
            k = 0
        else:
            k = sp['index'].get(bytes(ps))
            if k is None:
                sp['flags'].append('unknown-state')
                return node.rows(cstate, req, COLS, [], 'ks', 't')
        md = {}
        if k + 1 < len(pages):
            md['paging_state'] = sp['states'][k]        # states[k] leads to page k+1
        return node.rows(cstate, req, COLS, [[rid, 'p%d' % k] for rid in pages[k]], 'ks', 't', **md)


def callback_paging(pattern, session, statement, profile, world, sp, host=None, prims=None):
    """The documented callback-driven paging (PagedResultHandler): execute_async, a handler added with add_callbacks that collects the page and,
    while has_more_pages, calls start_fetching_next_page().  'early': the handler is attached before the first response can be processed;
    'late': after the first page's response was processed (the callback runs immediately inside add_callbacks); 'split': add_callback and
    add_errback as two calls after the first response."""
    seen, errors, prob = [], [], []
    pages_seen = [0]
    box = {}

    def handle_page(rows):
        pages_seen[0] += 1
        seen.extend(rid(r) for r in (rows or []))
        f = box['f']
        if f.has_more_pages and pages_seen[0] <= len(sp['pages']) + 3:
            f.start_fetching_next_page()

    def handle_error(exc):
        errors.append(exc)
    if pattern.startswith('callback-paging-nested') or pattern.startswith('callback-paging-thread'):
        # An earlier callback ("first") is registered before the first response and pages through the result itself up to page j; while the
        # callbacks of page j are being dispatched the real handler is attached - 'nested': by the first callback itself, from inside the
        # dispatch; 'thread': by the application thread, which gets to run between two callbacks because the first callback waits for it.
        j = min(int(pattern[-1]), len(sp['pages']) - 1)
        calls = [0]
        reached = [False]
        gate = prims.Event() if prims is not None else None

        def first(rows):
            k = calls[0]
            calls[0] += 1
            if k < j:
                pages_seen[0] += 1
                seen.extend(rid(r) for r in (rows or []))
                if box['f'].has_more_pages:
                    box['f'].start_fetching_next_page()
            elif k == j:
                if 'nested' in pattern:
                    box['f'].add_callbacks(handle_page, handle_error)
                else:
                    reached[0] = True
                    gate.wait()

        def first_error(exc):
            errors.append(exc)
            reached[0] = True
        with world.inspect():
            box['f'] = session.execute_async(statement, execution_profile=profile, host=host)
            box['f'].add_callbacks(first, first_error)
        if 'thread' in pattern:
            world.block(lambda: reached[0], None, 'page-j-dispatch')      # the reactor is inside the dispatch loop of page j, in `first`
            if not errors:
                box['f'].add_callbacks(handle_page, handle_error)          # runs the handler for page j on this thread, between two callbacks
            gate.set()
    elif pattern == 'callback-paging-early':
        with world.inspect():                 # main keeps the baton: no response is processed before the handler is attached
            box['f'] = session.execute_async(statement, execution_profile=profile, host=host)
            box['f'].add_callbacks(handle_page, handle_error)
    else:
        box['f'] = session.execute_async(statement, execution_profile=profile, host=host)
        world.settle(advance=False)           # the first page's response has been processed
        if pattern == 'callback-paging-late':
            box['f'].add_callbacks(handle_page, handle_error)
        else:
            box['f'].add_errback(handle_error)
            box['f'].add_callback(handle_page)
    world.settle(advance=False)
    if errors:
        prob.append(('callback-paging-errback-invoked', 'the errback ran: %r' % (errors[:2],)))
    if pages_seen[0] != len(sp['pages']):
        prob.append(('callback-paging-handler-missed-pages', 'the handler was invoked for %d pages, the node delivered %d (requests %d)' % (
            pages_seen[0], len(sp['pages']), len(sp['log']))))
    return seen, prob


def rid(row):
    if isinstance(row, dict):
        return row['id']
    return row[0]


def access(pattern, rs, sp, make_row):
    """Drive one access pattern.  Returns (ids seen in order, list of (slug, text) problems found by the pattern itself)."""
    pages = sp['pages']
    flat = [r for p in pages for r in p]
    prob = []
    seen = []

    def model_more():
        return len(sp['log']) < len(pages)

    if pattern == 'iterate':
        for r in rs:
            seen.append(rid(r))
    elif pattern == 'list':
        seen = [rid(r) for r in list(rs)]
    elif pattern == 'all':
        seen = [rid(r) for r in rs.all()]
    elif pattern in ('manual', 'manual-observed'):
        k = 0
        while True:
            cur = list(rs.current_rows)
            if [rid(r) for r in cur] != pages[min(k, len(pages) - 1)]:
                prob.append(('current-rows-not-the-page', 'after %d fetches current_rows ids %r, page %d holds %r' % (k, [rid(r) for r in cur], k, pages[min(k, len(pages) - 1)])))
            seen.extend(rid(r) for r in cur)
            if pattern == 'manual-observed':
                want = sp['states'][k] if k + 1 < len(pages) else None
                if rs.paging_state != want:
                    prob.append(('paging-state-property-stale', 'after page %d paging_state is %r, the node sent %r' % (k, rs.paging_state, want)))
                if bool(rs) != bool(cur):
                    prob.append(('bool-disagrees-with-current-rows', 'page %d' % k))
            if rs.has_more_pages != (k + 1 < len(pages)):
                prob.append(('has-more-pages-wrong', 'after page %d has_more_pages is %r, %d pages exist' % (k, rs.has_more_pages, len(pages))))
            if not rs.has_more_pages or k > len(pages) + 3:
                break
            rs.fetch_next_page()
            k += 1
    elif pattern == 'index':
        n = len(flat)
        for i in range(n):
            seen.append(rid(rs[i]))
        try:
            rs[n]
            prob.append(('index-past-end-accepted', 'rs[%d] returned a row, only %d exist' % (n, n)))
        except IndexError:
            pass
        if n and rid(rs[-1]) != flat[-1]:
            prob.append(('list-mode-differs-from-iteration', 'rs[-1] is %r' % (rid(rs[-1]),)))
        again = [rid(r) for r in rs]
        if again != seen:
            prob.append(('list-mode-differs-from-iteration', 'iteration in list mode gives %r, indexing gave %r' % (again, seen)))
    elif pattern == 'eq':
        want = [make_row(r, k) for k, p in enumerate(pages) for r in p]
        if not (rs == want):
            prob.append(('list-mode-differs-from-iteration', 'rs == [all rows] is False; rows materialised: %r' % ([rid(r) for r in rs.current_rows],)))
        if rs == want + [make_row(-1, 0)]:
            prob.append(('list-mode-differs-from-iteration', 'rs equals a longer list'))
        seen = [rid(r) for r in rs.current_rows]
        again = [rid(r) for r in list(rs)]
        if again != seen:
            prob.append(('list-mode-differs-from-iteration', 'list(rs) after == gives %r, current_rows %r' % (again, seen)))
    elif pattern == 'next-observed':
        it = iter(rs)
        while True:
            k = len(sp['log']) - 1
            if rs.has_more_pages != model_more():
                prob.append(('has-more-pages-wrong', 'after %d requests has_more_pages is %r, %d pages exist' % (len(sp['log']), rs.has_more_pages, len(pages))))
            one = rs.one()
            want = pages[k][0] if (k < len(pages) and pages[k]) else None
            if (None if one is None else rid(one)) != want:
                prob.append(('one-not-first-row-of-current-page', 'page %d: one() is %r, first row %r' % (k, one, want)))
            cur = [rid(r) for r in rs.current_rows]
            if k < len(pages) and cur != pages[k]:
                prob.append(('current-rows-not-the-page', 'while iterating page %d current_rows ids are %r, page holds %r' % (k, cur, pages[k])))
            try:
                seen.append(rid(next(it)))
            except StopIteration:
                break
            if len(seen) > len(flat) + 8:
                break
    elif pattern == 'one-then-iterate':
        one = rs.one()
        want = pages[0][0] if pages[0] else None
        if (None if one is None else rid(one)) != want:
            prob.append(('one-not-first-row-of-current-page', 'one() is %r, first page %r' % (one, pages[0])))
        if len(sp['log']) != 1:
            prob.append(('one-fetched-pages', 'one() caused %d requests' % len(sp['log'])))
        for r in rs:
            seen.append(rid(r))
    elif pattern == 'bool-then-list':
        if bool(rs) != bool(pages[0]):
            prob.append(('bool-disagrees-with-current-rows', 'bool(rs) is %r, first page %r' % (bool(rs), pages[0])))
        first = [rid(r) for r in rs.current_rows]
        if first != pages[0]:
            prob.append(('current-rows-not-the-page', 'first page: current_rows ids %r, page holds %r' % (first, pages[0])))
        seen = [rid(r) for r in list(rs)]
    else:
        raise ValueError(pattern)
    return seen, prob


def judge(seen, prob, sp, fetch_size):
    pages, states = sp['pages'], sp['states']
    flat = [r for p in pages for r in p]
    out = list(prob)
    log = sp['log']
    if 'runaway' in sp['flags'] or len(log) > len(pages):
        out.append(('request-after-final-page', '%d requests for %d pages; paging states carried: %r' % (len(log), len(pages), [l[0] for l in log][:10])))
    if 'unknown-state' in sp['flags']:
        out.append(('paging-state-not-the-one-returned', 'a request carried a paging state the node never issued: %r' % ([l[0] for l in log][:10],)))
    want_chain = [None] + [bytes(s) for s in states[:len(pages) - 1]]
    for i, (ps, size) in enumerate(log[:len(pages)]):
        if ps != want_chain[i]:
            out.append(('paging-state-not-the-one-returned', 'request %d carried %r, page %d was returned with %r' % (i + 1, ps, i, want_chain[i])))
            break
    for i, (ps, size) in enumerate(log):
        if size != fetch_size:
            out.append(('fetch-size-changed-between-pages', 'request %d asked for page size %r, the statement says %r' % (i + 1, size, fetch_size)))
            break
    if seen != flat:
        missing = [r for r in flat if r not in seen]
        dup = sorted(set(r for r in seen if seen.count(r) > 1))
        if dup:
            slug = 'rows-duplicated'
        elif missing:
            slug = 'rows-lost-after-empty-page' if any(not p for p in pages[:-1]) and not any(r in missing for r in pages[0]) else 'rows-lost'
        else:
            slug = 'rows-out-of-order'
        out.append((slug, 'rows seen %r, pages %r' % (seen, pages)))
    elif len(log) < len(pages):
        out.append(('stopped-before-the-final-page', 'all rows seen with %d requests for %d pages' % (len(log), len(pages))))
    return out



# ---------------------------------------------------------------------------------------------------------------
# fault family: the first attempt of a page fetch is answered with a server error; the scripted retry policy decides
FAULT_PATTERNS_RESUME = ['next-resume', 'manual-resume']                  # the application catches a rethrown error and resumes
FAULT_PATTERNS_PLAIN = ['iterate', 'list', 'all', 'index', 'eq']          # only IGNORE / transparent retries
FAULT_ERRORS = ['unavailable', 'read_timeout', 'write_timeout', 'overloaded', 'is_bootstrapping']
ERR_INFO = {'unavailable': {'consistency': 1, 'required': 1, 'alive': 0},
            'read_timeout': {'consistency': 1, 'received': 0, 'blockfor': 1, 'data_present': False},
            'write_timeout': {'consistency': 1, 'received': 0, 'blockfor': 1, 'write_type': 'SIMPLE'}}


class FaultyPageServer(PageServer):
    """PageServer whose specs may carry ``faults`` = {page index: decision}: the first request for that page is answered with an
    ERROR and the decision is queued for the retry policy; log entries get a third field 'error' / 'rows'."""
    def behaviour(self, node, cstate, req):
        from sim.scen import uid_of
        if req['op'] != 'QUERY':
            return None
        uid = uid_of(req['query'])
        sp = self.specs.get(uid)
        if sp is None:
            return None
        ps = req.get('paging_state')
        pages = sp['pages']
        k = 0 if ps is None else sp['index'].get(bytes(ps))
        entry = [None if ps is None else bytes(ps), req.get('page_size'), 'rows']
        sp['log'].append(entry)
        if len(sp['log']) > 2 * len(pages) + 4:
            sp['flags'].append('runaway')
            return node.rows(cstate, req, COLS, [], 'ks', 't')
        if k is None:
            sp['flags'].append('unknown-state')
            return node.rows(cstate, req, COLS, [], 'ks', 't')
        if k in sp['faults'] and k not in sp['faulted']:
            sp['faulted'].add(k)
            kind = sp['fault_kind'][k]
            sp['decisions'].append(sp['faults'][k])
            entry[2] = 'error'
            return node.error(cstate, req, kind, 'scripted %s' % kind, **ERR_INFO.get(kind, {}))
        md = {}
        if k + 1 < len(pages):
            md['paging_state'] = sp['states'][k]
        return node.rows(cstate, req, COLS, [[rid_, 'p%d' % k] for rid_ in pages[k]], 'ks', 't', **md)


def access_faulty(pattern, rs, sp, make_row):
    """access patterns of the fault family; returns (ids seen, exceptions caught, problems)"""
    pages = sp['pages']
    flat = [r for p in pages for r in p]
    seen, caught, prob = [], [], []
    guard = 2 * len(pages) + 6
    if pattern == 'next-resume':
        it = iter(rs)                         # one iterator; after an exception the application simply asks for the next row again
        while guard:
            try:
                r = next(it)
            except StopIteration:
                break
            except Exception as e:            # noqa
                caught.append(e)
                guard -= 1
                continue
            seen.append(rid(r))
    elif pattern == 'manual-resume':
        seen.extend(rid(r) for r in rs.current_rows)
        while rs.has_more_pages and guard:
            guard -= 1
            try:
                rs.fetch_next_page()
            except Exception as e:            # noqa
                caught.append(e)
                continue
            seen.extend(rid(r) for r in rs.current_rows)
    elif pattern == 'iterate':
        for r in rs:
            seen.append(rid(r))
    elif pattern == 'list':
        seen = [rid(r) for r in list(rs)]
    elif pattern == 'all':
        seen = [rid(r) for r in rs.all()]
    elif pattern == 'index':
        for i in range(len(flat)):
            seen.append(rid(rs[i]))
        try:
            rs[len(flat)]
            prob.append(('index-past-end-accepted', 'rs[%d] returned a row' % len(flat)))
        except IndexError:
            pass
    elif pattern == 'eq':
        want = [make_row(r, k) for k, p in enumerate(pages) for r in p]
        if not (rs == want):
            prob.append(('list-mode-differs-from-iteration', 'rs == [all rows] is False; rows materialised: %r' % ([rid(r) for r in rs.current_rows],)))
        seen = [rid(r) for r in rs.current_rows]
    else:
        raise ValueError(pattern)
    return seen, caught, prob


def judge_faulty(seen, caught, prob, sp, fetch_size):
    """same oracle as judge(), with the paging-state chain generalised to re-requested pages: every request carries the state that
    came with the last page actually delivered; nothing is requested once the last page was delivered"""
    pages, states = sp['pages'], sp['states']
    flat = [r for p in pages for r in p]
    out = list(prob)
    log = sp['log']
    if 'runaway' in sp['flags']:
        out.append(('request-after-final-page', 'runaway: %d requests for %d pages' % (len(log), len(pages))))
    if 'unknown-state' in sp['flags']:
        out.append(('paging-state-not-the-one-returned', 'a request carried a paging state the node never issued: %r' % ([l[0] for l in log][:10],)))
    served = 0
    for i, (ps, size, what) in enumerate(log):
        if served >= len(pages):
            out.append(('request-after-final-page', 'request %d sent after the final page was delivered; states carried %r' % (i + 1, [l[0] for l in log][:12])))
            break
        want = None if served == 0 else bytes(states[served - 1])
        if ps != want:
            out.append(('paging-state-not-the-one-returned', 'request %d carried %r, the last delivered page (%d) came with %r' % (i + 1, ps, served - 1, want)))
            break
        if size != fetch_size:
            out.append(('fetch-size-changed-between-pages', 'request %d asked for page size %r, the statement says %r' % (i + 1, size, fetch_size)))
            break
        if what == 'rows':
            served += 1
    rethrown = sum(1 for k, d in sp['faults'].items() if d == 'rethrow' and k in sp['faulted'])
    if len(caught) != rethrown:
        out.append(('error-surfaced-count-differs', '%d exceptions reached the application (%r), %d page fetches were answered with an error the policy rethrows' % (
            len(caught), [type(e).__name__ for e in caught], rethrown)))
    if seen != flat:
        missing = [r for r in flat if r not in seen]
        dup = sorted(set(r for r in seen if seen.count(r) > 1))
        slug = 'rows-duplicated' if dup else ('rows-lost-after-error-on-page-fetch' if missing else 'rows-out-of-order')
        out.append((slug, 'rows seen %r, pages %r, faults %r, requests %r' % (seen, pages, sp['faults'], [(l[2]) for l in log])))
    elif served < len(pages):
        out.append(('stopped-before-the-final-page', 'all rows seen although only %d of %d pages were delivered' % (served, len(pages))))
    return out


def run_fault_family(ctx, budget):
    """seeded sample: page-size sequences x access patterns x per-page fault decisions (RETHROW / IGNORE / RETRY / RETRY_NEXT_HOST)"""
    from vlib.run import Inconclusive
    from sim.env import SimEnv
    from sim import world as W
    from sim.scen import uid_query, uid_of
    from cassandra.cluster import ExecutionProfile, EXEC_PROFILE_DEFAULT
    from cassandra.policies import RoundRobinPolicy, RetryPolicy
    from cassandra.query import SimpleStatement, tuple_factory, dict_factory, named_tuple_factory
    factories = [('tuple', tuple_factory), ('dict', dict_factory), ('named', named_tuple_factory)]
    makers = {'tuple': lambda r, k: (r, 'p%d' % k), 'named': lambda r, k: (r, 'p%d' % k), 'dict': lambda r, k: {'id': r, 'tag': 'p%d' % k}}
    rng = ctx.rng
    total = ctx.scale(160, 40000)
    done = 0
    uid = 500000
    while done < total:
        if ctx.time_left(budget) < 0 and done >= 60:
            ctx.note("fault family stopped by time budget after %d cases" % done)
            break
        hseed = rng.randrange(1 << 30)
        random.seed(hseed)
        ch = W.RandomChooser(random.Random(hseed), p_time=0.0, p_preempt=rng.choice([0.0, 0.1, 0.3]))
        env = SimEnv(ch, addresses=['127.0.0.1', '127.0.0.2'], max_steps=10 ** 8)
        server = FaultyPageServer()
        for n in env.net.nodes.values():
            n.behaviour = server.behaviour
        srng = random.Random(hseed ^ 0x33cc)

        class Scripted(RetryPolicy):
            """the decision for the error just served was queued by the node script"""
            def _decide(self, query):
                sp = server.specs.get(uid_of(getattr(query, 'query_string', '') or ''))
                d = sp['decisions'].pop(0) if sp and sp['decisions'] else 'rethrow'
                sp and sp['decided'].append(d)
                return {'rethrow': (self.RETHROW, None), 'ignore': (self.IGNORE, None), 'retry': (self.RETRY, None),
                        'next_host': (self.RETRY_NEXT_HOST, None)}[d]

            def on_read_timeout(self, query, *a, **kw):
                return self._decide(query)

            def on_write_timeout(self, query, *a, **kw):
                return self._decide(query)

            def on_unavailable(self, query, *a, **kw):
                return self._decide(query)

            def on_request_error(self, query, *a, **kw):
                return self._decide(query)
        try:
            with env:
                pol = Scripted()
                profiles = {EXEC_PROFILE_DEFAULT: ExecutionProfile(load_balancing_policy=RoundRobinPolicy(), request_timeout=None, retry_policy=pol)}
                for name, f in factories:
                    profiles[name] = ExecutionProfile(load_balancing_policy=RoundRobinPolicy(), row_factory=f, request_timeout=None, retry_policy=pol)
                cluster = env.cluster(protocol_version=rng.choice([3, 4]), execution_profiles=profiles)
                session = cluster.connect()
                env.world.settle(advance=False)
                for _ in range(min(80, total - done)):
                    uid += 1
                    L = srng.randint(2, 5)
                    seq = tuple(srng.randint(0, 3) for _ in range(L))
                    nxt = [(uid % 100000) * 100]
                    pages = []
                    for n in seq:
                        pages.append(list(range(nxt[0], nxt[0] + n)))
                        nxt[0] += n
                    states = []
                    while len(states) < L:
                        st_ = bytes(srng.randrange(256) for _ in range(srng.randint(1, 12)))
                        if st_ not in states:
                            states.append(st_)
                    resume = srng.random() < 0.5
                    pat = srng.choice(FAULT_PATTERNS_RESUME if resume else FAULT_PATTERNS_PLAIN)
                    menu = ['rethrow', 'ignore', 'retry', 'next_host'] if resume else ['ignore', 'retry', 'next_host']
                    faults = {}
                    for k in range(L):
                        if srng.random() < 0.5:
                            # the first page can only be retried transparently: a rethrown / ignored error leaves no result set to resume
                            faults[k] = srng.choice(['retry', 'next_host']) if k == 0 else srng.choice(menu)
                    if not any(k for k in faults):
                        faults[srng.randint(1, L - 1)] = srng.choice(menu)
                    sp = server.add(uid, pages, states)
                    sp.update({'faults': faults, 'faulted': set(), 'decisions': [], 'decided': [],
                               'fault_kind': dict((k, srng.choice(FAULT_ERRORS)) for k in faults)})
                    fname = srng.choice(factories)[0]
                    fetch = srng.choice([1, 2, 3, 5000])
                    st = SimpleStatement(uid_query(uid), fetch_size=fetch)
                    try:
                        rs = session.execute(st, execution_profile=fname)
                        seen, caught, prob = access_faulty(pat, rs, sp, makers[fname])
                    except (W.WorldHang, W.WorldLimit):
                        raise
                    except Exception as e:      # noqa
                        import traceback
                        seen, caught, prob = [], [], [('access-pattern-raised', '%s: %s | %s' % (type(e).__name__, e, traceback.format_exc()[-300:]))]
                    with env.world.inspect():
                        problems = judge_faulty(seen, caught, prob, sp, fetch)
                    done += 1
                    ctx.case(repr(('fault', seq, pat, fname, sorted(faults.items()))), nontrivial=True)
                    ctx.count("fault_cases")
                    ctx.count("fault_page_requests_checked", len(sp['log']))
                    for d in sp['decided']:
                        ctx.count("fault_decisions_" + d)
                    ctx.count("fault_errors_caught_and_resumed", len(caught))
                    seenslug = set()
                    for slug, text in problems:
                        if slug in seenslug:
                            continue
                        seenslug.add(slug)
                        ctx.violation(slug, "%s [page sizes %r, pattern %s, %s rows, faults %r]" % (text, seq, pat, fname, faults),
                                      {"page_sizes": list(seq), "pattern": pat, "row_factory": fname, "faults": dict((str(k), v) for k, v in faults.items()),
                                       "requests": [repr(l) for l in sp['log']][:14], "seen": seen, "caught": [repr(e)[:80] for e in caught]})
                    if not problems and len(ctx.samples) < 6 and caught:
                        ctx.sample({"fault_family": True, "page_sizes": list(seq), "pattern": pat, "faults": dict((str(k), v) for k, v in faults.items()),
                                    "requests": [(None if l[0] is None else l[0].hex(), l[2]) for l in sp['log']], "caught": [type(e).__name__ for e in caught], "seen": seen})
                    del server.specs[uid]
                harness = list(env.world.errors) + [('parse', p) for p in env.net.parse_failures]
                cluster.shutdown()
                env.world.settle()
        except W.WorldLimit:
            ctx.count("batches_over_budget")
            continue
        except W.WorldHang as e:
            raise Inconclusive("world hang in the fault family: %s" % (e,))
        if harness:
            raise Inconclusive("harness error in the fault family: %r" % (harness[:2],))


def sequences(maxlen):
    for L in range(1, maxlen + 1):
        for seq in itertools.product(range(4), repeat=L):
            yield seq


def run(ctx):
    from vlib import shim
    shim.import_cluster()
    import warnings
    warnings.simplefilter('ignore')
    from vlib.run import Inconclusive
    from sim.env import SimEnv
    from sim import world as W
    from sim.scen import uid_query
    from cassandra.cluster import ExecutionProfile, EXEC_PROFILE_DEFAULT
    from cassandra.policies import RoundRobinPolicy
    from cassandra.query import SimpleStatement, tuple_factory, dict_factory, named_tuple_factory

    ctx.rule = ("a case is (page-size sequence, access pattern, row factory, load-balanced or pinned with host=); sequences enumerated completely up to the bound, every pattern for every "
                "sequence; distinct by that triple; non-trivial = more than one page")
    ctx.assume("calling iter() again on a partially consumed ResultSet restarts the current page, and iteration mixed with fetch_next_page() skips the manually "
               "fetched page: the driver does not define these mixes, they are not generated")
    ctx.assume("one() is the first row of the *current* page (documented as a shortcut to current_rows[0]); it is not expected to look into later pages")
    maxlen = 4 if ctx.quick else 7
    budget = 60 if ctx.quick else 450      # CPU seconds of this worker (ctx.time_left)
    factories = [('tuple', tuple_factory), ('dict', dict_factory), ('named', named_tuple_factory)]
    makers = {'tuple': lambda r, k: (r, 'p%d' % k), 'named': lambda r, k: (r, 'p%d' % k), 'dict': lambda r, k: {'id': r, 'tag': 'p%d' % k}}
    nw = ctx.nworkers or 1
    me = ctx.worker or 0
    work = []
    for i, seq in enumerate(sequences(maxlen)):
        if i % nw != me:
            continue
        for j, pat in enumerate(PATTERNS):
            for targeted in (False, True):          # load-balanced execution / execution pinned to one host with host=
                if ctx.quick or len(seq) >= 7:      # the longest sequences (3/4 of the thorough space) rotate the row factory as well
                    work.append((seq, pat, factories[(i + j + ctx.seed + targeted) % 3][0], targeted))
                else:
                    for f in factories:
                        work.append((seq, pat, f[0], targeted))
    rng = ctx.rng
    complete = True
    pos = 0
    batch = 250
    uid = 0
    while pos < len(work):
        if ctx.time_left(budget) < 0:
            complete = False
            ctx.note("stopped by time budget after %d of %d cases" % (pos, len(work)))
            break
        hseed = rng.randrange(1 << 30)
        random.seed(hseed)
        ch = W.RandomChooser(random.Random(hseed), p_time=0.0, p_preempt=rng.choice([0.0, 0.1, 0.3]))
        env = SimEnv(ch, addresses=['127.0.0.1', '127.0.0.2'], max_steps=10 ** 8)
        server = PageServer()
        for node_ in env.net.nodes.values():
            node_.behaviour = server.behaviour
        env.net.chunking = rng.random() < 0.3
        srng = random.Random(hseed ^ 0x5a5a)
        try:
            with env:
                profiles = {EXEC_PROFILE_DEFAULT: ExecutionProfile(load_balancing_policy=RoundRobinPolicy(), request_timeout=None)}
                for name, f in factories:
                    profiles[name] = ExecutionProfile(load_balancing_policy=RoundRobinPolicy(), row_factory=f, request_timeout=None)
                cluster = env.cluster(protocol_version=rng.choice([3, 4]), execution_profiles=profiles)
                session = cluster.connect()
                env.world.settle(advance=False)
                hosts = sorted(cluster.metadata.all_hosts(), key=lambda h: str(h.endpoint))
                for seq, pat, fname, targeted in work[pos:pos + batch]:
                    uid += 1
                    target = hosts[uid % len(hosts)] if targeted else None
                    nxt = [uid * 100]

                    def ids(n):
                        out = list(range(nxt[0], nxt[0] + n))
                        nxt[0] += n
                        return out
                    pages = [ids(n) for n in seq]
                    states = []
                    while len(states) < len(seq):
                        s = bytes(srng.randrange(256) for _ in range(srng.randint(1, 12)))
                        if s not in states:
                            states.append(s)
                    sp = server.add(uid, pages, states)
                    fetch = srng.choice([1, 2, 3, 5000])
                    st = SimpleStatement(uid_query(uid), fetch_size=fetch)
                    try:
                        if pat.startswith('callback-paging'):
                            seen, prob = callback_paging(pat, session, st, fname, env.world, sp, host=target, prims=env.prims)
                        else:
                            rs = session.execute(st, execution_profile=fname, host=target)
                            seen, prob = access(pat, rs, sp, makers[fname])
                    except (W.WorldHang, W.WorldLimit):
                        raise
                    except Exception as e:      # the access pattern itself failed
                        import traceback
                        seen, prob = [], [('access-pattern-raised', '%s: %s | %s' % (type(e).__name__, e, traceback.format_exc()[-300:]))]
                    with env.world.inspect():
                        problems = judge(seen, prob, sp, fetch)
                        if targeted:
                            ctx.count("targeted_executions")
                            ctx.count("targeted_page_requests_checked", len(sp.get('nodes', [])))
                            astray = [a for a in sp.get('nodes', []) if a != target.address]
                            if astray:
                                problems.append(('targeted-execution-page-request-sent-to-another-host', 'execution pinned to %s, page requests went to %r' % (
                                    target.address, sp.get('nodes'))))
                    ctx.case(repr((seq, pat, fname, targeted)), nontrivial=len(seq) > 1)
                    ctx.count("statements_executed")
                    ctx.count("page_requests_checked", len(sp['log']))
                    ctx.count("rows_compared", len(seen))
                    if any(n == 0 for n in seq[:-1]):
                        ctx.count("cases_with_an_empty_page_before_the_last")
                    if seq[-1] == 0:
                        ctx.count("cases_with_an_empty_last_page")
                    done = set()
                    for slug, text in problems:
                        if slug in done:
                            continue
                        done.add(slug)
                        ctx.violation(slug, "%s [page sizes %r, pattern %s, %s rows, fetch_size %d%s]" % (text, seq, pat, fname, fetch, ', host=%s' % target.address if targeted else ''),
                                      {"page_sizes": list(seq), "pattern": pat, "row_factory": fname, "requests": [repr(l) for l in sp['log']][:12],
                                       "paging_states": [s.hex() for s in states], "seen": seen})
                    if not problems and len(ctx.samples) < 4 and len(seq) >= 3 and 0 in seq[:-1]:
                        ctx.sample({"page_sizes": list(seq), "pattern": pat, "row_factory": fname, "seen": seen,
                                    "requests": [(None if l[0] is None else l[0].hex(), l[1]) for l in sp['log']]})
                    del server.specs[uid]
                harness = list(env.world.errors) + [('parse', p) for p in env.net.parse_failures]
                cluster.shutdown()
                env.world.settle()
        except W.WorldLimit:
            ctx.count("batches_over_budget")
            complete = False
            pos += batch
            continue
        except W.WorldHang as e:
            raise Inconclusive("world hang while executing a paged statement (batch at %d): %s" % (pos, e))
        if harness:
            raise Inconclusive("harness error: %r" % (harness[:2],))
        pos += batch
    ctx.exhaustive = complete
    ctx.count("work_items_assigned", len(work))
    ctx.assume("fault family (sampled, not part of the exhaustive claim): resume after a rethrown page-fetch error means asking the SAME iterator for the next row "
               "again / calling fetch_next_page() again; list(), all(), indexing and == are only combined with IGNORE and transparent retries "
               "(after an exception they cannot be resumed: list mode refuses once iteration started); the first page is only retried transparently")
    run_fault_family(ctx, budget + (10 if ctx.quick else 60))
    ctx.floor_distinct = 600 if ctx.quick else 20000
    ctx.floor_counters = {"targeted_executions": 300, "targeted_page_requests_checked": 700, "fault_cases": 200, "fault_decisions_rethrow": 30, "fault_decisions_ignore": 40, "fault_errors_caught_and_resumed": 30,
                          "statements_executed": 600, "page_requests_checked": 1500, "cases_with_an_empty_page_before_the_last": 150,
                          "cases_with_an_empty_last_page": 100}
