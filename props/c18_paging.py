"""C18 - paged results yield every row exactly once, in server order.

Monitor: the real Cluster/Session/ResponseFuture/ResultSet run in the deterministic world against a scripted
wire-level node that serves a statement as a sequence of pages (0-3 rows each, empty pages included, unique row
ids, opaque random paging states).  Every page-size sequence up to a bound is combined with every access pattern
(iterate, list(), all(), manual fetch_next_page + current_rows, indexing / equality (list mode), one(), iteration
interleaved with the read-only observers has_more_pages / one() / current_rows / paging_state) and the three
stock row factories.  Oracle: the rows the caller saw are the concatenation of the pages; request i carries exactly
the paging state returned with page i-1 (the first none) and the statement's fetch size; nothing is requested
after a page without paging state; materialised list == iteration.
"""
import itertools
import random

PROPERTY = "C18"
LEVEL = "exploration"
ENGINE = "sim"
TECHNIQUE = "runtime monitor in a deterministic world: scripted page server + sequential reference (concatenation of pages, paging-state chain) over an enumerated space of page-size sequences x access patterns"
LEVEL_TEXT = ("Exhaustive over page-size sequences in {0..3}^(1..4) on quick ({0..3}^(1..7) on thorough) x 10 access patterns, row factory "
              "tuple/dict/named rotating (all three for every sequence on thorough): rows seen == concatenation of pages, paging-state chain "
              "exact, no request after the final page, list materialisation == iteration, observers agree with the page model. "
              "Exhaustive within those bounds for the sequential access patterns listed; schedules (thread interleavings) are sampled.")
LEVEL_NOTE = ("Trusted base: sim/world.py, sim/node.py, spec/frames.py (independent encoder of the ROWS frames and parser of the QUERY frames). "
              "One healthy node, no faults, no speculative executions (those are C14's). Calling iter() again on a partially consumed "
              "ResultSet and mixing iteration with fetch_next_page() are not generated: the driver does not define them.")
QUICK_WORKERS = 4
WORKERS = 14

COLS = [('id', ('int',)), ('tag', ('text',))]
PATTERNS = ['iterate', 'list', 'all', 'manual', 'index', 'eq', 'next-observed', 'one-then-iterate', 'manual-observed', 'bool-then-list']


class PageServer(object):
    """serves registered statements page by page; logs the paging state / page size of every request"""
    def __init__(self):
        self.specs = {}

    def add(self, uid, pages, states):
        self.specs[uid] = {'pages': pages, 'states': states, 'index': dict((bytes(s), i + 1) for i, s in enumerate(states)),
                           'log': [], 'flags': []}
        return self.specs[uid]

    def behaviour(self, node, cstate, req):
        from sim.scen import uid_of
        if req['op'] != 'QUERY':
            return None
        uid = uid_of(req['query'])
        sp = self.specs.get(uid)
        if sp is None:
            return None
        ps = req.get('paging_state')
        sp['log'].append((None if ps is None else bytes(ps), req.get('page_size')))
        pages = sp['pages']
        if len(sp['log']) > len(pages) + 3:
            sp['flags'].append('runaway')
            return node.rows(cstate, req, COLS, [], 'ks', 't')
        if ps is None:
            k = 0
        else:
            k = sp['index'].get(bytes(ps))
            if k is None:
                sp['flags'].append('unknown-state')
                return node.rows(cstate, req, COLS, [], 'ks', 't')
        md = {}
        if k + 1 < len(pages):
            md['paging_state'] = sp['states'][k]        # states[k] leads to page k+1
        return node.rows(cstate, req, COLS, [[rid, 'p%d' % k] for rid in pages[k]], 'ks', 't', **md)


def rid(row):
    if isinstance(row, dict):
        return row['id']
    return row[0]


def access(pattern, rs, sp, make_row):
    """Drive one access pattern.  Returns (ids seen in order, list of (slug, text) problems found by the pattern itself)."""
    pages = sp['pages']
    flat = [r for p in pages for r in p]
    prob = []
    seen = []

    def model_more():
        return len(sp['log']) < len(pages)

    if pattern == 'iterate':
        for r in rs:
            seen.append(rid(r))
    elif pattern == 'list':
        seen = [rid(r) for r in list(rs)]
    elif pattern == 'all':
        seen = [rid(r) for r in rs.all()]
    elif pattern in ('manual', 'manual-observed'):
        k = 0
        while True:
            cur = list(rs.current_rows)
            if [rid(r) for r in cur] != pages[min(k, len(pages) - 1)]:
                prob.append(('current-rows-not-the-page', 'after %d fetches current_rows ids %r, page %d holds %r' % (k, [rid(r) for r in cur], k, pages[min(k, len(pages) - 1)])))
            seen.extend(rid(r) for r in cur)
            if pattern == 'manual-observed':
                want = sp['states'][k] if k + 1 < len(pages) else None
                if rs.paging_state != want:
                    prob.append(('paging-state-property-stale', 'after page %d paging_state is %r, the node sent %r' % (k, rs.paging_state, want)))
                if bool(rs) != bool(cur):
                    prob.append(('bool-disagrees-with-current-rows', 'page %d' % k))
            if rs.has_more_pages != (k + 1 < len(pages)):
                prob.append(('has-more-pages-wrong', 'after page %d has_more_pages is %r, %d pages exist' % (k, rs.has_more_pages, len(pages))))
            if not rs.has_more_pages or k > len(pages) + 3:
                break
            rs.fetch_next_page()
            k += 1
    elif pattern == 'index':
        n = len(flat)
        for i in range(n):
            seen.append(rid(rs[i]))
        try:
            rs[n]
            prob.append(('index-past-end-accepted', 'rs[%d] returned a row, only %d exist' % (n, n)))
        except IndexError:
            pass
        if n and rid(rs[-1]) != flat[-1]:
            prob.append(('list-mode-differs-from-iteration', 'rs[-1] is %r' % (rid(rs[-1]),)))
        again = [rid(r) for r in rs]
        if again != seen:
            prob.append(('list-mode-differs-from-iteration', 'iteration in list mode gives %r, indexing gave %r' % (again, seen)))
    elif pattern == 'eq':
        want = [make_row(r, k) for k, p in enumerate(pages) for r in p]
        if not (rs == want):
            prob.append(('list-mode-differs-from-iteration', 'rs == [all rows] is False; rows materialised: %r' % ([rid(r) for r in rs.current_rows],)))
        if rs == want + [make_row(-1, 0)]:
            prob.append(('list-mode-differs-from-iteration', 'rs equals a longer list'))
        seen = [rid(r) for r in rs.current_rows]
        again = [rid(r) for r in list(rs)]
        if again != seen:
            prob.append(('list-mode-differs-from-iteration', 'list(rs) after == gives %r, current_rows %r' % (again, seen)))
    elif pattern == 'next-observed':
        it = iter(rs)
        while True:
            k = len(sp['log']) - 1
            if rs.has_more_pages != model_more():
                prob.append(('has-more-pages-wrong', 'after %d requests has_more_pages is %r, %d pages exist' % (len(sp['log']), rs.has_more_pages, len(pages))))
            one = rs.one()
            want = pages[k][0] if (k < len(pages) and pages[k]) else None
            if (None if one is None else rid(one)) != want:
                prob.append(('one-not-first-row-of-current-page', 'page %d: one() is %r, first row %r' % (k, one, want)))
            cur = [rid(r) for r in rs.current_rows]
            if k < len(pages) and cur != pages[k]:
                prob.append(('current-rows-not-the-page', 'while iterating page %d current_rows ids are %r, page holds %r' % (k, cur, pages[k])))
            try:
                seen.append(rid(next(it)))
            except StopIteration:
                break
            if len(seen) > len(flat) + 8:
                break
    elif pattern == 'one-then-iterate':
        one = rs.one()
        want = pages[0][0] if pages[0] else None
        if (None if one is None else rid(one)) != want:
            prob.append(('one-not-first-row-of-current-page', 'one() is %r, first page %r' % (one, pages[0])))
        if len(sp['log']) != 1:
            prob.append(('one-fetched-pages', 'one() caused %d requests' % len(sp['log'])))
        for r in rs:
            seen.append(rid(r))
    elif pattern == 'bool-then-list':
        if bool(rs) != bool(pages[0]):
            prob.append(('bool-disagrees-with-current-rows', 'bool(rs) is %r, first page %r' % (bool(rs), pages[0])))
        first = [rid(r) for r in rs.current_rows]
        if first != pages[0]:
            prob.append(('current-rows-not-the-page', 'first page: current_rows ids %r, page holds %r' % (first, pages[0])))
        seen = [rid(r) for r in list(rs)]
    else:
        raise ValueError(pattern)
    return seen, prob


def judge(seen, prob, sp, fetch_size):
    pages, states = sp['pages'], sp['states']
    flat = [r for p in pages for r in p]
    out = list(prob)
    log = sp['log']
    if 'runaway' in sp['flags'] or len(log) > len(pages):
        out.append(('request-after-final-page', '%d requests for %d pages; paging states carried: %r' % (len(log), len(pages), [l[0] for l in log][:10])))
    if 'unknown-state' in sp['flags']:
        out.append(('paging-state-not-the-one-returned', 'a request carried a paging state the node never issued: %r' % ([l[0] for l in log][:10],)))
    want_chain = [None] + [bytes(s) for s in states[:len(pages) - 1]]
    for i, (ps, size) in enumerate(log[:len(pages)]):
        if ps != want_chain[i]:
            out.append(('paging-state-not-the-one-returned', 'request %d carried %r, page %d was returned with %r' % (i + 1, ps, i, want_chain[i])))
            break
    for i, (ps, size) in enumerate(log):
        if size != fetch_size:
            out.append(('fetch-size-changed-between-pages', 'request %d asked for page size %r, the statement says %r' % (i + 1, size, fetch_size)))
            break
    if seen != flat:
        missing = [r for r in flat if r not in seen]
        dup = sorted(set(r for r in seen if seen.count(r) > 1))
        if dup:
            slug = 'rows-duplicated'
        elif missing:
            slug = 'rows-lost-after-empty-page' if any(not p for p in pages[:-1]) and not any(r in missing for r in pages[0]) else 'rows-lost'
        else:
            slug = 'rows-out-of-order'
        out.append((slug, 'rows seen %r, pages %r' % (seen, pages)))
    elif len(log) < len(pages):
        out.append(('stopped-before-the-final-page', 'all rows seen with %d requests for %d pages' % (len(log), len(pages))))
    return out


def sequences(maxlen):
    for L in range(1, maxlen + 1):
        for seq in itertools.product(range(4), repeat=L):
            yield seq


def run(ctx):
    from vlib import shim
    shim.import_cluster()
    import warnings
    warnings.simplefilter('ignore')
    from vlib.run import Inconclusive
    from sim.env import SimEnv
    from sim import world as W
    from sim.scen import uid_query
    from cassandra.cluster import ExecutionProfile, EXEC_PROFILE_DEFAULT
    from cassandra.policies import RoundRobinPolicy
    from cassandra.query import SimpleStatement, tuple_factory, dict_factory, named_tuple_factory

    ctx.rule = ("a case is (page-size sequence, access pattern, row factory); sequences enumerated completely up to the bound, every pattern for every "
                "sequence; distinct by that triple; non-trivial = more than one page")
    ctx.assume("calling iter() again on a partially consumed ResultSet restarts the current page, and iteration mixed with fetch_next_page() skips the manually "
               "fetched page: the driver does not define these mixes, they are not generated")
    ctx.assume("one() is the first row of the *current* page (documented as a shortcut to current_rows[0]); it is not expected to look into later pages")
    maxlen = 4 if ctx.quick else 7
    budget = 60 if ctx.quick else 450      # CPU seconds of this worker (ctx.time_left)
    factories = [('tuple', tuple_factory), ('dict', dict_factory), ('named', named_tuple_factory)]
    makers = {'tuple': lambda r, k: (r, 'p%d' % k), 'named': lambda r, k: (r, 'p%d' % k), 'dict': lambda r, k: {'id': r, 'tag': 'p%d' % k}}
    nw = ctx.nworkers or 1
    me = ctx.worker or 0
    work = []
    for i, seq in enumerate(sequences(maxlen)):
        if i % nw != me:
            continue
        for j, pat in enumerate(PATTERNS):
            if ctx.quick:
                work.append((seq, pat, factories[(i + j + ctx.seed) % 3][0]))
            else:
                for f in factories:
                    work.append((seq, pat, f[0]))
    rng = ctx.rng
    complete = True
    pos = 0
    batch = 250
    uid = 0
    while pos < len(work):
        if ctx.time_left(budget) < 0:
            complete = False
            ctx.note("stopped by time budget after %d of %d cases" % (pos, len(work)))
            break
        hseed = rng.randrange(1 << 30)
        random.seed(hseed)
        ch = W.RandomChooser(random.Random(hseed), p_time=0.0, p_preempt=rng.choice([0.0, 0.1, 0.3]))
        env = SimEnv(ch, addresses=['127.0.0.1'], max_steps=10 ** 8)
        server = PageServer()
        env.net.nodes['127.0.0.1'].behaviour = server.behaviour
        env.net.chunking = rng.random() < 0.3
        srng = random.Random(hseed ^ 0x5a5a)
        try:
            with env:
                profiles = {EXEC_PROFILE_DEFAULT: ExecutionProfile(load_balancing_policy=RoundRobinPolicy(), request_timeout=None)}
                for name, f in factories:
                    profiles[name] = ExecutionProfile(load_balancing_policy=RoundRobinPolicy(), row_factory=f, request_timeout=None)
                cluster = env.cluster(protocol_version=rng.choice([3, 4]), execution_profiles=profiles)
                session = cluster.connect()
                for seq, pat, fname in work[pos:pos + batch]:
                    uid += 1
                    nxt = [uid * 100]

                    def ids(n):
                        out = list(range(nxt[0], nxt[0] + n))
                        nxt[0] += n
                        return out
                    pages = [ids(n) for n in seq]
                    states = []
                    while len(states) < len(seq):
                        s = bytes(srng.randrange(256) for _ in range(srng.randint(1, 12)))
                        if s not in states:
                            states.append(s)
                    sp = server.add(uid, pages, states)
                    fetch = srng.choice([1, 2, 3, 5000])
                    st = SimpleStatement(uid_query(uid), fetch_size=fetch)
                    try:
                        rs = session.execute(st, execution_profile=fname)
                        seen, prob = access(pat, rs, sp, makers[fname])
                    except (W.WorldHang, W.WorldLimit):
                        raise
                    except Exception as e:      # the access pattern itself failed
                        import traceback
                        seen, prob = [], [('access-pattern-raised', '%s: %s | %s' % (type(e).__name__, e, traceback.format_exc()[-300:]))]
                    with env.world.inspect():
                        problems = judge(seen, prob, sp, fetch)
                    ctx.case(repr((seq, pat, fname)), nontrivial=len(seq) > 1)
                    ctx.count("statements_executed")
                    ctx.count("page_requests_checked", len(sp['log']))
                    ctx.count("rows_compared", len(seen))
                    if any(n == 0 for n in seq[:-1]):
                        ctx.count("cases_with_an_empty_page_before_the_last")
                    if seq[-1] == 0:
                        ctx.count("cases_with_an_empty_last_page")
                    done = set()
                    for slug, text in problems:
                        if slug in done:
                            continue
                        done.add(slug)
                        ctx.violation(slug, "%s [page sizes %r, pattern %s, %s rows, fetch_size %d]" % (text, seq, pat, fname, fetch),
                                      {"page_sizes": list(seq), "pattern": pat, "row_factory": fname, "requests": [repr(l) for l in sp['log']][:12],
                                       "paging_states": [s.hex() for s in states], "seen": seen})
                    if not problems and len(ctx.samples) < 4 and len(seq) >= 3 and 0 in seq[:-1]:
                        ctx.sample({"page_sizes": list(seq), "pattern": pat, "row_factory": fname, "seen": seen,
                                    "requests": [(None if l[0] is None else l[0].hex(), l[1]) for l in sp['log']]})
                    del server.specs[uid]
                harness = list(env.world.errors) + [('parse', p) for p in env.net.parse_failures]
                cluster.shutdown()
                env.world.settle()
        except W.WorldLimit:
            ctx.count("batches_over_budget")
            complete = False
            pos += batch
            continue
        except W.WorldHang as e:
            raise Inconclusive("world hang while executing a paged statement (batch at %d): %s" % (pos, e))
        if harness:
            raise Inconclusive("harness error: %r" % (harness[:2],))
        pos += batch
    ctx.exhaustive = complete
    ctx.count("work_items_assigned", len(work))
    ctx.floor_distinct = 600 if ctx.quick else 20000
    ctx.floor_counters = {"statements_executed": 600, "page_requests_checked": 1500, "cases_with_an_empty_page_before_the_last": 150,
                          "cases_with_an_empty_last_page": 100}
