"""C10 - a failed connection fails every pending request exactly once.

Three monitors, all over the real ``cassandra.connection.Connection`` code:

A. *direct* - a real Connection without socket (sim.conn.BareConnection).  Handlers are registered through
   the real ``send_msg``; continuous-paging sessions are created exactly the way ResponseFuture does it
   (first page -> ``new_continuous_paging_session`` -> ``on_message``) with recording on_page/on_error.
   For each generated history the failure is injected before EVERY event index (fault enumeration):
   socket error (``defunct(exc)``), EOF/explicit close (``close()``), undecodable body on a pending / paging
   stream or on an EVENT, PROTOCOL_ERROR response on a pending / paging stream, unsupported version byte,
   negative body length; optionally the bytes of later responses arrive in the same read as the failing
   frame, optionally a second failure follows the first.
B. *session* - the full Cluster/Session/pool/ResponseFuture stack in the deterministic world over scripted
   wire-level nodes; the harness connection class counts handler invocations (send_msg is wrapped by a
   subclass, nothing else).  Failure at every action index: server reset, server EOF, explicit close(),
   corrupted response body, PROTOCOL_ERROR response, heartbeat failure (the real ConnectionHeartbeat.run on
   a world thread against a node that stops answering OPTIONS).
C. *line preemption* - real threads: the sender is stopped (sys.settrace) at every line boundary of the real
   ``send_msg`` while another thread runs ``defunct()`` / ``close()`` to completion, i.e. the one interleaving
   family the deterministic world cannot produce because it only switches at synchronisation points.

Oracle (all three): every handler outstanding when the failure happens is invoked exactly once and with a
connection error (ConnectionShutdown / ConnectionException, or the decode / protocol error for the request
that triggered it); nothing is delivered to it afterwards; a send after the failure raises
ConnectionShutdown; paging sessions got on_error exactly once and no page after it.
"""
import functools
import itertools
import random

PROPERTY = "C10"
LEVEL = "fault_enumeration"
ENGINE = "sim+stress"
TECHNIQUE = "fault enumeration: failure injected before every event of generated request histories; exactly-once counting of handler invocations"
LEVEL_TEXT = ("Every (history, failure kind, event index) triple of generated histories (3-9 events on a bare connection; 3-7 actions through "
              "the Session stack; every line boundary of send_msg for the preemption family) is executed against the real Connection code "
              "and the per-handler invocation log is checked: exactly one connection error per outstanding handler, no delivery after the "
              "failure, later sends refused, paging sessions errored once. The enumeration over failure points is complete per history; "
              "the histories themselves are sampled.")
LEVEL_NOTE = ("Trusted base: sim/conn.py BareConnection and sim/env.py SimConnection (push/close follow the reactors' contract: close() marks "
              "closed under the lock and errors all requests unless defunct), spec/frames.py encoders, sim/world.py. Handler invocations are "
              "counted by wrapping the callback passed to the real send_msg; paging sessions by wrapping on_page/on_error on the instance. "
              "The deterministic world switches threads only at synchronisation points; finer interleavings are covered only for send_msg "
              "(family C).")
QUICK_WORKERS = 4
WORKERS = 14

CONN_ERR_NAMES = ('ConnectionShutdown', 'ConnectionException')


# =====================================================================================================
# A. direct histories on a bare connection
# =====================================================================================================
FRAME_KINDS = ('garbage-pending', 'garbage-cp', 'garbage-event', 'protocol-pending', 'protocol-cp', 'bad-version', 'negative-length')
CALL_KINDS = ('reset', 'eof')
GARBAGE_BODIES = [b'\x00\x00\x00\x02', b'\x00\x00\x00\x02\x00\x00\x00\x01\x00\x00\x00\x05', b'\x00\x00\x00\x63', b'\xff']


def gen_history(rng):
    """events: ('send', tag, cp?) ('resp', tag) ('page', tag) ('last', tag).  Only well-formed histories."""
    n = rng.randint(3, 9)
    ev = []
    pending, cps = [], []
    tag = 0
    for _ in range(n):
        r = rng.random()
        if r < 0.45 or not (pending or cps):
            cp = rng.random() < 0.35
            ev.append(('send', tag, cp))
            pending.append((tag, cp))
            tag += 1
        elif r < 0.8 and pending:
            t, cp = pending.pop(rng.randrange(len(pending)))
            ev.append(('resp', t))
            if cp:
                cps.append(t)
        elif cps:
            t = rng.choice(cps)
            if rng.random() < 0.3:
                cps.remove(t)
                ev.append(('last', t))
            else:
                ev.append(('page', t))
        else:
            cp = rng.random() < 0.35
            ev.append(('send', tag, cp))
            pending.append((tag, cp))
            tag += 1
    return ev


def gen_bulk_history(rng):
    """many requests outstanding at once: error_all_requests hands the handlers to a helper thread once
    CALLBACK_ERR_THREAD_THRESHOLD (100) of them remain after the first"""
    n = rng.choice([99, 100, 101, 102, 103, 128, 150, 300])
    ncp = rng.choice([0, 0, 1, 2])
    ev = [('send', t, t < ncp) for t in range(n)]
    for t in range(ncp):
        ev.append(('resp', t))
    answered = rng.sample(range(ncp, n), rng.choice([0, 0, 1, 3]))
    for t in answered:
        ev.append(('resp', t))
    return ev


_HELPER_THREADS = []


def _recording_thread_class():
    import threading

    class RecordingThread(threading.Thread):
        def start(self):
            _HELPER_THREADS.append(self)
            threading.Thread.start(self)
    return RecordingThread


def _join_helper_threads(ctx):
    """error_all_requests may finish on a daemon helper thread: the oracle looks only after that thread ended"""
    while _HELPER_THREADS:
        t = _HELPER_THREADS.pop()
        t.join(120)
        ctx.count("direct_helper_threads_joined")
        if t.is_alive():
            ctx.note("a helper thread of error_all_requests did not end within 120 s (inconclusive for that case)")
            return False
    return True


def consumer_view(h):
    """what the consumer of a paging session will see, in arrival order: 'page' / 'error' items of the session's queue
    (on_page / on_error append on the left; nothing consumes in this harness)"""
    s = h['session']
    if s is None:
        return []
    return ['error' if item[2] is not None else 'page' for item in reversed(s._page_queue)]


class _CallableHandler(object):
    """a handler that is a callable instance (no __name__, no __qualname__)"""
    def __init__(self, fn):
        self._fn = fn

    def __call__(self, arg):
        return self._fn(arg)


class DirectRun(object):
    def __init__(self, mods, v):
        self.P, self.C, self.F, Bare = mods
        self.v = v
        self.conn = Bare('127.0.0.1', 9042, protocol_version=v)
        self.seq = itertools.count(1)
        self.h = {}               # tag -> dict
        self.fail_seq = None
        self.refused = 0
        self.accepted_after = []
        self.unexpected = []

    # -- events ------------------------------------------------------------------------------------
    def send(self, tag, cp):
        conn = self.conn
        h = {'tag': tag, 'cp': cp, 'calls': [], 'session': None, 'pages': [], 'errors': [], 'rid': None, 'sent_seq': next(self.seq)}
        P, C = self.P, self.C

        def cb(arg, h=h):
            h['calls'].append((next(self.seq), arg))
            if h['cp'] and isinstance(arg, P.ResultMessage) and h['session'] is None:
                # what ResponseFuture._handle_continuous_paging_first_response does
                s = conn.new_continuous_paging_session(arg.stream_id, P.ProtocolHandler.decode_message, lambda names, rows: rows,
                                                       C.ContinuousPagingState(4))
                real_page, real_err = s.on_page, s.on_error
                s.on_page = lambda result: (h['pages'].append(next(self.seq)), real_page(result))[1]
                s.on_error = lambda error: (h['errors'].append((next(self.seq), error)), real_err(error))[1]
                h['session'] = s
                s.on_message(arg)
            if h.get('raises') and isinstance(arg, Exception):
                # an application callback that blows up while being told about the failure: the others must still be told
                raise RuntimeError("handler of request %d raises on %s" % (h['tag'], type(arg).__name__))
        # the driver itself registers functools.partial objects and bound methods as handlers, not only plain functions
        shape = (tag * 7 + self.v) % 5
        if shape == 1:
            handler = functools.partial(cb)
        elif shape == 2:
            handler = _CallableHandler(cb)
        else:
            handler = cb
        h['raises'] = (not cp) and (tag * 13 + self.v) % 6 == 0
        with conn.lock:
            rid = conn.get_request_id()
            conn.in_flight += 1
        h['rid'] = rid
        try:
            conn.send_msg(P.OptionsMessage(), rid, handler)
        except C.ConnectionShutdown:
            self.refused += 1
            return False
        self.h[tag] = h
        if self.fail_seq is not None:
            self.accepted_after.append(tag)
        return True

    def frame_for(self, e):
        F, v = self.F, self.v
        kind, tag = e[0], e[1]
        h = self.h[tag]
        cols = [('ks', 't', 'a', ('int',))]
        if kind == 'resp' and not h['cp']:
            return F.response(v, h['rid'], 'RESULT', F.body_result_void())
        if kind == 'resp':
            return F.response(v, h['rid'], 'RESULT', F.body_result_rows(v, cols, [[b'\x00\x00\x00\x01']], continuous_seq=1, continuous_last=False))
        if kind == 'page':
            return F.response(v, h['rid'], 'RESULT', F.body_result_rows(v, cols, [[b'\x00\x00\x00\x02']], continuous_seq=2, continuous_last=False))
        if kind == 'last':
            return F.response(v, h['rid'], 'RESULT', F.body_result_rows(v, cols, [], continuous_seq=3, continuous_last=True))
        raise ValueError(kind)

    # -- state queries -----------------------------------------------------------------------------
    def pending_tags(self):
        return [t for t, h in self.h.items() if not h['calls']]

    def live_cp_tags(self):
        return [t for t, h in self.h.items() if h['session'] is not None and not h['session'].released]


def run_direct_case(ctx, mods, v, hist, kind, pos, same_read, second, rng_pick):
    """returns list of (mechanism, text) violations, or None when the (kind, pos) combination does not apply"""
    P, C, F, Bare = mods
    run = DirectRun(mods, v)
    conn = run.conn
    for e in hist[:pos]:
        if e[0] == 'send':
            run.send(e[1], e[2])
        else:
            conn.feed(run.frame_for(e))
    if conn.is_defunct or conn.is_closed:
        return [('connection-failed-on-valid-history', 'connection defunct/closed before any failure was injected: %r' % (conn.last_error,))]
    pending = run.pending_tags()
    live_cp = run.live_cp_tags()
    # ---- pick the target of frame-based failures
    target = None
    if kind in ('garbage-pending', 'protocol-pending'):
        if not pending:
            return None
        target = pending[rng_pick % len(pending)]
    elif kind in ('garbage-cp', 'protocol-cp'):
        if not live_cp:
            return None
        target = live_cp[rng_pick % len(live_cp)]
    if not pending and not live_cp:
        trivial = True
    else:
        trivial = False
    outstanding = set(pending)
    cp_live = set(live_cp)
    calls_before = dict((t, len(h['calls'])) for t, h in run.h.items())
    view_before = dict((t, len(consumer_view(h))) for t, h in run.h.items())
    # ---- the tail: frames of later responses that arrive in the same read as the failing frame
    tail = b''
    tail_events = []
    if same_read and kind in FRAME_KINDS:
        for e in hist[pos:]:
            if e[0] != 'send' and e[1] in run.h:
                h = run.h[e[1]]
                if e[0] == 'resp' and h['calls']:
                    continue
                if e[0] in ('page', 'last') and h['session'] is None:
                    continue
                tail += run.frame_for(e)
                tail_events.append(e)
    # ---- inject
    run.fail_seq = next(run.seq)
    exc = None
    if kind == 'reset':
        exc = ConnectionResetError(104, 'Connection reset by peer')
        conn.defunct(exc)
    elif kind == 'eof':
        conn.close()
    else:
        if kind in ('garbage-pending', 'garbage-cp'):
            body = GARBAGE_BODIES[rng_pick % len(GARBAGE_BODIES)]
            fr = F.frame(v, 0, run.h[target]['rid'], F.OPNUM['RESULT'] if body != b'\xff' else 0x7f, body)
        elif kind == 'garbage-event':
            fr = F.frame(v, 0, -1, F.OPNUM['EVENT'], b'\x00\x05BOGUS')
        elif kind in ('protocol-pending', 'protocol-cp'):
            fr = F.response(v, run.h[target]['rid'], 'ERROR', F.body_error(v, 'protocol', PROTOCOL_ERROR_TEXTS[rng_pick % len(PROTOCOL_ERROR_TEXTS)]))
        elif kind == 'bad-version':
            fr = bytes([0x80 | 0x7e]) + b'\x00\x00\x00\x02\x00\x00\x00\x00'
        elif kind == 'negative-length':
            fr = F.frame(v, 0, 0, F.OPNUM['READY'], b'')[:-4] + b'\xff\xff\xff\xff'
        try:
            conn.feed(fr + tail)
        except Exception as e:      # noqa
            return [('process-io-buffer-raises', 'feeding the failing frame raised %s: %s' % (type(e).__name__, e))]
        if not (conn.is_defunct or conn.is_closed):
            if kind in ('protocol-pending', 'protocol-cp'):
                # a PROTOCOL_ERROR answer on a stream that has a handler is one of the failures the property names: whatever its text, the
                # connection must be failed and every other outstanding handler errored
                ctx.count("direct_protocol_errors_that_did_not_fail_the_connection")
                others = [t for t in pending if t != target and not run.h[t]['calls'][calls_before[t]:]]
                return [('protocol-error-did-not-fail-connection', 'PROTOCOL_ERROR %r on stream %d left the connection open (is_defunct False, is_closed False); '
                         '%d other outstanding handler(s) were never invoked' % (PROTOCOL_ERROR_TEXTS[rng_pick % len(PROTOCOL_ERROR_TEXTS)],
                                                                                   run.h[target]['rid'], len(others)))]
            ctx.count("direct_failing_frame_not_rejected")
            return None
        if kind in ('protocol-pending', 'protocol-cp'):
            ctx.count("direct_protocol_error_texts_seen: %d" % (rng_pick % len(PROTOCOL_ERROR_TEXTS)))
    if not _join_helper_threads(ctx):
        return None
    ctx.count("direct_failures_injected")
    ctx.count("direct_outstanding_handlers_at_failure", len(outstanding))
    if len(outstanding) > C.Connection.CALLBACK_ERR_THREAD_THRESHOLD:
        ctx.count("direct_failures_with_more_than_threshold_outstanding")
    ctx.count("direct_live_paging_sessions_at_failure", len(cp_live))
    # ---- the rest of the history after the failure: sends must be refused; nothing else can arrive on a dead socket
    post_sends = 0
    for e in hist[pos:]:
        if e[0] == 'send':
            post_sends += 1
            run.send(e[1], e[2])
    # one more direct send, always
    post_sends += 1
    run.send(10000, False)
    ctx.count("direct_sends_after_failure", post_sends)
    # ---- optional second failure
    if second == 'reset':
        conn.defunct(ConnectionResetError(104, 'again'))
    elif second == 'eof':
        conn.close()
    elif second == 'garbage':
        try:
            conn.feed(F.frame(v, 0, -1, F.OPNUM['EVENT'], b'\x00\x05BOGUS'))
        except Exception as e:      # noqa
            return [('process-io-buffer-raises', 'feeding bytes after the failure raised %s: %s' % (type(e).__name__, e))]
    if not _join_helper_threads(ctx):
        return None
    # ---- oracle
    viol = []
    if not conn.is_closed:
        viol.append(('connection-not-closed-after-failure', 'failure %s left is_closed False' % kind))
    if run.accepted_after:
        viol.append(('send-accepted-after-failure', 'send_msg after %s registered %d handler(s) instead of raising ConnectionShutdown' % (kind, len(run.accepted_after))))
    for t in outstanding:
        h = run.h[t]
        new = h['calls'][calls_before[t]:]
        if len(new) == 0:
            viol.append(('pending-handler-never-errored', 'handler of request %d (stream %d) outstanding at the %s failure was never invoked' % (t, h['rid'], kind)))
            continue
        if len(new) > 1:
            viol.append(('pending-handler-invoked-more-than-once', 'handler of request %d invoked %d times after the %s failure: %s' % (
                t, len(new), kind, [type(a).__name__ for _, a in new])))
            continue
        arg = new[0][1]
        ok = isinstance(arg, C.ConnectionException)
        if t == target and kind in ('garbage-pending', 'protocol-pending'):
            ok = isinstance(arg, Exception)
        if not ok:
            if isinstance(arg, Exception):
                viol.append(('pending-handler-got-non-connection-error', 'handler of request %d got %s (%s) for failure %s' % (t, type(arg).__name__, arg, kind)))
            else:
                viol.append(('response-delivered-after-failure', 'handler of request %d received %s after the %s failure' % (t, type(arg).__name__, kind)))
    for t, h in run.h.items():
        if t in outstanding or t in run.accepted_after:
            continue
        if len(h['calls']) != calls_before.get(t, 0):
            viol.append(('completed-handler-invoked-again', 'handler of request %d, already answered before the failure, was invoked again' % t))
    for t in run.accepted_after:
        pass
    for t in cp_live:
        h = run.h[t]
        # judged on what reaches the consumer (the session's queue), not on how often the driver calls into the session
        after = consumer_view(h)[view_before[t]:]
        nerr = after.count('error')
        first_err = after.index('error') if nerr else None
        late_pages = [i for i, k in enumerate(after) if k == 'page']
        if nerr == 0:
            if kind == 'eof':
                viol.append(('cp-session-not-errored-on-close', 'paging session on stream %d got no on_error when the connection was closed (close())' % h['rid']))
            else:
                viol.append(('cp-session-never-errored', 'paging session on stream %d got no on_error after failure %s' % (h['rid'], kind)))
        elif nerr > 1:
            if kind == 'protocol-cp' and t == target and nerr == 2:
                viol.append(('cp-session-errored-twice-by-protocol-error', 'paging session on stream %d got on_error twice for one PROTOCOL_ERROR response '
                             '(once from defunct(), once from on_message)' % h['rid']))
            else:
                viol.append(('cp-session-errored-more-than-once', 'paging session on stream %d got on_error %d times after failure %s (second=%s)' % (
                    h['rid'], nerr, kind, second)))
        if nerr and any(i > first_err for i in late_pages):
            if same_read and kind in FRAME_KINDS:
                viol.append(('cp-session-page-after-error-same-read', 'paging session on stream %d received a page after its on_error: the page frame was in the same '
                             'read as the failing frame and process_io_buffer kept dispatching' % h['rid']))
            else:
                viol.append(('cp-session-page-after-error', 'paging session on stream %d received a page after its on_error' % h['rid']))
        elif not nerr and late_pages and kind != 'eof':
            viol.append(('cp-session-page-after-failure', 'paging session on stream %d received a page after failure %s' % (h['rid'], kind)))
    if conn._requests:
        viol.append(('handler-left-registered-after-failure', '%d handlers still registered after failure %s' % (len(conn._requests), kind)))
    return viol, trivial, (len(outstanding), len(cp_live), target is not None)


def run_direct(ctx, budget_s):
    from cassandra import protocol as P
    from cassandra import connection as C
    from sim.conn import make_classes
    from spec import frames as F
    Bare = make_classes()
    mods = (P, C, F, Bare)
    rng = ctx.rng
    nh = 0
    import time as _t
    saved_thread = C.Thread
    C.Thread = _recording_thread_class()
    try:
        _run_direct_loop(ctx, mods, rng, budget_s)
    finally:
        C.Thread = saved_thread


def _run_direct_loop(ctx, mods, rng, budget_s):
    import time as _t
    nh = 0
    end = _t.time() + budget_s          # wall-clock only bounds the amount of work, never a verdict
    while (_t.time() < end or nh < (15 if ctx.quick else 40)) and nh < ctx.scale(400, 40000):
        nh += 1
        bulk = nh % 8 == 1
        hist = gen_bulk_history(rng) if bulk else gen_history(rng)
        v = rng.choice([3, 4, 4])
        pick = rng.randrange(1000)
        sig = tuple((e[0], e[1]) + ((e[2],) if e[0] == 'send' else ()) for e in hist)
        if bulk:
            sig = ('bulk', sum(1 for e in hist if e[0] == 'send'), tuple(e for e in hist if e[0] != 'send'))
            ctx.count("direct_bulk_histories")
        for kind in CALL_KINDS + FRAME_KINDS:
            for pos in (range(len(hist) + 1) if not bulk else (len(hist), len(hist) - rng.randrange(1, 4))):
                variants = [(False, None)]
                if kind in FRAME_KINDS:
                    variants.append((True, None))
                variants.append((False, rng.choice(['reset', 'eof', 'garbage'])))
                for same_read, second in variants:
                    res = run_direct_case(ctx, mods, v, hist, kind, pos, same_read, second, pick)
                    if res is None:
                        ctx.count("direct_inapplicable_points")
                        continue
                    if isinstance(res, list):
                        viol, trivial, info = res, False, None
                    else:
                        viol, trivial, info = res
                    ctx.case(repr(('A', v, sig, kind, pos, same_read, second, pick % 4)), nontrivial=not trivial)
                    ctx.count("direct_cases")
                    seen = set()
                    for mech, what in viol:
                        if mech in seen:
                            continue
                        seen.add(mech)
                        ctx.violation(mech, "%s [direct, v%d, failure %s before event %d of %d, same_read=%s, second=%s]" % (
                            what, v, kind, pos, len(hist), same_read, second),
                            {"layer": "direct", "version": v, "history": [list(e) for e in hist], "failure": kind, "before_event": pos,
                             "same_read": same_read, "second_failure": second})
                    if not viol and len(ctx.samples) < 2 and info and info[0] >= 2 and info[1] >= 1:
                        ctx.sample({"layer": "direct", "version": v, "history": [list(e) for e in hist], "failure": kind, "before_event": pos,
                                    "outstanding_handlers": info[0], "live_paging_sessions": info[1]})
        ctx.count("direct_histories")


# =====================================================================================================
# B. the Session stack in the deterministic world
# =====================================================================================================
# what Cassandra writes into a PROTOCOL_ERROR: the text is input like everything else (the driver looks at it)
PROTOCOL_ERROR_TEXTS = ['Invalid or unexpected frame',
                        'Invalid or unsupported protocol version (7); supported versions are (3/v3, 4/v4, 5/v5, 6/v6-beta)',
                        'Beta version of the protocol used (6/v6-beta), but USE_BETA flag is unset',
                        'Invalid value for the compression option: bogus', '', 'Unknown opcode 99',
                        'Invalid or unsupported protocol version: 2']

SESSION_KINDS = ('reset', 'eof', 'close', 'garbage', 'protocol', 'heartbeat')


def gen_session_history(rng):
    n = rng.randint(3, 7)
    acts = []
    uid = 0
    held = 0
    for _ in range(n):
        r = rng.random()
        if r < 0.6 or uid == 0:
            k = rng.choices(['rows', 'hold', 'silent'], [3, 5, 2])[0]
            acts.append(('send', uid, k))
            uid += 1
            if k == 'hold':
                held += 1
        elif r < 0.75 and held:
            acts.append(('release', rng.randrange(held)))
        elif r < 0.9:
            acts.append(('settle',))
        else:
            acts.append(('advance', rng.choice([0.3, 1.2])))
    return acts


def counting_class(base, seq, log):
    """SimConnection subclass that counts handler invocations; the driver logic is untouched."""
    class Counting(base):
        def send_msg(self, msg, request_id, cb, *a, **kw):
            from sim.env import current_world
            w = current_world()
            ent = {'conn': self, 'rid': request_id, 'calls': [], 'cb': cb, 'msg': type(msg).__name__, 'accepted': False,
                   'dead_at_send': bool(self.is_defunct or self.is_closed), 'seq': next(seq), 't': w.now if w is not None else 0.0}

            def counted(arg, ent=ent, cb=cb):
                ent['calls'].append((next(seq), arg, bool(self.is_defunct or self.is_closed)))
                return cb(arg)
            ent['wrapped'] = counted
            log.append(ent)
            r = base.send_msg(self, msg, request_id, counted, *a, **kw)
            ent['accepted'] = True
            return r
    return Counting


def run_session_case(ctx, seed, nodes, proto, acts, kind, pos, p_preempt):
    from sim.env import SimEnv
    from sim import world as W
    from sim.scen import Plan, Recorder
    from spec import frames as F
    from cassandra import OperationTimedOut
    from cassandra import connection as C
    from cassandra import protocol as P
    random.seed(seed)
    ch = W.RandomChooser(random.Random(seed * 13 + 5), p_time=0.0, p_preempt=p_preempt)
    addrs = ['127.0.0.1', '127.0.0.2'][:nodes]
    env = SimEnv(ch, addresses=addrs)
    seq = itertools.count(1)
    log = []
    env.conn_class = counting_class(env.conn_class, seq, log)
    plan = Plan()
    ctl = {'hb_dead': False}

    def behaviour(node, cstate, req):
        if ctl['hb_dead'] and req['op'] == 'OPTIONS' and cstate.ready and node.address == addrs[0]:
            return ('silence',)
        return plan.behaviour(node, cstate, req)
    for n in env.net.nodes.values():
        n.behaviour = behaviour
    viol = []
    info = {'seed': seed, 'nodes': nodes, 'proto': proto, 'failure': kind, 'before_action': pos, 'actions': [list(a) for a in acts]}
    with env:
        cluster = env.cluster(protocol_version=proto, connect_timeout=5.0)
        session = cluster.connect()
        rec = Recorder(env.world)
        target = [c for c in env.net.conns if c.sim_creator == 'pool-init' and str(c.endpoint.address) == addrs[0] and not c.is_closed]
        if not target:
            raise RuntimeError("no pool connection to the first node")
        conn = target[0]
        hb = None
        if kind == 'heartbeat':
            hb = C.ConnectionHeartbeat.__new__(C.ConnectionHeartbeat)
            hb._interval, hb._timeout, hb._get_connection_holders = 2.0, 1.0, cluster.get_connection_holders
            real_ev = C.Event()

            class _Between(object):
                """the heartbeat thread's stop event, recording whether the thread sits between two rounds (in its interval wait)"""
                def wait(self, t=None):
                    ctl['hb_between_rounds'] = True
                    try:
                        return real_ev.wait(t)
                    finally:
                        ctl['hb_between_rounds'] = False

                def is_set(self):
                    return real_ev.is_set()

                def set(self):
                    real_ev.set()
            hb._shutdown_event = _Between()
            env.world.spawn(hb.run, name='heartbeat')
        ch.p_time = 0.05
        held_of = []

        def do(a):
            if a[0] == 'send':
                plan.set(a[1], a[2])
                rec.execute_async(session, a[1], timeout=2.0)
            elif a[0] == 'release':
                hs = [h for h in env.net.held if not h.done]
                if hs:
                    hs[a[1] % len(hs)].release()
            elif a[0] == 'settle':
                env.world.settle(advance=False)
            elif a[0] == 'advance':
                env.world.advance_to(env.world.now + a[1])
        for a in acts[:pos]:
            do(a)
        # ------------------------------------------------------------------ inject
        applicable = True
        with env.world.inspect():
            streams = sorted(conn._requests.keys())
            already_dead = conn.is_closed or conn.is_defunct
            outstanding_before = len(streams)
        if already_dead:
            applicable = False
        elif kind == 'reset':
            env.net.server_close(conn, reset=True)
        elif kind == 'eof':
            env.net.server_close(conn, reset=False)
        elif kind == 'close':
            conn.close()
        elif kind == 'garbage':
            if streams:
                env.net.send(conn, F.frame(proto, 0, streams[seed % len(streams)], F.OPNUM['RESULT'], b'\x00\x00\x00\x02\x00'))
            else:
                env.net.send(conn, F.frame(proto, 0, -1, F.OPNUM['EVENT'], b'\x00\x05BOGUS'))
        elif kind == 'protocol':
            if streams:
                env.net.send(conn, F.response(proto, streams[seed % len(streams)], 'ERROR',
                                              F.body_error(proto, 'protocol', PROTOCOL_ERROR_TEXTS[(seed // 7) % len(PROTOCOL_ERROR_TEXTS)])))
            else:
                applicable = False
        elif kind == 'heartbeat':
            ctl['hb_dead'] = True
            ctl['t_dead'] = env.world.now
        if applicable:
            if kind == 'heartbeat':
                env.world.advance_to(env.world.now + 12.0)       # 2 s rounds: one to find the connection idle, the next sends the heartbeat; 1 s each to give up
            if seed % 3:
                env.world.settle(advance=False)
            for a in acts[pos:]:
                do(a)
            for h in list(env.net.held):
                h.release()
            env.world.settle(advance=False)
            if hb is not None:
                # Every connection (pool or control) whose heartbeat was sent to the silent node in a round that is over: the heartbeat failed,
                # so the connection must have been failed (its handlers are then judged below like any other).  "Over" is decided on the
                # heartbeat thread's own state, not on elapsed time (a thread may be scheduled arbitrarily late): with every thread run until
                # it blocks, the thread either sits in its interval wait - all rounds it started are complete - or inside a round, in which
                # case time is moved on by one heartbeat timeout and the question is asked again.
                for _ in range(12):
                    if ctl.get('hb_between_rounds'):
                        break
                    env.world.advance_to(env.world.now + 1.0)
                    env.world.settle(advance=False)
                if not ctl.get('hb_between_rounds'):
                    info['heartbeat_round_never_ended'] = True
                else:
                    with env.world.inspect():
                        for ent in log:
                            c = ent['conn']
                            if ent['msg'] == 'OptionsMessage' and ent['accepted'] and not any(not isinstance(x[1], Exception) for x in ent['calls']) \
                                    and str(c.endpoint.address) == addrs[0] and ctl.get('t_dead') is not None and ent['t'] > ctl['t_dead']:
                                info['heartbeats_unanswered'] = info.get('heartbeats_unanswered', 0) + 1
                                if getattr(c, 'is_control_connection', False):
                                    info['heartbeats_unanswered_control'] = info.get('heartbeats_unanswered_control', 0) + 1
                                if not (c.is_closed or c.is_defunct):
                                    viol.append(('connection-not-failed-after-heartbeat-failure', 'connection %d (%s%s) sent a heartbeat at t=%.2f that was never '
                                                 'answered; its heartbeat round is over (t=%.2f) and it is neither defunct nor closed, the heartbeat handler was '
                                                 'never invoked' % (c.sim_id, c.sim_creator, ', control' if getattr(c, 'is_control_connection', False) else '',
                                                                    ent['t'], env.world.now)))
                hb._shutdown_event.set()
            env.world.advance_to(env.world.now + 4.0)
            env.world.settle(advance=False)
            # ------------------------------------------------------------------ oracle
            with env.world.inspect():
                failed = conn.is_closed or conn.is_defunct
                info['outstanding_before'] = outstanding_before
                if not failed:
                    if kind == 'heartbeat' or (kind in ('garbage', 'protocol') and streams):
                        # heartbeat: the connection was not idle for a whole interval; garbage/protocol: the genuine response was already
                        # queued in front of the injected frame, which then addresses a stream without handler and is dropped by design
                        info['not_failed'] = True
                    else:
                        viol.append(('connection-not-closed-after-failure', 'connection %d still open after failure %s' % (conn.sim_id, kind)))
                else:
                    # a direct send on the failed connection must be refused
                    try:
                        conn.send_msg(P.OptionsMessage(), 0, lambda r: None)
                        viol.append(('send-accepted-after-failure', 'send_msg on failed connection %d was accepted' % conn.sim_id))
                    except C.ConnectionShutdown:
                        info['direct_send_refused'] = True
                odd_errors = 0
                for ent in log:
                    c = ent['conn']
                    if not (c.is_closed or c.is_defunct):
                        continue
                    where = 'conn %d (%s) stream %d %s' % (c.sim_id, c.sim_creator, ent['rid'], ent['msg'])
                    if ent['accepted'] and ent['dead_at_send']:
                        viol.append(('send-accepted-after-failure', 'send_msg accepted a request on an already failed connection: ' + where))
                    if not ent['accepted']:
                        if ent['calls']:
                            viol.append(('refused-send-handler-invoked', 'send_msg raised but the handler was invoked: ' + where))
                        continue
                    n = len(ent['calls'])
                    if n > 1:
                        viol.append(('pending-handler-invoked-more-than-once', 'handler invoked %d times (%s): %s' % (
                            n, [type(x[1]).__name__ for x in ent['calls']], where)))
                        continue
                    if n == 0:
                        cur = c._requests.get(ent['rid'])
                        if cur is not None and cur[0] is ent['wrapped']:
                            viol.append(('pending-handler-never-errored', 'handler still registered on the failed connection and never invoked: ' + where))
                        else:
                            rf = getattr(getattr(ent['cb'], 'func', None), '__self__', None)
                            fe = getattr(rf, '_final_exception', None)
                            if not isinstance(fe, OperationTimedOut):
                                viol.append(('pending-handler-dropped-without-error', 'handler removed from the failed connection without being invoked '
                                             'and its request did not time out: ' + where))
                            else:
                                info['timed_out_handlers'] = info.get('timed_out_handlers', 0) + 1
                        continue
                    _, arg, dead = ent['calls'][0]
                    if dead and not isinstance(arg, Exception):
                        # the genuine answer was dispatched between close()'s `is_closed = True` and the swap of the handler table: the request was answered
                        # (once) instead of errored - it was not outstanding any more when the handlers were failed.  A delivery AFTER the error would be a
                        # second invocation and is caught above.
                        info['answered_in_close_window'] = info.get('answered_in_close_window', 0) + 1
                    if isinstance(arg, Exception) and not isinstance(arg, C.ConnectionException):
                        odd_errors += 1
                        if odd_errors > 1 or c is not conn or kind not in ('garbage', 'protocol'):
                            viol.append(('pending-handler-got-non-connection-error', 'handler got %s (%s): %s' % (type(arg).__name__, str(arg)[:80], where)))
                    if isinstance(arg, Exception):
                        info['errored_handlers'] = info.get('errored_handlers', 0) + 1
                info['handlers'] = len(log)
        info['applicable'] = applicable
        harness = list(env.world.errors) + [('parse', p) for p in env.net.parse_failures]
        sig = tuple(x[:2] for x in env.world.trace)
        if hb is not None:
            hb._shutdown_event.set()
        cluster.shutdown()
        env.world.settle()
        # after shutdown every connection is closed: the same exactly-once law holds for all of them
        with env.world.inspect():
            for ent in log:
                if ent['accepted'] and len(ent['calls']) > 1:
                    viol.append(('pending-handler-invoked-more-than-once', 'handler invoked %d times (%s) by the end of the run: conn %d stream %d %s' % (
                        len(ent['calls']), [type(x[1]).__name__ for x in ent['calls']], ent['conn'].sim_id, ent['rid'], ent['msg'])))
    return viol, harness, sig, info, rec.events


def run_session(ctx, budget_s):
    from vlib.run import Inconclusive
    from sim.world import WorldLimit
    import gc
    rng = ctx.rng
    base = ctx.seed * 1000003 + (ctx.worker or 0) * 100003
    nh = 0
    n_min = 40 if ctx.quick else 100          # cases per worker, whatever the box is doing: the floors must never depend on the load
    done = [0]
    while (ctx.time_left(budget_s) > 0 or done[0] < n_min) and nh < ctx.scale(60, 6000):
        nh += 1
        acts = gen_session_history(rng)
        nodes = rng.choice([1, 2, 2])
        proto = rng.choice([2, 3, 4, 4])
        p_preempt = rng.choice([0.0, 0.1, 0.3])
        hseed = base + nh * 101
        for kind in SESSION_KINDS:
            for pos in range(len(acts) + 1):
                if ctx.time_left(budget_s) < 0 and done[0] >= n_min:
                    break
                seed = hseed + pos
                gc.collect()            # garbage of earlier worlds must not be finalised inside this one (reproducibility from the seed)
                gc.disable()
                try:
                    viol, harness, sig, info, events = run_session_case(ctx, seed, nodes, proto, acts, kind, pos, p_preempt)
                except WorldLimit:
                    ctx.count("session_cases_over_budget")
                    continue
                except Exception as e:        # noqa
                    raise Inconclusive("session case seed %d (%s before action %d) failed in the harness: %s: %s" % (seed, kind, pos, type(e).__name__, e))
                finally:
                    gc.enable()
                if harness:
                    raise Inconclusive("harness error in session case seed %d (%s before action %d): %r" % (seed, kind, pos, harness[:2]))
                if not info['applicable']:
                    ctx.count("session_inapplicable_points")
                    continue
                ctx.case(repr(('B', kind, pos, sig)), nontrivial=info.get('outstanding_before', 0) > 0)
                ctx.count("session_cases")
                done[0] += 1
                ctx.count("session_failures_" + kind)
                ctx.count("session_handlers_counted", info.get('handlers', 0))
                ctx.count("session_handlers_errored_by_failure", info.get('errored_handlers', 0))
                ctx.count("session_outstanding_at_failure", info.get('outstanding_before', 0))
                if info.get('direct_send_refused'):
                    ctx.count("session_sends_after_failure_refused")
                ctx.count("session_answers_dispatched_inside_the_close_window", info.get('answered_in_close_window', 0))
                if info.get('not_failed'):
                    ctx.count("session_injection_did_not_fail_connection")
                if info.get('heartbeat_round_never_ended'):
                    ctx.count("session_heartbeat_round_never_ended_not_judged")
                ctx.count("session_heartbeats_never_answered_and_judged", info.get('heartbeats_unanswered', 0))
                ctx.count("session_heartbeats_never_answered_on_the_control_connection", info.get('heartbeats_unanswered_control', 0))
                seen = set()
                for mech, what in viol:
                    if mech in seen:
                        continue
                    seen.add(mech)
                    ctx.violation(mech, "%s [session, seed %d, v%d, %d node(s), failure %s before action %d of %d]" % (
                        what, seed, proto, nodes, kind, pos, len(acts)),
                        {"layer": "session", "info": info, "client_history": [repr(e)[:140] for e in events[-30:]]})
                if not viol and len(ctx.samples) < 4 and info.get('errored_handlers', 0) >= 2:
                    ctx.sample({"layer": "session", "info": info, "client_history": [repr(e)[:120] for e in events[:20]]})
        ctx.count("session_histories")


# =====================================================================================================
# C. real threads: the sender preempted at every line of send_msg while the connection fails
# =====================================================================================================
def run_line_preemption(ctx):
    import sys
    import threading
    from cassandra import protocol as P
    from cassandra import connection as C
    from sim.conn import make_classes
    Bare = make_classes()
    code = C.Connection.send_msg.__code__
    lines = sorted(set(l for _, _, l in code.co_lines() if l is not None and l > code.co_firstlineno))
    for fail in ('defunct', 'close'):
        for holds_lock in (False, True):
            for ln in lines:
                conn = Bare('127.0.0.1', 9042, protocol_version=4)
                calls = {'old': [], 'new': []}
                with conn.lock:
                    rid0 = conn.get_request_id()
                    conn.in_flight += 1
                conn.send_msg(P.OptionsMessage(), rid0, lambda a: calls['old'].append(a))
                state = {'fired': False, 'b_done_in_window': None, 'raised': None, 'returned': False}

                def failer():
                    if fail == 'defunct':
                        conn.defunct(ConnectionResetError(104, 'reset'))
                    else:
                        conn.close()
                tb = threading.Thread(target=failer, daemon=True)

                def local(frame, event, arg):
                    if event == 'line' and frame.f_lineno == ln and not state['fired']:
                        state['fired'] = True
                        tb.start()
                        tb.join(0.2 if holds_lock else 5.0)      # with the lock held by the sender the failer must wait: that is the point
                        state['b_done_in_window'] = not tb.is_alive()
                    return local

                def glob(frame, event, arg):
                    if frame.f_code is code:
                        return local
                    return None

                def sender():
                    with conn.lock:
                        rid = conn.get_request_id()
                        conn.in_flight += 1
                    sys.settrace(glob)
                    try:
                        if holds_lock:
                            with conn.lock:
                                conn.send_msg(P.OptionsMessage(), rid, lambda a: calls['new'].append(a))
                        else:
                            conn.send_msg(P.OptionsMessage(), rid, lambda a: calls['new'].append(a))
                        state['returned'] = True
                    except C.ConnectionShutdown as e:
                        state['raised'] = e
                    finally:
                        sys.settrace(None)
                ta = threading.Thread(target=sender, daemon=True)
                ta.start()
                ta.join(60)
                if not state['fired']:
                    ctx.count("preemption_lines_not_reached")
                    continue
                tb.join(60)
                if ta.is_alive() or tb.is_alive():
                    from vlib.run import Inconclusive
                    raise Inconclusive("line-preemption harness thread did not finish (line %d)" % ln)
                ctx.case(repr(('C', fail, holds_lock, ln)), nontrivial=True)
                ctx.count("preemption_cases")
                if state['b_done_in_window']:
                    ctx.count("preemption_failure_ran_inside_send_msg")
                wit = {"layer": "line-preemption", "failure": fail, "sender_holds_conn_lock": holds_lock, "preempted_before_line": ln,
                       "source_line": _src_line(C, ln), "send_msg_returned": state['returned'], "send_msg_raised": repr(state['raised']),
                       "new_handler_calls": [type(a).__name__ for a in calls['new']], "old_handler_calls": [type(a).__name__ for a in calls['old']]}
                where = "[real threads: sender stopped before connection.py:%d `%s` while another thread ran %s() to completion; sender %s conn.lock]" % (
                    ln, _src_line(C, ln), fail, 'holds' if holds_lock else 'does not hold')
                if len(calls['old']) != 1 or not isinstance(calls['old'][0], C.ConnectionException):
                    ctx.violation('pending-handler-never-errored' if not calls['old'] else 'pending-handler-invoked-more-than-once',
                                  "the handler registered before the failure was invoked %d times %s" % (len(calls['old']), where), wit)
                if state['returned']:
                    if len(calls['new']) == 0:
                        still = conn._requests.get(1) is not None or any(True for _ in conn._requests)
                        ctx.violation('handler-stored-after-requests-swap-never-errored',
                                      "send_msg returned normally although the connection failed meanwhile; its handler %s and was never invoked %s" % (
                                          'sits in the fresh _requests table' if still else 'is gone', where), wit)
                    elif len(calls['new']) > 1:
                        ctx.violation('pending-handler-invoked-more-than-once', "handler of the racing send invoked %d times %s" % (len(calls['new']), where), wit)
                    elif not isinstance(calls['new'][0], C.ConnectionException):
                        ctx.violation('pending-handler-got-non-connection-error', "handler of the racing send got %r %s" % (calls['new'][0], where), wit)
                    else:
                        ctx.count("preemption_racing_send_errored_once")
                else:
                    if calls['new']:
                        ctx.violation('refused-send-handler-invoked', "send_msg raised ConnectionShutdown but its handler was invoked %s" % where, wit)
                    else:
                        ctx.count("preemption_racing_send_refused")


def _src_line(C, ln):
    import linecache
    return linecache.getline(C.__file__, ln).strip()[:90]


def run(ctx):
    from vlib import shim
    shim.import_cluster()
    ctx.rule = ("a case is (history, failure kind, event index[, same-read tail, second failure]); histories are sampled, failure points are "
                "enumerated completely per history; distinct by the tuple (session layer: by the world's event-order signature); non-trivial = at "
                "least one handler or paging session is outstanding at the failure point")
    ctx.assume("a reactor's close() follows the contract all reactors in cassandra/io implement: mark closed under the lock, then error_all_requests "
               "unless defunct (sim/conn.py, sim/env.py)")
    ctx.assume("after the socket is dead no further bytes are delivered, except bytes that were part of the same read as the failing frame")
    if ctx.worker in (None, 0):
        run_line_preemption(ctx)
    run_direct(ctx, 8 if ctx.quick else 90)
    run_session(ctx, 38 if ctx.quick else 400)
    # floors are far below what an idle machine reaches (the box is shared): they only guarantee that every monitor was reached
    ctx.floor_distinct = 1000 if ctx.quick else 20000
    ctx.floor_counters = {"session_heartbeats_never_answered_and_judged": 60, "session_heartbeats_never_answered_on_the_control_connection": 20, "direct_cases": 1000, "direct_failures_with_more_than_threshold_outstanding": 10, "direct_outstanding_handlers_at_failure": 1500, "direct_live_paging_sessions_at_failure": 150,
                          "direct_sends_after_failure": 1500, "session_cases": 100, "session_handlers_errored_by_failure": 80,
                          "session_sends_after_failure_refused": 80, "preemption_cases": 20}
