"""C11 - messages pushed concurrently reach the socket whole and in order.

Monitor: the real AsyncioConnection and the real TwistedConnection (one subprocess per run:
process-global loops) connect over loopback to a peer thread that records every byte; N threads
push self-describing messages through ``conn.push`` with yield injection (sys.monitoring LINE
events restricted to the push path); the peer's byte stream is parsed back by
native/reactor_push.py and judged here.

Four runs in five are "wide": a few 128 KiB - 1 MiB messages (32/64/128/256 chunks exactly and one
byte more, 300 KiB, 1 MiB + 5) are mixed into the plans, and two more pushers call ``conn.push`` on
the reactor's own thread concurrently with the thread pushers: one message per loop iteration in
seeded bursts and around every large push (call_soon_threadsafe / callFromThread entry), and one
message per byte the peer echoes, pushed from the callback the reactor's real read path invokes
(the way response callbacks send follow-up requests).  Same oracle for every pusher.
"""
import json
import os
import subprocess
import sys
import tempfile

PROPERTY = "C11"
LEVEL = "exploration"
ENGINE = "stress"
TECHNIQUE = "runtime monitor under real threads: byte-stream conservation/ordering oracle at the peer, yield injection via sys.monitoring"
LEVEL_TEXT = ("For each usable event-loop reactor (asyncio, twisted) tens (quick) to ~1000 (thorough) runs of 2-8 threads x 30-400 messages of "
              "sizes around the 4096-byte chunking threshold, plus (4 runs in 5) a few 128 KiB - 1 MiB messages on and next to chunk-count "
              "boundaries and two pushers that call conn.push on the reactor's own thread (every loop iteration in seeded bursts and around each "
              "large push; from the read-path callback for bytes the peer echoes), are pushed concurrently, with seeded sleep(0) injection at "
              "statement starts of push/_push_msg/handle_write; the bytes the peer received must parse into whole messages, each pusher's "
              "sequence numbers ascending without gaps, total bytes conserved. Held on the interleavings that occurred.")
LEVEL_NOTE = ("Trusted base: the loopback peer and the stream parser. eventlet/gevent/libev/asyncore reactors cannot run on this interpreter and "
              "are outside 'reactors usable on the supported Python versions' here. A byte count that stops growing for 10 s after all pushes "
              "returned is judged as lost messages (logical completion), an overall 120 s watchdog as inconclusive.")
QUICK_WORKERS = 4
WORKERS = 14
QUICK_TIMEOUT = 900


def run(ctx):
    from vlib.run import VERIF, Inconclusive
    rng = ctx.rng
    ctx.rule = ("a case is one run (reactor, threads, messages per thread, injection on/off, slow peer, wide workload on/off, seed); distinct "
                "by parameters+seed; all runs with >= 2 threads are non-trivial")
    n = ctx.scale(10, 1500)
    budget = 45 if ctx.quick else 420
    tmpd = tempfile.mkdtemp(prefix="verif_c11_")
    try:
        for i in range(n):
            if ctx.time_left(budget) < 0:
                ctx.note("stopped by time budget after %d runs" % i)
                break
            which = ['asyncio', 'twisted'][(i + (ctx.worker or 0)) % 2]
            nthreads = rng.choice([2, 4, 8])
            nmsgs = rng.choice([30, 50] if ctx.quick else [50, 150, 400])
            inject = 1 if rng.random() < 0.7 else 0
            slow = 1 if i % 3 == 2 else 0           # back-pressure: small kernel buffers + a slowly reading peer
            if slow:
                nmsgs = min(nmsgs, 40)
                inject = 0
            seed = rng.getrandbits(30)
            wide = 0 if i % 5 == 3 else 1           # large messages + pushes from the reactor's own thread
            out = os.path.join(tmpd, "r%d.json" % i)
            env = dict(os.environ, PYTHONPATH='')
            try:
                r = subprocess.run([sys.executable, os.path.join(VERIF, "native", "reactor_push.py"), ctx.repo, which, str(seed), str(nthreads),
                                    str(nmsgs), str(inject), out, str(slow), str(wide)], capture_output=True, text=True, timeout=300, env=env, cwd=tmpd)
            except subprocess.TimeoutExpired:
                ctx.count("runs_watchdog_fired")
                continue
            if not os.path.exists(out):
                raise Inconclusive("reactor run produced no result: %s" % (r.stdout + r.stderr)[-500:])
            res = json.load(open(out))
            os.remove(out)
            if res.get('harness_error'):
                raise Inconclusive("reactor run harness error: %s" % res['harness_error'])
            if res.get('wide') != bool(wide) or 'large_delivered' not in res:
                raise Inconclusive("native/reactor_push.py did not run the workload asked for (wide=%d): %r" % (wide, sorted(res)))
            ctx.case(repr((which, nthreads, nmsgs, inject, slow, wide, seed)), nontrivial=nthreads >= 2)
            ctx.count("runs_" + which)
            if slow:
                ctx.count("runs_with_back_pressure_slow_peer_small_buffers")
            ctx.count("messages_checked", res['messages_parsed'])
            ctx.count("bytes_received", res['received_bytes'])
            ctx.count("yield_injection_line_events", res['line_events'])
            wit = {k: res[k] for k in ('reactor', 'seed', 'threads', 'msgs', 'inject', 'slow_peer', 'wide', 'expected_bytes', 'received_bytes',
                                       'messages_parsed', 'messages_expected', 'problems', 'is_defunct', 'last_error', 'push_errors',
                                       'large_planned', 'large_delivered', 'loop_thread_pushes', 'read_callback_pushes')}
            if wide:
                ctx.count("runs_wide_" + which)
            if res.get('loop_unresponsive'):
                ctx.count("runs_reactor_thread_did_not_answer_within_20s")
            if res['push_errors']:
                ctx.violation("push-raised", "%s: conn.push raised %s" % (which, res['push_errors'][0]), wit)
                continue
            if res['received_bytes'] == 0:
                ctx.violation("nothing-written-to-socket", "%s: %d threads pushed %d bytes, the peer received nothing" % (which, nthreads, res['expected_bytes']), wit)
                continue
            if res['problems']:
                ctx.violation("stream-not-whole-and-ordered", "%s: %s" % (which, '; '.join(res['problems'][:3])), wit)
                continue
            if res['stalled'] or res['messages_parsed'] != res['messages_expected'] or res['received_bytes'] != res['expected_bytes']:
                ctx.violation("messages-lost", "%s: %d of %d messages (%d of %d bytes) reached the peer" % (
                    which, res['messages_parsed'], res['messages_expected'], res['received_bytes'], res['expected_bytes']), wit)
                continue
            ctx.count("runs_stream_whole_and_ordered")
            # floors: only what the peer received whole, in a run whose whole stream was in order
            ctx.count("large_messages_128KiB_to_1MiB_delivered_" + which, res['large_delivered'])
            ctx.count("messages_300KiB_or_more_delivered_" + which, res['huge_delivered'])
            ctx.count("large_pushes_made_while_reactor_thread_was_pushing_" + which, res['large_pushed_while_loop_thread_pushing'])
            ctx.count("reactor_thread_pushes_delivered_" + which, res['loop_thread_pushes_delivered'])
            ctx.count("reactor_thread_pushes_from_read_callback_delivered_" + which, res['read_callback_pushes_delivered'])
            if len(ctx.samples) < 4:
                ctx.sample(wit)
    finally:
        import shutil
        shutil.rmtree(tmpd, ignore_errors=True)
    ctx.floor_distinct = 10 if ctx.quick else 300
    ctx.floor_counters = {"runs_asyncio": 4, "runs_twisted": 4, "messages_checked": 1000, "yield_injection_line_events": 1000,
                          "runs_with_back_pressure_slow_peer_small_buffers": 3}
    for which in ('asyncio', 'twisted'):
        ctx.floor_counters.update({
            "runs_wide_" + which: 3,
            "large_messages_128KiB_to_1MiB_delivered_" + which: 12,
            "messages_300KiB_or_more_delivered_" + which: 6,
            "large_pushes_made_while_reactor_thread_was_pushing_" + which: 6,
            "reactor_thread_pushes_delivered_" + which: 1000,
            "reactor_thread_pushes_from_read_callback_delivered_" + which: 40})
