"""C11 - messages pushed concurrently reach the socket whole and in order.

Monitor: the real AsyncioConnection and the real TwistedConnection (one subprocess per run:
process-global loops) connect over loopback to a peer thread that records every byte; N threads
push self-describing messages through ``conn.push`` with yield injection (sys.monitoring LINE
events restricted to the push path); the peer's byte stream is parsed back by
native/reactor_push.py and judged here.
"""
import json
import os
import subprocess
import sys
import tempfile

PROPERTY = "C11"
LEVEL = "exploration"
ENGINE = "stress"
TECHNIQUE = "runtime monitor under real threads: byte-stream conservation/ordering oracle at the peer, yield injection via sys.monitoring"
LEVEL_TEXT = ("For each usable event-loop reactor (asyncio, twisted) tens (quick) to ~1000 (thorough) runs of 2-8 threads x 30-400 messages of "
              "sizes around the 4096-byte chunking threshold are pushed concurrently, with seeded sleep(0) injection at statement starts of "
              "push/_push_msg/handle_write; the bytes the peer received must parse into whole messages, each thread's sequence numbers "
              "ascending without gaps, total bytes conserved. Held on the interleavings that occurred.")
LEVEL_NOTE = ("Trusted base: the loopback peer and the stream parser. eventlet/gevent/libev/asyncore reactors cannot run on this interpreter and "
              "are outside 'reactors usable on the supported Python versions' here. A byte count that stops growing for 10 s after all pushes "
              "returned is judged as lost messages (logical completion), an overall 120 s watchdog as inconclusive.")
QUICK_WORKERS = 4
WORKERS = 14
QUICK_TIMEOUT = 900


def run(ctx):
    from vlib.run import VERIF, Inconclusive
    rng = ctx.rng
    ctx.rule = ("a case is one run (reactor, threads, messages per thread, injection on/off, seed); distinct by parameters+seed; all runs with "
                ">= 2 threads are non-trivial")
    n = ctx.scale(10, 1500)
    budget = 45 if ctx.quick else 420
    tmpd = tempfile.mkdtemp(prefix="verif_c11_")
    try:
        for i in range(n):
            if ctx.time_left(budget) < 0:
                ctx.note("stopped by time budget after %d runs" % i)
                break
            which = ['asyncio', 'twisted'][(i + (ctx.worker or 0)) % 2]
            nthreads = rng.choice([2, 4, 8])
            nmsgs = rng.choice([30, 50] if ctx.quick else [50, 150, 400])
            inject = 1 if rng.random() < 0.7 else 0
            slow = 1 if i % 3 == 2 else 0           # back-pressure: small kernel buffers + a slowly reading peer
            if slow:
                nmsgs = min(nmsgs, 40)
                inject = 0
            seed = rng.getrandbits(30)
            out = os.path.join(tmpd, "r%d.json" % i)
            env = dict(os.environ, PYTHONPATH='')
            try:
                r = subprocess.run([sys.executable, os.path.join(VERIF, "native", "reactor_push.py"), ctx.repo, which, str(seed), str(nthreads),
                                    str(nmsgs), str(inject), out, str(slow)], capture_output=True, text=True, timeout=300, env=env, cwd=tmpd)
            except subprocess.TimeoutExpired:
                ctx.count("runs_watchdog_fired")
                continue
            if not os.path.exists(out):
                raise Inconclusive("reactor run produced no result: %s" % (r.stdout + r.stderr)[-500:])
            res = json.load(open(out))
            os.remove(out)
            if res.get('harness_error'):
                raise Inconclusive("reactor run harness error: %s" % res['harness_error'])
            ctx.case(repr((which, nthreads, nmsgs, inject, slow, seed)), nontrivial=nthreads >= 2)
            ctx.count("runs_" + which)
            if slow:
                ctx.count("runs_with_back_pressure_slow_peer_small_buffers")
            ctx.count("messages_checked", res['messages_parsed'])
            ctx.count("bytes_received", res['received_bytes'])
            ctx.count("yield_injection_line_events", res['line_events'])
            wit = {k: res[k] for k in ('reactor', 'seed', 'threads', 'msgs', 'inject', 'expected_bytes', 'received_bytes', 'messages_parsed',
                                       'messages_expected', 'problems', 'is_defunct', 'last_error', 'push_errors')}
            if res['push_errors']:
                ctx.violation("push-raised", "%s: conn.push raised %s" % (which, res['push_errors'][0]), wit)
                continue
            if res['received_bytes'] == 0:
                ctx.violation("nothing-written-to-socket", "%s: %d threads pushed %d bytes, the peer received nothing" % (which, nthreads, res['expected_bytes']), wit)
                continue
            if res['problems']:
                ctx.violation("stream-not-whole-and-ordered", "%s: %s" % (which, '; '.join(res['problems'][:3])), wit)
                continue
            if res['stalled'] or res['messages_parsed'] != res['messages_expected'] or res['received_bytes'] != res['expected_bytes']:
                ctx.violation("messages-lost", "%s: %d of %d messages (%d of %d bytes) reached the peer" % (
                    which, res['messages_parsed'], res['messages_expected'], res['received_bytes'], res['expected_bytes']), wit)
                continue
            ctx.count("runs_stream_whole_and_ordered")
            if len(ctx.samples) < 4:
                ctx.sample(wit)
    finally:
        import shutil
        shutil.rmtree(tmpd, ignore_errors=True)
    ctx.floor_distinct = 10 if ctx.quick else 300
    ctx.floor_counters = {"runs_asyncio": 4, "runs_twisted": 4, "messages_checked": 1000, "yield_injection_line_events": 1000,
                          "runs_with_back_pressure_slow_peer_small_buffers": 3}
