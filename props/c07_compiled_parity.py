"""C07 - compiled extensions behave exactly like the pure-Python driver.

Monitor: the working tree is copied to a scratch directory and its Cython/C extensions are
built offline (native/build_ext.py: the .py modules setup.py cythonizes, every .pyx except the
numpy parser, cmurmur3.c).  One subprocess imports the compiled package, a second one the
pure-Python sources of the same tree; both decode the same generated case file (RESULT ROWS
bodies of all C01 types incl. nulls/empties, single values through the (cythonized) cqltypes,
marshal helpers, murmur3 keys) and write canonical results which are compared line by line.
Thorough additionally runs the compiled worker on an ASan+UBSan build and counts report blocks.
"""
import glob
import hashlib
import json
import os
import pickle
import shutil
import subprocess
import sys
import tempfile

PROPERTY = "C07"
LEVEL = "exploration"
ENGINE = "native+spec"
TECHNIQUE = "differential runtime monitor: compiled build vs pure-Python sources of the same tree on generated cases; ASan+UBSan on the C code"
LEVEL_TEXT = ("Both builds of the current tree decode the same thousands (quick) / hundreds of thousands (thorough) of generated RESULT bodies, "
              "values and murmur3 keys; canonical results must be identical (value, type, or exception class). The thorough tier repeats the "
              "compiled run under AddressSanitizer+UndefinedBehaviorSanitizer and fails on any report. Held-on-observed; a clean sanitizer "
              "run is not memory safety.")
LEVEL_NOTE = ("Quick builds every .pyx (row parser, deserializers, ...) at -O0 and cmurmur3 (under a minute cold): the compiled parser and "
              "deserializers are driven through the pure protocol/cqltypes modules; thorough builds every module setup.py lists "
              "(cluster, cqltypes, protocol, util, ...) at -O2 and a second time with -fsanitize=address,undefined keeping the interpreter's CFLAGS (-fno-strict-overflow). "
              "numpy parser and libev wrapper are not built (numpy/libev headers absent, as upstream skips them). Builds are cached under "
              "the git-ignored /verif/.cache keyed by the hash of the sources.")
QUICK_WORKERS = 1
WORKERS = 1
QUICK_TIMEOUT = 1500
TIMEOUT = 5400

QUICK_MODULES = "bytesio,cython_marshal,cython_utils,deserializers,ioutils,obj_parser,parsing,row_parser,cmurmur3"


def tree_hash(repo):
    h = hashlib.sha256()
    files = sorted(glob.glob(os.path.join(repo, "cassandra", "*.py")) + glob.glob(os.path.join(repo, "cassandra", "*.pyx")) +
                   glob.glob(os.path.join(repo, "cassandra", "*.pxd")) + glob.glob(os.path.join(repo, "cassandra", "*.c")) +
                   glob.glob(os.path.join(repo, "cassandra", "*.h")) + [os.path.join(repo, "setup.py")])
    for f in files:
        h.update(os.path.basename(f).encode())
        with open(f, "rb") as fh:
            h.update(fh.read())
    return h.hexdigest()[:20]


def build(ctx, variant, args):
    from vlib.run import VERIF, Inconclusive
    cache = os.path.join(VERIF, ".cache", "native")
    os.makedirs(cache, exist_ok=True)
    key = "%s-%s" % (tree_hash(ctx.repo), variant)
    out = os.path.join(cache, key)
    if os.path.exists(os.path.join(out, "BUILD_OK")):
        ctx.count("builds_from_cache")
        return out
    # keep at most three cached builds
    olds = sorted((d for d in glob.glob(os.path.join(cache, "*")) if os.path.isdir(d)), key=os.path.getmtime)
    for d in olds[:-2]:
        shutil.rmtree(d, ignore_errors=True)
    env = dict(os.environ)
    env.pop("PYTHONHASHSEED", None)
    r = subprocess.run([sys.executable, os.path.join(VERIF, "native", "build_ext.py"), ctx.repo, out] + args,
                       capture_output=True, text=True, timeout=3000, env=env, cwd=tempfile.gettempdir())
    if r.returncode != 0 or "BUILT" not in r.stdout:
        shutil.rmtree(out, ignore_errors=True)
        raise Inconclusive("offline extension build (%s) failed: %s" % (variant, (r.stdout + r.stderr)[-800:]))
    with open(os.path.join(out, "BUILD_OK"), "w") as f:
        f.write(r.stdout[-300:])
    ctx.count("builds_done")
    return out


def gen_cases(ctx, n_rows, n_values, n_keys):
    from props import _cqlgen as G
    from spec import cqlcodec as S, frames as F
    rng = ctx.rng
    cases, meta = [], []
    for _ in range(n_rows):
        pv = rng.choice([1, 2, 3, 4, 4, 5, 0x41, 0x42])
        ncols = rng.randint(1, 5)
        cols = []
        for i in range(ncols):
            t = G.gen_type(rng, rng.choice([0, 0, 1, 2, 3]), pv, allow_vector=(pv >= 4))
            cols.append(('ks', 'tbl', 'c%d' % i, t))
        if any(S.contains_uncertain_vector(c[3]) for c in cols):
            continue
        rows = []
        for _r in range(rng.choice([0, 1, 2, 5])):
            row = []
            for c in cols:
                r = rng.random()
                if r < 0.12:
                    row.append(None)
                elif r < 0.17:
                    row.append(b'')         # an empty (zero-length) value
                else:
                    row.append(S.enc(c[3], G.gen_value(rng, c[3], pv), pv))
            rows.append(row)
        no_md = rng.random() < 0.2
        md = {'global_spec': rng.random() < 0.5, 'paging_state': rng.choice([None, None, b'ps'])}
        desc_md = None
        if no_md:
            md['no_metadata'] = True
            desc_md = [(c[0], c[1], c[2], G.cass_descriptor(c[3])) for c in cols]
        body = F.body_result_rows(pv, cols, rows, **md)
        cases.append(('rows', pv, body, desc_md))
        meta.append({'kind': 'rows', 'pv': pv, 'columns': [S.cql_name(c[3]) for c in cols], 'nrows': len(rows), 'nested': any(G.is_nested(c[3]) for c in cols)})
    for _ in range(n_values):
        pv = rng.choice([1, 2, 3, 4, 5])
        t = G.gen_type(rng, rng.choice([0, 0, 1, 2, 3, 4]), pv)
        if S.contains_uncertain_vector(t):
            continue
        v = G.gen_value(rng, t, pv)
        try:
            data = S.enc(t, v, pv)
        except S.Undefined:
            continue
        cases.append(('value', G.cass_descriptor(t), pv, data))
        meta.append({'kind': 'value', 'pv': pv, 'type': S.cql_name(t), 'nested': G.is_nested(t)})
    # murmur3: every length 0..64 with tail bytes >= 0x80, plus random keys
    keys = []
    for ln in range(0, 65):
        for fill in (0x00, 0x7f, 0x80, 0xff):
            keys.append(bytes([fill]) * ln)
        keys.append(bytes(rng.getrandbits(8) | 0x80 for _ in range(ln)))
    for _ in range(n_keys):
        keys.append(bytes(rng.getrandbits(8) for _ in range(rng.choice([1, 3, 15, 16, 17, 31, 100, 1000, 4096]))))
    for k in keys:
        cases.append(('murmur', k))
        meta.append({'kind': 'murmur', 'len': len(k), 'nested': True})
    for _ in range(n_values // 4):
        x = rng.choice([0, 1, -1, 127, 128, -128, -129, 2 ** 63, -2 ** 63, rng.getrandbits(rng.randint(1, 200)) * rng.choice([1, -1])])
        cases.append(('marshal', 'varint_pack', x))
        meta.append({'kind': 'marshal', 'fn': 'varint_pack', 'nested': False})
        cases.append(('marshal', 'varint_unpack', S.varint_bytes(x)))
        meta.append({'kind': 'marshal', 'fn': 'varint_unpack', 'nested': False})
    return cases, meta


def run_worker(root, case_file, out_file, env_extra=None, timeout=2400):
    from vlib.run import VERIF
    env = dict(os.environ)
    env.update(env_extra or {})
    env['PYTHONPATH'] = ''
    r = subprocess.run([sys.executable, os.path.join(VERIF, "native", "worker.py"), root, case_file, out_file],
                       capture_output=True, text=True, timeout=timeout, env=env, cwd=tempfile.gettempdir())
    return r


def run(ctx):
    from vlib.run import Inconclusive
    ctx.rule = ("cases = RESULT ROWS bodies (1-5 columns of generated possibly nested types, 0-5 rows, nulls and empty values, with/without "
                "metadata, protocol 1-5 + DSE) + single values through lookup_casstype(...).from_binary/to_binary + marshal helpers + murmur3 keys "
                "(all lengths 0..64 x tail fills, random up to 4 KiB); distinct by case bytes; non-trivial = nested column/type or a murmur key")
    quick = ctx.quick
    plain = build(ctx, "O0-subset" if quick else "O2-full", ["--opt=-O0", "--only=" + QUICK_MODULES] if quick else [])
    cases, meta = gen_cases(ctx, 2500 if quick else 60000, 2500 if quick else 60000, 500 if quick else 20000)
    tmpd = tempfile.mkdtemp(prefix="verif_c07_")
    try:
        cf = os.path.join(tmpd, "cases.pkl")
        with open(cf, "wb") as f:
            pickle.dump(cases, f)
        outs = {}
        for name, root in (("compiled", plain), ("pure", ctx.repo)):
            of = os.path.join(tmpd, name + ".jsonl")
            r = run_worker(root, cf, of)
            if r.returncode != 0 or not os.path.exists(of):
                raise Inconclusive("%s worker failed: %s" % (name, (r.stdout + r.stderr)[-600:]))
            with open(of) as f:
                lines = [json.loads(l) for l in f]
            outs[name] = lines
        ci, pi = outs["compiled"][0]["info"], outs["pure"][0]["info"]
        full_ok = quick or (ci["protocol_file"].endswith(".so") and ci["cqltypes_file"].endswith(".so"))
        if not (full_ok and ci["have_cython"] and ci["cmurmur3_file"] and ci["deserializers_file"] and ci["lazy"]):
            raise Inconclusive("compiled worker did not load the compiled modules: %r" % (ci,))
        if pi["protocol_file"].endswith(".so") or pi["have_cython"] or pi["cmurmur3_file"]:
            raise Inconclusive("pure worker loaded compiled modules: %r" % (pi,))
        ctx.note("compiled: %s" % ci)
        comp, pure = outs["compiled"][1:], outs["pure"][1:]
        if len(comp) != len(cases) or len(pure) != len(cases):
            raise Inconclusive("workers returned %d/%d results for %d cases" % (len(comp), len(pure), len(cases)))
        for i, (case, m, c, p) in enumerate(zip(cases, meta, comp, pure)):
            if 'worker_error' in c or 'worker_error' in p:
                raise Inconclusive("worker error on case %d: %s" % (i, c.get('worker_error') or p.get('worker_error')))
            ctx.case(repr(case[1:])[:4000], nontrivial=m.get('nested', False))
            ctx.count("cases_" + m['kind'])
            kind = m['kind']
            wit = dict(m, case_index=i)
            if kind == 'rows':
                wit['body'] = case[2]
                ref = p.get('list')
                for h in ('list', 'lazy'):
                    got = c.get(h)
                    if got != ref:
                        mech = "compiled-row-decoding-differs" if (got or '').startswith('ok') and (ref or '').startswith('ok') else "compiled-row-decoding-raises-differently"
                        ctx.violation(mech, "RESULT body decodes differently: compiled %s handler -> %s ; pure -> %s" % (h, (got or '')[:200], (ref or '')[:200]), wit)
                        break
                else:
                    ctx.count("row_bodies_equal")
            elif kind == 'value':
                wit['bytes'] = case[3]
                if c != p:
                    ctx.violation("compiled-cqltypes-differ", "%s: compiled %r ; pure %r" % (m['type'], str(c)[:200], str(p)[:200]), wit)
                else:
                    ctx.count("values_equal")
            elif kind == 'murmur':
                wit['key'] = case[1]
                vals = {c.get('c'), c.get('token'), c.get('from_key'), c.get('pure'), p.get('pure'), p.get('token'), p.get('from_key')}
                if len(vals) != 1:
                    ctx.violation("cmurmur3-differs-from-python", "murmur3 of a %d-byte key: C %s, python %s, tokens %s/%s" % (
                        len(case[1]), c.get('c'), p.get('pure'), c.get('token'), p.get('token')), wit)
                else:
                    ctx.count("murmur_keys_equal")
            else:
                if c != p:
                    ctx.violation("compiled-marshal-differs", "%s(%r): compiled %r ; pure %r" % (m['fn'], case[2], c, p), wit)
                else:
                    ctx.count("marshal_equal")
        ctx.sample({"compiled_modules": ci, "example_case": meta[0], "compiled_result": str(comp[0])[:300]})
        ctx.sample({"murmur_case_len": len(cases[-1][1]) if cases[-1][0] == 'murmur' else None, "result": comp[-1] if cases[-1][0] == 'murmur' else None})
        if not quick:
            san = build(ctx, "asan-ubsan-full", ["--sanitize"])
            libasan = subprocess.run(["gcc", "-print-file-name=libasan.so"], capture_output=True, text=True).stdout.strip()
            libubsan = subprocess.run(["gcc", "-print-file-name=libubsan.so"], capture_output=True, text=True).stdout.strip()
            logp = os.path.join(tmpd, "san")
            of = os.path.join(tmpd, "san.jsonl")
            r = run_worker(san, cf, of, {"LD_PRELOAD": libasan + ":" + libubsan,
                                         "ASAN_OPTIONS": "detect_leaks=0:halt_on_error=0:log_path=%s" % logp,
                                         "UBSAN_OPTIONS": "print_stacktrace=1:halt_on_error=0:log_path=%s" % logp}, timeout=4000)
            reports = []
            for lf in glob.glob(logp + "*"):
                with open(lf, errors='replace') as f:
                    txt = f.read()
                reports += [l for l in txt.splitlines() if 'runtime error:' in l or 'ERROR: AddressSanitizer' in l]
            if r.returncode != 0 and not reports:
                raise Inconclusive("sanitized worker failed without a report: %s" % (r.stdout + r.stderr)[-600:])
            ctx.count("sanitizer_cases_executed", len(cases))
            ctx.count("sanitizer_report_blocks", len(reports))
            seen = set()
            for rep in reports:
                key = rep.split(':')[0] + rep.split('runtime error:')[-1][:60]
                if key in seen:
                    continue
                seen.add(key)
                ctx.violation("sanitizer-report", rep[:300], {"report": rep})
            if os.path.exists(of):
                with open(of) as f:
                    sl = [json.loads(l) for l in f][1:]
                diff = sum(1 for a, b in zip(sl, comp) if a != b)
                ctx.count("sanitized_build_results_differing_from_plain_build", diff)
                if diff:
                    ctx.violation("sanitized-build-results-differ", "%d cases decode differently in the sanitized build" % diff, {})
    finally:
        shutil.rmtree(tmpd, ignore_errors=True)
    ctx.floor_distinct = 1500 if quick else 50000
    ctx.floor_counters = {"row_bodies_equal": 1000, "values_equal": 1000, "murmur_keys_equal": 500}
