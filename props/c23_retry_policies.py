"""C23 - built-in retry policies make bounded, consistency-safe decisions.

Monitor: every failure description a coordinator can report (bounded ranges) is handed to the
real policy objects exactly the way ``ResponseFuture`` does it (``policy.on_xxx(query,
retry_num=..., **info)``); the returned ``(decision, consistency)`` pair is judged by predicates
taken from the property statement and the documented behaviour, not by a decision table.
"""
import itertools
import warnings

PROPERTY = "C23"
LEVEL = "exploration"
ENGINE = "spec"
TECHNIQUE = "exhaustive enumeration of coordinator-reportable failure tuples; predicate oracle over returned (decision, consistency)"
LEVEL_TEXT = ("finite input space (consistency x required x received/alive x data_retrieved x write type x retry_num, "
              "bounded to 12 replicas / retry_num 0..4) enumerated completely against the real policy objects")
LEVEL_NOTE = ("trusted base: the predicates in this module (replica need of ONE/TWO/THREE, what a coordinator can report, "
              "the documented default behaviour); replica counts above 12 and retry counts above 4 are not enumerated")
QUICK_WORKERS = 1
WORKERS = 1

MAX_REPLICAS = 12
RETRY_NUMS = (0, 1, 2, 3, 4)

# decisions (values as published in the driver documentation; cross-checked against the class at run time)
RETRY, RETHROW, IGNORE, RETRY_NEXT_HOST = 0, 1, 2, 3
RETRYING = (RETRY, RETRY_NEXT_HOST)

# consistency levels by wire code (native protocol spec section 3, [consistency])
ANY, ONE, TWO, THREE, QUORUM, ALL, LOCAL_QUORUM, EACH_QUORUM, SERIAL, LOCAL_SERIAL, LOCAL_ONE = range(11)
CL_NAMES = ["ANY", "ONE", "TWO", "THREE", "QUORUM", "ALL", "LOCAL_QUORUM", "EACH_QUORUM", "SERIAL", "LOCAL_SERIAL", "LOCAL_ONE"]
SERIALS = (SERIAL, LOCAL_SERIAL)
FIXED_NEED = {ANY: 1, ONE: 1, LOCAL_ONE: 1, TWO: 2, THREE: 3}   # blockFor of the levels with a constant replica need

WT_NAMES = ["SIMPLE", "BATCH", "UNLOGGED_BATCH", "COUNTER", "BATCH_LOG", "CAS", "VIEW", "CDC"]
WT_SIMPLE, WT_BATCH, WT_UNLOGGED, WT_COUNTER, WT_BATCH_LOG, WT_CAS, WT_VIEW, WT_CDC = range(8)


def reportable_required(cl):
    """Replica counts a coordinator can report as 'required' (blockFor) for a consistency level."""
    if cl in FIXED_NEED:
        return (FIXED_NEED[cl],)
    return tuple(range(1, MAX_REPLICAS + 1))     # quorum-like levels and ALL depend on the replication factor


def read_timeouts():
    for cl in range(11):
        if cl == ANY:
            continue          # ANY is valid only for writes
        for required in reportable_required(cl):
            for received in range(0, MAX_REPLICAS + 1):
                for data in (False, True):
                    if data and received == 0:
                        continue    # no response at all cannot have carried data
                    yield cl, required, received, data


def write_timeouts():
    for cl in range(11):
        for wt in range(8):
            if (wt == WT_CAS) != (cl in SERIALS):
                continue      # the paxos phase reports CAS with the serial level; every other phase a non-serial level
            for required in reportable_required(cl):
                for received in range(0, required):      # Cassandra caps acks at blockFor-1 (CASSANDRA-6491)
                    yield cl, wt, required, received


def unavailables():
    for cl in range(11):
        if cl == ANY:
            continue          # ANY never fails the liveness test
        for required in reportable_required(cl):
            for alive in range(0, required):
                yield cl, required, alive


class Judge(object):
    def __init__(self, ctx, name, policy):
        self.ctx = ctx
        self.name = name
        self.policy = policy

    def bad(self, mech, what, wit):
        wit = dict(wit, policy=self.name)
        self.ctx.violation(mech, "%s: %s" % (self.name, what), wit)

    def shape(self, res, wit):
        ok = isinstance(res, tuple) and len(res) == 2 and res[0] in (RETRY, RETHROW, IGNORE, RETRY_NEXT_HOST) and \
            (res[1] is None or (isinstance(res[1], int) and 0 <= res[1] <= 10))
        if not ok:
            self.bad("malformed-decision", "returned %r" % (res,), wit)
        return ok

    # -- common predicates ----------------------------------------------------
    def bounded(self, d, retry_num, wit):
        self.ctx.count("pred_at_most_once")
        if d in RETRYING and retry_num != 0:
            self.bad("retries-more-than-once", "decision %d with retry_num=%d" % (d, retry_num), wit)

    def never(self, d, wit):
        self.ctx.count("pred_never_retries")
        if d != RETHROW:
            self.bad("never-policy-does-not-rethrow", "decision %d instead of RETHROW" % d, wit)

    def same_level(self, d, cl_out, cl, wit):
        """A policy that does not downgrade keeps the level: None or the requested one."""
        self.ctx.count("pred_level_kept")
        if cl_out is not None and cl_out != cl:
            self.bad("default-policy-changes-consistency", "returned level %s for requested %s" % (CL_NAMES[cl_out], CL_NAMES[cl]), wit)

    def downgrade_safe(self, d, cl_out, cl, required, have, wit):
        ctx = self.ctx
        if cl in SERIALS:
            ctx.count("pred_serial_not_downgraded")
            if cl_out is not None and cl_out != cl:
                self.bad("serial-level-downgraded", "%s changed to %s" % (CL_NAMES[cl], CL_NAMES[cl_out]), wit)
                return
        if d not in RETRYING or cl_out is None or cl_out == cl:
            return
        ctx.count("downgrades_observed")
        if cl_out in SERIALS:
            self.bad("downgrade-to-serial", "non-serial %s changed to %s" % (CL_NAMES[cl], CL_NAMES[cl_out]), wit)
            return
        need = FIXED_NEED.get(cl_out)
        if need is None:
            self.bad("downgrade-to-unbounded-level", "chose %s whose replica need is not a constant" % CL_NAMES[cl_out], wit)
            return
        ctx.count("pred_need_le_available")
        if need > have:
            self.bad("downgrade-needs-more-than-available",
                     "chose %s (needs %d) with only %d replicas responded/alive" % (CL_NAMES[cl_out], need, have), wit)
        ctx.count("pred_not_stronger")
        if need > required or (cl_out != ANY and cl == ANY):
            self.bad("downgrade-stronger-than-requested",
                     "chose %s (needs %d) for requested %s (needs %d)" % (CL_NAMES[cl_out], need, CL_NAMES[cl], required), wit)


def run(ctx):
    from cassandra import ConsistencyLevel as CL, WriteType as WT
    from cassandra import policies as P
    from cassandra import OperationTimedOut

    ctx.rule = ("complete enumeration: policy x {read timeout, write timeout, unavailable, request error} x consistency (11 levels) x "
                "required (constant for ANY/ONE/LOCAL_ONE/TWO/THREE, 1..%d otherwise) x received/alive 0..%d x data_retrieved x write "
                "type (8) x retry_num 0..4, restricted to coordinator-reportable tuples; distinct = the tuple; all non-trivial" %
                (MAX_REPLICAS, MAX_REPLICAS))
    ctx.assume("a coordinator reports: required = blockFor(consistency) (1 for ANY/ONE/LOCAL_ONE, 2 for TWO, 3 for THREE, 1..%d for quorum-like "
               "levels and ALL); write timeout => received < required (CASSANDRA-6491 caps acks) and write type CAS <=> serial consistency; "
               "unavailable => alive < required; no read/unavailable at ANY; data_retrieved => received >= 1" % MAX_REPLICAS)
    ctx.assume("'stronger' is decided by replica need: a downgraded level (ONE/TWO/THREE) must not need more replicas than the coordinator "
               "reported as required for the requested level; retrying at the *same* level (None or the requested one) is not a downgrade")
    ctx.assume("on_request_error is outside 'timeouts or unavailability': judged only for FallthroughRetryPolicy (never retries); the default "
               "policy's unconditional RETRY_NEXT_HOST there is recorded as a counter, not judged")

    # the literal codes used by this module must be the ones the driver uses
    names_ok = all(getattr(CL, n) == i for i, n in enumerate(CL_NAMES)) and all(getattr(WT, n) == i for i, n in enumerate(WT_NAMES))
    codes_ok = (P.RetryPolicy.RETRY, P.RetryPolicy.RETHROW, P.RetryPolicy.IGNORE, P.RetryPolicy.RETRY_NEXT_HOST) == (0, 1, 2, 3)
    if not (names_ok and codes_ok):
        from vlib.run import Inconclusive
        raise Inconclusive("consistency / write type / decision codes differ from the documented ones")

    with warnings.catch_warnings():
        warnings.simplefilter("ignore")
        pols = [("RetryPolicy", P.RetryPolicy()), ("FallthroughRetryPolicy", P.FallthroughRetryPolicy()),
                ("DowngradingConsistencyRetryPolicy", P.DowngradingConsistencyRetryPolicy())]
    if hasattr(P, "NeverRetryPolicy"):
        pols.append(("NeverRetryPolicy", P.NeverRetryPolicy()))
    else:
        ctx.note("NeverRetryPolicy not present in cassandra.policies")

    query = object()   # the built-in policies never look at the statement
    rts, wts, uns = list(read_timeouts()), list(write_timeouts()), list(unavailables())
    errors = [OperationTimedOut("x"), Exception("overloaded"), None]

    for name, pol in pols:
        J = Judge(ctx, name, pol)
        for (cl, required, received, data), rn in itertools.product(rts, RETRY_NUMS):
            wit = {"event": "read_timeout", "consistency": CL_NAMES[cl], "required": required, "received": received,
                   "data_retrieved": data, "retry_num": rn}
            ctx.case((name, "rt", cl, required, received, data, rn))
            res = pol.on_read_timeout(query, retry_num=rn, consistency=cl, required_responses=required,
                                      received_responses=received, data_retrieved=data)
            wit["returned"] = res
            ctx.count("decisions_observed")
            if not J.shape(res, wit):
                continue
            d, out = res
            ctx.count("decision_%d" % d)
            if name in ("FallthroughRetryPolicy", "NeverRetryPolicy"):
                J.never(d, wit)
                continue
            J.bounded(d, rn, wit)
            if d == IGNORE:
                J.bad("read-timeout-ignored", "a read timeout cannot be ignored (there is no result)", wit)
            if name == "RetryPolicy":
                J.same_level(d, out, cl, wit)
                # documented: retried only if enough replicas responded but the data was not retrieved
                ctx.count("pred_documented_default")
                if d in RETRYING and not (received >= required and not data):
                    J.bad("default-read-retry-undocumented", "retries although not (received >= required and no data)", wit)
            else:
                J.downgrade_safe(d, out, cl, required, received, wit)

        for (cl, wt, required, received), rn in itertools.product(wts, RETRY_NUMS):
            wit = {"event": "write_timeout", "consistency": CL_NAMES[cl], "write_type": WT_NAMES[wt], "required": required,
                   "received": received, "retry_num": rn}
            ctx.case((name, "wt", cl, wt, required, received, rn))
            res = pol.on_write_timeout(query, retry_num=rn, consistency=cl, write_type=wt, required_responses=required,
                                       received_responses=received)
            wit["returned"] = res
            ctx.count("decisions_observed")
            if not J.shape(res, wit):
                continue
            d, out = res
            ctx.count("decision_%d" % d)
            if name in ("FallthroughRetryPolicy", "NeverRetryPolicy"):
                J.never(d, wit)
                continue
            J.bounded(d, rn, wit)
            if name == "RetryPolicy":
                J.same_level(d, out, cl, wit)
                ctx.count("pred_documented_default")
                if d in RETRYING and wt != WT_BATCH_LOG:
                    J.bad("default-write-retry-undocumented", "retries a write that is not a BATCH_LOG write", wit)
                if d == IGNORE:
                    J.bad("default-policy-ignores", "the default policy never ignores a failure", wit)
            else:
                J.downgrade_safe(d, out, cl, required, received, wit)
                ctx.count("pred_ignore_only_if_persisted")
                if d == IGNORE and received < 1:
                    J.bad("write-ignored-without-ack", "write timeout ignored although no replica acknowledged", wit)

        for (cl, required, alive), rn in itertools.product(uns, RETRY_NUMS):
            wit = {"event": "unavailable", "consistency": CL_NAMES[cl], "required": required, "alive": alive, "retry_num": rn}
            ctx.case((name, "un", cl, required, alive, rn))
            res = pol.on_unavailable(query, retry_num=rn, consistency=cl, required_replicas=required, alive_replicas=alive)
            wit["returned"] = res
            ctx.count("decisions_observed")
            if not J.shape(res, wit):
                continue
            d, out = res
            ctx.count("decision_%d" % d)
            if name in ("FallthroughRetryPolicy", "NeverRetryPolicy"):
                J.never(d, wit)
                continue
            J.bounded(d, rn, wit)
            if d == IGNORE:
                J.bad("unavailable-ignored", "an unavailable error cannot be ignored (nothing was executed)", wit)
            if name == "RetryPolicy":
                J.same_level(d, out, cl, wit)
            else:
                J.downgrade_safe(d, out, cl, required, alive, wit)

        for cl, err, rn in itertools.product(list(range(11)) + [None], errors, RETRY_NUMS):
            ctx.case((name, "err", cl, repr(err), rn))
            res = pol.on_request_error(query, cl, error=err, retry_num=rn)
            wit = {"event": "request_error", "consistency": cl, "error": repr(err), "retry_num": rn, "returned": res}
            ctx.count("decisions_observed")
            if not J.shape(res, wit):
                continue
            d, out = res
            if name == "FallthroughRetryPolicy":
                J.never(d, wit)
            else:
                ctx.count("request_error_decision_%d_%s" % (d, name))
                if out is not None and out != cl:
                    J.bad("request-error-changes-consistency", "request error answered with level %r for %r" % (out, cl), wit)

    ctx.sample({"policy": "DowngradingConsistencyRetryPolicy", "event": "read_timeout QUORUM required=3 received=2 retry_num=0",
                "returned": pols[2][1].on_read_timeout(query, retry_num=0, consistency=QUORUM, required_responses=3,
                                                       received_responses=2, data_retrieved=False)})
    ctx.sample({"policy": "DowngradingConsistencyRetryPolicy", "event": "unavailable LOCAL_SERIAL required=2 alive=1 retry_num=0",
                "returned": pols[2][1].on_unavailable(query, retry_num=0, consistency=LOCAL_SERIAL, required_replicas=2, alive_replicas=1)})
    ctx.sample({"policy": "RetryPolicy", "event": "write_timeout ONE BATCH_LOG required=1 received=0 retry_num=0/1",
                "returned": [pols[0][1].on_write_timeout(query, retry_num=r, consistency=ONE, write_type=WT_BATCH_LOG,
                                                         required_responses=1, received_responses=0) for r in (0, 1)]})
    ctx.count("tuples_read_timeout", len(rts) * len(RETRY_NUMS))
    ctx.count("tuples_write_timeout", len(wts) * len(RETRY_NUMS))
    ctx.count("tuples_unavailable", len(uns) * len(RETRY_NUMS))
    ctx.exhaustive = True
    total = (len(rts) + len(wts) + len(uns)) * len(RETRY_NUMS) * len(pols)
    ctx.floor_distinct = total
    ctx.floor_counters = {"decisions_observed": total, "pred_at_most_once": 1000, "pred_never_retries": 1000,
                          "downgrades_observed": 50, "pred_need_le_available": 50, "pred_serial_not_downgraded": 100,
                          "decision_0": 10, "decision_2": 10, "decision_3": 10}
