"""C34 - date, time and time-UUID helpers convert consistently.

Monitor: the real ``cassandra.util.Date`` / ``Time`` / ``uuid_from_time`` / ``min_uuid_from_time`` /
``max_uuid_from_time`` / ``datetime_from_uuid1`` are fed generated inputs; every conversion result is
judged against integer reference arithmetic in ``spec/timeuuid.py`` (civil-from-days algorithm, UUID
field extraction, Cassandra's TimeUUIDType comparator).
"""
import datetime
import uuid as _uuid
from fractions import Fraction

PROPERTY = "C34"
LEVEL = "exploration"
ENGINE = "spec"
TECHNIQUE = ("input-driven runtime monitoring: every conversion result compared with independent integer reference arithmetic "
             "(civil calendar, v1-UUID fields, TimeUUIDType comparator)")
LEVEL_TEXT = ("Date: every day of years 1..9999 on the thorough tier (strided + all month/year boundaries on quick); Time, "
              "timestamps and UUID node/clock fields: boundaries plus seeded random sampling")
LEVEL_NOTE = ("trusted base: spec/timeuuid.py (calendar algorithm cross-checked against datetime.date at start-up; TimeUUIDType order written "
              "from Cassandra's compareCustom: timestamp, then signed bytes); Time/UUID inputs are sampled, not enumerated")
QUICK_WORKERS = 2
WORKERS = 12

DAY_NS = 86400 * 10 ** 9
EPOCH = datetime.datetime(1970, 1, 1)


# ------------------------------------------------------------------------------------------ Date
def check_day(ctx, U, T, d, extra):
    Date = U.Date
    y, m, dd = T.civil_from_days(d)
    text = "%04d-%02d-%02d" % (y, m, dd)
    ctx.case(("date", d))
    wit = {"days_from_epoch": d, "expected": text}
    D = Date(d)
    ctx.count("date_checks")
    if D.days_from_epoch != d or D.seconds != d * 86400:
        ctx.violation("date-day-count", "Date(%d) holds days=%r seconds=%r" % (d, D.days_from_epoch, D.seconds), wit)
    s = str(D)
    if s != text:
        ctx.violation("date-string-format", "str(Date(%d)) = %r, expected %r" % (d, s, text), wit)
    try:
        b = D.date()
        got = (b.year, b.month, b.day)
    except Exception as e:
        got = "%s: %s" % (type(e).__name__, e)
    if got != (y, m, dd):
        ctx.violation("date-days-to-civil", "Date(%d).date() = %r, expected %r" % (d, got, (y, m, dd)), wit)
    try:
        back = Date(text).days_from_epoch
    except Exception as e:
        back = "%s: %s" % (type(e).__name__, e)
    if back != d:
        ctx.violation("date-string-parse", "Date(%r).days_from_epoch = %r, expected %d" % (text, back, d), wit)
    bd = datetime.date(y, m, dd)
    back = Date(bd).days_from_epoch
    if back != d:
        ctx.violation("date-from-builtin", "Date(datetime.date%r).days_from_epoch = %r, expected %d" % ((y, m, dd), back, d), wit)
    if not (D == bd) or not (D == d) or D != Date(text) or (D != bd):
        ctx.violation("date-compare", "Date(%d) does not compare equal to its own date / day count / string form" % d, wit)
    if extra:
        ctx.count("date_extra_checks")
        back = Date(datetime.datetime(y, m, dd, 23, 59, 59, 999999)).days_from_epoch
        if back != d:
            ctx.violation("date-from-builtin", "Date(datetime %s 23:59:59.999999).days_from_epoch = %r, expected %d" % (text, back, d), wit)
        if Date("+" + text).days_from_epoch != d:
            ctx.violation("date-string-parse", "Date('+%s') differs" % text, wit)
        nxt = Date(d + 1)
        if not (D < nxt) or nxt < D or D == nxt or not (nxt > D):
            ctx.violation("date-compare", "Date(%d) is not ordered before Date(%d)" % (d, d + 1), wit)
        if len({D, Date(text), Date(bd)}) != 1:
            ctx.violation("date-compare", "equal Dates hash differently", wit)


def date_part(ctx, U, T):
    first, last = T.FIRST_DAY, T.LAST_DAY
    # the reference calendar itself is cross-checked against the interpreter's calendar on a sample
    for d in list(range(first, first + 800)) + list(range(last - 800, last + 1)) + [ctx.rng.randint(first, last) for _ in range(3000)]:
        y, m, dd = T.civil_from_days(d)
        if datetime.date(y, m, dd).toordinal() - 719163 != d or T.days_from_civil(y, m, dd) != d:
            from vlib.run import Inconclusive
            raise Inconclusive("reference calendar disagrees with datetime.date at day %d" % d)
    ctx.count("reference_calendar_crosschecks", 4601)
    if ctx.quick:
        stride = 23
        w, n = (ctx.worker or 0), max(1, ctx.nworkers)
        days = set(range(first + (ctx.seed * 7 + w) % stride, last + 1, stride * n))
        for y in range(1 + w, 10000, n):
            for (mm, dd) in ((1, 1), (2, 28), (3, 1), (12, 31)):
                days.add(T.days_from_civil(y, mm, dd))
            days.add(T.days_from_civil(y, 3, 1) - 1)      # Feb 28 or 29
        days.update((first, first + 1, last - 1, last, -1, 0, 1))
        days = sorted(days)
    else:
        w, n = (ctx.worker or 0), max(1, ctx.nworkers)
        days = range(first + w, last + 1, n)
        ctx.exhaustive = None
    for i, d in enumerate(days):
        check_day(ctx, U, T, d, extra=(i % 16 == 0))
    if not ctx.quick:
        ctx.note("worker %d covered every %d-th day of years 1..9999 (all workers together: every day)" % (w, n))
    # outside the range of the built-in date the documented fallback applies
    for d in (first - 1, last + 1, -10 ** 7, 10 ** 7, -2 ** 31, 2 ** 31 - 1):
        D = U.Date(d)
        ctx.count("date_out_of_builtin_range_checks")
        try:
            D.date()
            ctx.violation("date-out-of-range-accepted", "Date(%d).date() returned although outside years 1..9999" % d, {"days": d})
        except ValueError:
            pass
        if str(D) != str(d) or D.days_from_epoch != d:
            ctx.violation("date-out-of-range-fallback", "str(Date(%d)) = %r (documented fallback is the day count)" % (d, str(D)), {"days": d})


# ------------------------------------------------------------------------------------------ Time
def check_time_value(ctx, U, ns):
    Time = U.Time
    ctx.case(("time", ns))
    ctx.count("time_checks")
    h, rem = divmod(ns, 3600 * 10 ** 9)
    mi, rem = divmod(rem, 60 * 10 ** 9)
    s, frac = divmod(rem, 10 ** 9)
    text = "%02d:%02d:%02d.%09d" % (h, mi, s, frac)
    wit = {"nanoseconds": ns, "expected": text}
    t = Time(ns)
    if (t.nanosecond_time, t.hour, t.minute, t.second, t.nanosecond) != (ns, h, mi, s, frac):
        ctx.violation("time-components", "Time(%d) -> %r" % (ns, (t.nanosecond_time, t.hour, t.minute, t.second, t.nanosecond)), wit)
    if str(t) != text:
        ctx.violation("time-string-format", "str(Time(%d)) = %r, expected %r" % (ns, str(t), text), wit)
    try:
        back = Time(text).nanosecond_time
    except Exception as e:
        back = "%s: %s" % (type(e).__name__, e)
    if back != ns:
        ctx.violation("time-string-parse", "Time(%r).nanosecond_time = %r, expected %d" % (text, back, ns), wit)
    bt = t.time()
    want = datetime.time(h, mi, s, frac // 1000)
    if bt != want:
        ctx.violation("time-to-builtin", "Time(%d).time() = %r, expected %r" % (ns, bt, want), wit)
    back = Time(want).nanosecond_time
    if back != ns - ns % 1000:
        ctx.violation("time-from-builtin", "Time(%r).nanosecond_time = %r, expected %d" % (want, back, ns - ns % 1000), wit)
    if not (t == ns) or not (t == Time(text)) or (t == want) != (ns % 1000 == 0) or (ns + 1 < DAY_NS and not (t < Time(ns + 1))):
        ctx.violation("time-compare", "Time(%d) compares wrongly with its int / string / datetime.time forms" % ns, wit)
    # shorter fractions are right-padded
    k = ctx.rng.randint(0, 9)
    digits = ("%09d" % frac)[:k]
    short = "%02d:%02d:%02d" % (h, mi, s) + ("." + digits if k else "")
    want_ns = ns - frac + (int(digits.ljust(9, "0")) if k else 0)
    try:
        back = Time(short).nanosecond_time
    except Exception as e:
        back = "%s: %s" % (type(e).__name__, e)
    ctx.count("time_short_fraction_checks")
    if back != want_ns:
        ctx.violation("time-string-parse", "Time(%r).nanosecond_time = %r, expected %d" % (short, back, want_ns), {"string": short})


def check_time_rejected(ctx, U, value):
    """Anything outside [0, one day) must not construct."""
    ctx.case(("time-reject", repr(value)))
    ctx.count("time_range_checks")
    try:
        t = U.Time(value)
    except (ValueError, OverflowError):
        ctx.count("time_out_of_range_rejected")
        return
    ns = t.nanosecond_time
    if isinstance(value, int):
        mech = "time-negative-nanoseconds-accepted" if value < 0 else "time-too-large-accepted"
    else:
        parts = value.split(".")[0].split(":")
        leap = len(parts) == 3 and parts[0] == "23" and parts[1] == "59" and parts[2] in ("60", "61") and ns >= DAY_NS
        mech = "time-string-leap-second-beyond-day" if leap else "time-string-out-of-range-accepted"
        if 0 <= ns < DAY_NS:
            ctx.count("time_odd_strings_normalised_into_the_day")
            return
    ctx.violation(mech, "Time(%r) constructs (nanosecond_time=%r, str=%r) although it is outside [0, 24h)" % (value, ns, str(t)),
                  {"value": value, "nanosecond_time": ns})


def time_part(ctx, U):
    rng = ctx.rng
    H, M, S = 3600 * 10 ** 9, 60 * 10 ** 9, 10 ** 9
    edge = [0, 1, 999, 1000, 1001, 999999, 10 ** 6, S - 1, S, S + 1, M - 1, M, H - 1, H, 12 * H, DAY_NS - S, DAY_NS - 1000, DAY_NS - 1]
    for ns in edge:
        check_time_value(ctx, U, ns)
    for _ in range(ctx.scale(40000, 1500000)):
        x = rng.random()
        if x < 0.6:
            ns = rng.randrange(DAY_NS)
        elif x < 0.8:
            ns = rng.randrange(24) * H + rng.randrange(60) * M + rng.randrange(60) * S + rng.choice([0, 1, 999, 1000, 999999999, 500000000])
        else:
            ns = rng.randrange(86400 * 10 ** 6) * 1000
        check_time_value(ctx, U, ns)
    bad = [-1, -2, -1000, -S, -DAY_NS, -DAY_NS - 1, -10 ** 18, -2 ** 63, DAY_NS, DAY_NS + 1, DAY_NS + S, 2 * DAY_NS, 2 ** 63 - 1, 10 ** 20]
    for _ in range(ctx.scale(60, 600)):
        bad.append(-rng.randrange(1, 2 * DAY_NS))
        bad.append(DAY_NS + rng.randrange(0, 2 * DAY_NS))
    for v in bad:
        check_time_rejected(ctx, U, v)
    for sv in ["24:00:00", "24:00:00.000000001", "25:10:10", "23:60:00", "99:99:99", "-1:00:00", "23:59:60", "23:59:61", "23:59:60.5",
               "23:59:61.999999999", "23:59:62"]:
        check_time_rejected(ctx, U, sv)


# ------------------------------------------------------------------------------------------ time UUIDs
def us_of_datetime(dt):
    if dt.tzinfo is not None:
        dt = (dt - dt.utcoffset()).replace(tzinfo=None)
    td = dt - EPOCH
    return (td.days * 86400 + td.seconds) * 10 ** 6 + td.microseconds


EXTREME_BYTES = (0x00, 0x01, 0x7F, 0x80, 0x81, 0xFF)


def rand_node(rng):
    x = rng.random()
    if x < 0.5:
        return int.from_bytes(bytes(rng.choice(EXTREME_BYTES) for _ in range(6)), "big")
    if x < 0.6:
        return rng.choice([0, 0x7F7F7F7F7F7F, 0x808080808080, 0xFFFFFFFFFFFF, 0x7F7F7F7F7F80, 0x80808080807F])
    return rng.getrandbits(48)


def rand_clock(rng):
    x = rng.random()
    if x < 0.5:
        return rng.choice([0, 1, 0x7F, 0x80, 0x81, 0xFF, 0x100, 0x3F00, 0x3F7F, 0x3F80, 0x3FFF, 0x3F7E, 0x2000, 0x1FFF])
    return rng.getrandbits(14)


def check_instant(ctx, U, T, arg, kind, exact_us):
    """arg: what is handed to the driver; exact_us: the instant as an exact number (int or Fraction) of microseconds."""
    rng = ctx.rng
    node, clock = rand_node(rng), rand_clock(rng)
    ctx.case(("uuid", kind, repr(arg), node, clock))
    ctx.count("uuid_instants")
    wit = {"time_arg": repr(arg), "kind": kind, "node": node, "clock_seq": clock}
    u = U.uuid_from_time(arg, node, clock)
    ts, version, variant, c, n = T.uuid_fields(u.bytes)
    ctx.count("uuid_field_checks")
    if (version, variant, c, n) != (1, 2, clock, node):
        ctx.violation("uuid-fields", "uuid_from_time(%r, %#x, %#x) = %s: version/variant/clock/node = %r" % (arg, node, clock, u, (version, variant, c, n)), wit)
    got_us = (ts - T.UUID_EPOCH_OFFSET) // 10
    ctx.count("uuid_timestamp_checks")
    if kind == "float":
        ok = abs(Fraction(ts - T.UUID_EPOCH_OFFSET, 10) - exact_us) < 1 or abs(got_us - exact_us) < 1
    else:
        ok = got_us == exact_us
    if not ok:
        want100 = int(exact_us * 10) + T.UUID_EPOCH_OFFSET
        err = ts - want100
        mag = abs(int(exact_us * 10))
        spacing = 1 << max(0, mag.bit_length() - 53)
        wit.update({"uuid": str(u), "decoded_us": got_us, "expected_us": str(exact_us), "error_in_100ns": err})
        if kind != "float" and mag >= 2 ** 53 and abs(err) <= 2 * spacing:
            # |microseconds * 10| is beyond 2**53: the float product in uuid_from_time cannot represent it
            mech = "uuid-from-datetime-float-microseconds"
        else:
            mech = "uuid-timestamp-wrong"
        ctx.violation(mech, "uuid_from_time(%r) carries %d us, the instant is %s us (error %d x 100 ns)" % (arg, got_us, exact_us, err), wit)
    # random fields when none are given
    u2 = U.uuid_from_time(arg)
    f2 = T.uuid_fields(u2.bytes)
    if (f2[0], f2[1], f2[2]) != (ts, 1, 2):
        ctx.violation("uuid-fields", "uuid_from_time(%r) without node/clock = %s: timestamp/version/variant differ" % (arg, u2), wit)
    # min / max bound every time-UUID of the instant
    mn, mx = U.min_uuid_from_time(arg), U.max_uuid_from_time(arg)
    for name, b in (("min", mn), ("max", mx)):
        f = T.uuid_fields(b.bytes)
        if (f[0], f[1], f[2]) != (ts, 1, 2):
            ctx.violation("uuid-bound-not-of-instant", "%s_uuid_from_time(%r) = %s is not a v1 UUID of the same 100-ns instant" % (name, arg, b), wit)
    others = [u.bytes, u2.bytes]
    for _ in range(4):
        others.append(T.make_uuid_bytes(ts, rand_clock(rng), rand_node(rng)))
    for ob in others:
        ctx.count("uuid_bound_comparisons", 2)
        if T.timeuuid_compare(mn.bytes, ob) > 0:
            ctx.violation("min-uuid-not-minimal", "min_uuid_from_time(%r) = %s sorts after %s in TimeUUIDType order" % (arg, mn, _uuid.UUID(bytes=ob)), wit)
            break
        if T.timeuuid_compare(mx.bytes, ob) < 0:
            ctx.violation("max-uuid-not-maximal", "max_uuid_from_time(%r) = %s sorts before %s in TimeUUIDType order" % (arg, mx, _uuid.UUID(bytes=ob)), wit)
            break
        if T.timeuuid_compare(U.LOWEST_TIME_UUID.bytes, ob) > 0 or T.timeuuid_compare(U.HIGHEST_TIME_UUID.bytes, ob) < 0:
            ctx.violation("global-time-uuid-bounds", "LOWEST/HIGHEST_TIME_UUID do not bound %s" % _uuid.UUID(bytes=ob), wit)
            break


def check_driver_decode(ctx, U, T, us):
    """An exact v1 UUID (built by the reference) must decode to its instant with the driver's own decoders."""
    ts = us * 10 + T.UUID_EPOCH_OFFSET
    u = _uuid.UUID(bytes=T.make_uuid_bytes(ts, rand_clock(ctx.rng), rand_node(ctx.rng)))
    want = EPOCH + datetime.timedelta(microseconds=us)
    ctx.case(("decode", us))
    ctx.count("uuid_driver_decode_checks")
    num = abs(us * 10)
    exact_float = num < 2 ** 54          # the 100-ns count (a multiple of 10) converts to a double without rounding
    ctx.count("uuid_driver_decode_checks_in_exact_float_range" if exact_float else "uuid_driver_decode_checks_beyond_2**54")
    got = U.datetime_from_uuid1(u)
    if got != want:
        err_us = (got - want) // datetime.timedelta(microseconds=1)
        spacing = 1 << max(0, num.bit_length() - 53)
        wit = {"uuid": str(u), "us": us, "decoded": repr(got), "carried": repr(want), "error_us": err_us}
        if not exact_float and abs(err_us) <= 2 * spacing // 10 + 2:
            mech = "datetime-from-uuid1-float-seconds"      # (uuid.time - offset) / 1e7 is rounded to the float grid
        else:
            mech = "datetime-from-uuid1"
        ctx.violation(mech, "datetime_from_uuid1(%s) = %r, the UUID carries %r" % (u, got, want), wit)
    f = U.unix_time_from_uuid1(u)
    exact_s = Fraction(us, 10 ** 6)
    tol = Fraction(1, 10 ** 6) if exact_float else abs(exact_s) / 2 ** 51
    if abs(Fraction(f) - exact_s) > tol:
        ctx.violation("unix-time-from-uuid1", "unix_time_from_uuid1(%s) = %r, the UUID carries %d us" % (u, f, us), {"uuid": str(u), "us": us})


def rand_datetime(rng, y0, y1):
    return datetime.datetime(rng.randint(y0, y1), rng.randint(1, 12), rng.randint(1, 28), rng.randrange(24), rng.randrange(60),
                             rng.randrange(60), rng.choice([0, 1, 999999, 500000, rng.randrange(10 ** 6), rng.randrange(10 ** 6)]))


def uuid_part(ctx, U, T):
    rng = ctx.rng
    n = ctx.scale(40000, 1400000)
    exact_limit = 2 ** 53 // 10        # |us| below this: every float step of uuid_from_time is exact
    for i in range(n):
        x = rng.random()
        if x < 0.45:
            # instants for which microseconds*10 is exactly representable (1941-06 .. 1998-07) plus the decades around now
            if rng.random() < 0.5:
                us = rng.randrange(-exact_limit, exact_limit)
                dt = EPOCH + datetime.timedelta(microseconds=us)
            else:
                dt = rand_datetime(rng, 1999, 2026)
            if rng.random() < 0.15:
                off = datetime.timedelta(hours=rng.randint(-12, 14), minutes=rng.choice([0, 30, 45]))
                dt = (dt + off).replace(tzinfo=datetime.timezone(off))
                ctx.count("uuid_aware_datetimes")
            ctx.count("uuid_datetimes_in_exact_float_range" if abs(us_of_datetime(dt)) < exact_limit else "uuid_datetimes_1999_2026")
            check_instant(ctx, U, T, dt, "datetime", us_of_datetime(dt))
        elif x < 0.65:
            dt = rand_datetime(rng, *rng.choice([(1583, 1940), (2027, 2100), (2100, 5000)]))
            ctx.count("uuid_datetimes_far_from_epoch")
            check_instant(ctx, U, T, dt, "datetime", us_of_datetime(dt))
        elif x < 0.9:
            k = rng.randrange(-2 ** 53 + 1, 2 ** 53) if rng.random() < 0.5 else rng.randrange(0, 2 * 10 ** 15)
            k = max(k, -T.UUID_EPOCH_OFFSET // 10 + 1)
            t = k / 1e6
            ctx.count("uuid_float_seconds")
            check_instant(ctx, U, T, t, "float", Fraction(t) * 10 ** 6)
        else:
            t = rng.randrange(-12219292800, 9 * 10 ** 9)
            ctx.count("uuid_int_seconds")
            check_instant(ctx, U, T, t, "int", t * 10 ** 6)
        if i % 4 == 0:
            if rng.random() < 0.6:
                check_driver_decode(ctx, U, T, rng.randrange(-2 ** 54 // 10 + 1, 2 ** 54 // 10))          # 1912-12 .. 2027-01
            else:
                check_driver_decode(ctx, U, T, us_of_datetime(rand_datetime(rng, 1583, 5000)))


def run(ctx):
    from cassandra import util as U
    from spec import timeuuid as T
    ctx.rule = ("Date: day counts of years 1..9999 (thorough: every day, split over the workers; quick: every 23rd day from a seed-dependent "
                "offset plus Jan 1, Feb 28/29, Mar 1, Dec 31 of every year); Time: boundary and seeded random nanosecond values, out-of-range "
                "ints and strings; UUID: seeded datetimes (naive and aware, 1583..5000), float and int seconds, node/clock fields biased to "
                "the signed-byte extremes; distinct = the input value(s)")
    ctx.assume("TimeUUIDType order (Cassandra 2.x-5.0 compareCustom): 60-bit timestamp as a number, then bytes 8..15 compared as signed bytes; "
               "a time-UUID 'of the instant' is an RFC 4122 variant, version 1 UUID with the same 100-ns timestamp")
    ctx.assume("float seconds carry an instant only to float precision: |t| * 1e6 < 2**53 is generated and the decoded microsecond must be within "
               "1 us of the exact value of the float; datetime and int arguments must decode exactly (floor of the 100-ns count)")
    ctx.assume("unix_time_from_uuid1 returns float seconds by documentation ('same precision as time.time()'): judged to 1 us where the 100-ns "
               "count is exactly representable (1912-12 .. 2027-01) and to 4 ulp elsewhere; datetime_from_uuid1 returns a datetime and is "
               "judged exactly everywhere (1583..5000)")
    ctx.assume("instants before the UUID epoch 1582-10-15 and after year 5000 are not generated; time strings with more than 9 fraction digits, "
               "and seconds fields of 60/61 away from 23:59 (strptime leap-second tolerance) are not judged")
    date_part(ctx, U, T)
    time_part(ctx, U)
    uuid_part(ctx, U, T)
    ctx.sample({"uuid_from_time(datetime(2026,9,21,12,0,0,123457), 0, 0)": str(U.uuid_from_time(datetime.datetime(2026, 9, 21, 12, 0, 0, 123457), 0, 0)),
                "min": str(U.min_uuid_from_time(1.5)), "max": str(U.max_uuid_from_time(1.5)),
                "Date(19000)": str(U.Date(19000)), "Time(86399999999999)": str(U.Time(86399999999999))})
    ctx.floor_distinct = 20000
    ctx.floor_counters = {"date_checks": 10000, "time_checks": 5000, "time_range_checks": 50, "time_out_of_range_rejected": 10,
                          "uuid_instants": 5000, "uuid_bound_comparisons": 20000, "uuid_datetimes_in_exact_float_range": 500,
                          "uuid_datetimes_1999_2026": 500, "uuid_float_seconds": 500, "uuid_driver_decode_checks": 1000,
                          "uuid_driver_decode_checks_in_exact_float_range": 500}
