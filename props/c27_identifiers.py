"""C27 - CQL identifiers and string literals produced by the driver read back unchanged.

Monitor: hostile unicode names / texts are pushed through the real quoting helpers
(``protect_name``, ``protect_names``, ``maybe_escape_name``, ``escape_name``, ``is_valid_name``,
``protect_value``, ``cql_quote``) and through the real CQL generators that call them
(``KeyspaceMetadata.as_cql_query`` / ``export_as_string``, ``UserType``, ``TableMetadataV3``,
``TableMetadataDSE68`` vertex/edge labels, ``IndexMetadata`` incl. the index-target builder of the
schema parser, ``TriggerMetadata``, ``MaterializedViewMetadata``, ``Function``, ``Aggregate``,
``RLACTableExtension`` and ``Session.set_keyspace`` run on a recording stand-in for ``self``).
Oracle: the independent lexer ``spec/cqllex.py`` must read every quoted name back as exactly one
identifier token denoting the original name (bare only if the whole string is a lower-case bare word
that Cassandra does not reserve) and every quoted text as exactly one string token denoting the
original text; generated statements are matched token by token against a pattern built here from
the schema objects (names at name positions, keywords elsewhere).
"""
import types as _pytypes

PROPERTY = "C27"
LEVEL = "exploration"
ENGINE = "spec"
TECHNIQUE = "independent CQL lexer reads back generated identifiers, literals and DDL statements"
LEVEL_TEXT = ("exploration: seeded hostile unicode names and texts through every quoting helper and through the "
              "cluster-free CQL generators; each output judged by an independent lexer")
LEVEL_NOTE = ("trusted base: spec/cqllex.py (Cassandra lexer rules, documented reserved-word table; words of uncertain "
              "status are accepted quoted or bare); cqlengine and Encoder paths belong to C29/C37")
QUICK_WORKERS = 2
WORKERS = 12

KNOWN_NEWLINE = "bare-name-with-trailing-newline-left-unquoted"


# --------------------------------------------------------------------------------------------
# generators
# --------------------------------------------------------------------------------------------
UNRESERVED_KW = ["text", "key", "keys", "type", "user", "users", "role", "values", "list", "map", "tuple", "ttl", "count",
                 "writetime", "json", "date", "time", "int", "static", "frozen", "function", "language", "as", "all",
                 "filtering", "contains", "exists", "clustering", "compact", "storage", "custom", "trigger", "distinct"]
ODD_CHARS = ['"', '""', "'", "''", "\\", "$$", "$", ";", "--", "/*", "*/", "//", ".", ",", "(", ")", "<", ">", "%s", "%(a)s", "?", ":",
             " ", "\t", "\n", "\r", "\r\n", "\x00", "\x01", "\x0b", "\x0c", "\x1c", "\x1f", "\x7f", "\x85", "\xa0", " ", " ",
             "​", "﻿", "K", "ı", "İ", "ſ", "\xdf", "\xe9", "́", "٣", "ａ", "中",
             "\U0001F600", "\U0001D4D0", "\U00010000", "\U0010FFFF", "퟿", ""]
ALPHA = "abcdefghijklmnopqrstuvwxyz"


def rand_case(rng, w):
    return "".join(c.upper() if rng.random() < 0.5 else c for c in w)


def gen_name(rng, lex):
    r = rng.random()
    if r < 0.10:
        return rng.choice(sorted(lex.RESERVED))
    if r < 0.18:
        return rand_case(rng, rng.choice(sorted(lex.RESERVED)))
    if r < 0.22:
        return rand_case(rng, rng.choice(sorted(lex.EITHER_WAY))) if rng.random() < 0.5 else rng.choice(sorted(lex.EITHER_WAY))
    if r < 0.27:
        w = rng.choice(UNRESERVED_KW)
        return w if rng.random() < 0.6 else rand_case(rng, w)
    if r < 0.40:   # plain bare lower-case
        n = rng.randint(1, 12)
        return rng.choice(ALPHA) + "".join(rng.choice(ALPHA + "0123456789_") for _ in range(n - 1))
    if r < 0.48:   # mixed case bare
        n = rng.randint(1, 10)
        return rand_case(rng, rng.choice(ALPHA) + "".join(rng.choice(ALPHA + "0123456789_") for _ in range(n - 1))) or "A"
    if r < 0.53:   # digit or underscore first
        return rng.choice("0123456789_") + "".join(rng.choice(ALPHA + "0123456789_") for _ in range(rng.randint(0, 6)))
    if r < 0.60:   # a good word with something odd around it
        base = rng.choice(["abc", "t1", "select", "key", "x", "a_b", rng.choice(sorted(lex.RESERVED))])
        odd = rng.choice(ODD_CHARS)
        pos = rng.choice(["pre", "post", "mid"])
        if pos == "pre":
            return odd + base
        if pos == "post":
            return base + odd
        k = rng.randint(0, len(base))
        return base[:k] + odd + base[k:]
    if r < 0.62:
        return ""
    if r < 0.70:   # only odd characters
        return "".join(rng.choice(ODD_CHARS) for _ in range(rng.randint(1, 4)))
    # random soup
    n = rng.randint(1, 14)
    out = []
    for _ in range(n):
        q = rng.random()
        if q < 0.45:
            out.append(rng.choice(ALPHA))
        elif q < 0.55:
            out.append(rng.choice(ALPHA).upper())
        elif q < 0.65:
            out.append(rng.choice("0123456789_"))
        elif q < 0.90:
            out.append(rng.choice(ODD_CHARS))
        else:
            cp = rng.choice([rng.randint(0, 0x7f), rng.randint(0x80, 0x7ff), rng.randint(0x800, 0xffff), rng.randint(0x10000, 0x10ffff)])
            if 0xd800 <= cp <= 0xdfff:
                cp = 0xe000
            out.append(chr(cp))
    return "".join(out)


FIXED_NAMES = ["", "a", "abc", "abc\n", "a\n", "t1\n", "abc\n\n", "\nabc", "abc\r", "abc ", " abc", "abc\t", "ABC", "Abc", "aBc",
               "1abc", "_abc", "a b", 'a"b', '"', '""', '"""', '"a"', "a'b", "'", "select", "SELECT", "Select", "table", "Table",
               "keyspace", "token", "TOKEN", "if", "in", "is", "or", "to", "of", "nan", "NaN", "infinity", "null", "NULL",
               "true", "false", "TRUE", "default", "unset", "mbean", "mbeans", "text", "key", "KEY", "user", "type",
               "select\n", "text\n", "Keyspace", "ſelect", "tıtle", "\U0001F600", "na\xefve", "caf\xe9", "\xe9",
               "a\x00b", "\x00", "a ", "a\x85", "a\x0b", "a\x0c", "a\x1c", "a\x1d", "a\x1e", "a\x1f", "x" * 300,
               "a--b", "a/*b*/", "a;drop", "$$", "a$$b", "%s", "%(x)s", "?", ":a", "0x12", "1e5", "a.b", "ks.tbl"]


# --------------------------------------------------------------------------------------------
# oracle
# --------------------------------------------------------------------------------------------
class Judge(object):
    def __init__(self, ctx, lex):
        self.ctx = ctx
        self.lex = lex

    def newline_case(self, name, tok_text):
        """The narrow classifier of the known defect: a bare, lower-case word (reserved or not: the reserved-word lookup
        sees the newline too) followed by exactly one line feed was emitted verbatim (``$`` in the validity regex matches
        before a final newline)."""
        stem = name[:-1]
        return (name.endswith("\n") and self.lex.is_bare_word(stem) and stem == stem.lower() and tok_text in (name, stem))

    def ident_token(self, name, tok, where, witness):
        """tok is the token found at a name position (statement context)."""
        L = self.lex
        ctx = self.ctx
        ctx.count("identifier_tokens_judged")
        if tok.kind == "QIDENT":
            ctx.count("identifiers_seen_quoted")
            if tok.value != name:
                ctx.violation("quoted-identifier-reads-back-different",
                              "%s: quoted name denotes %r, original %r" % (where, tok.value, name), witness)
                return False
            return True
        if tok.kind == "BOOL":
            if name == tok.text and name in L.EITHER_WAY:
                ctx.count("either_way_words_seen_bare")
                return True
            ctx.violation("identifier-not-an-identifier", "%s: name %r was emitted as the boolean literal %r" % (where, name, tok.text), witness)
            return False
        if tok.kind != "IDENT":
            ctx.violation("identifier-not-an-identifier", "%s: name %r was emitted as a %s token %r" % (where, name, tok.kind, tok.text), witness)
            return False
        ctx.count("identifiers_seen_bare")
        if tok.value != name:
            if self.newline_case(name, tok.text):
                ctx.violation(KNOWN_NEWLINE, "%s: name %r left unquoted; CQL reads back %r" % (where, name, tok.value), witness)
            elif tok.text == name:
                ctx.violation("bare-identifier-changes-case", "%s: name %r left unquoted; CQL reads back %r" % (where, name, tok.value), witness)
            else:
                ctx.violation("bare-identifier-reads-back-different", "%s: name %r emitted as bare %r" % (where, name, tok.text), witness)
            return False
        res = L.is_reserved(name)
        if res is True:
            ctx.violation("reserved-word-left-unquoted", "%s: reserved word %r left unquoted" % (where, name), witness)
            return False
        if res is None:
            ctx.count("either_way_words_seen_bare")
        return True

    def ident_text(self, name, out, where):
        """out is the complete output of a helper for one name."""
        L = self.lex
        ctx = self.ctx
        witness = {"name": name, "output": out, "helper": where}
        if not isinstance(out, str):
            ctx.violation("identifier-helper-returns-non-string", "%s(%r) returned %r" % (where, name, out), witness)
            return False
        try:
            tok = L.lex_one(out, allow_empty_quoted=(name == ""))
        except L.LexError as e:
            if out == name and self.newline_case(name, out):
                ctx.count("identifier_tokens_judged")
                ctx.violation(KNOWN_NEWLINE, "%s(%r) returns the name unquoted; a CQL lexer reads %r" % (where, name, name[:-1]), witness)
                return False
            mech = "identifier-left-unquoted-not-a-bare-word" if out == name else "identifier-output-not-one-token"
            ctx.count("identifier_tokens_judged")
            ctx.violation(mech, "%s(%r) -> %r does not lex as one identifier: %s" % (where, name, out, e), witness)
            return False
        return self.ident_token(name, tok, where, witness)

    def string_text(self, text, out, where):
        L = self.lex
        ctx = self.ctx
        ctx.count("string_literals_judged")
        witness = {"text": text, "output": out, "helper": where}
        try:
            tok = L.lex_one(out)
        except L.LexError as e:
            ctx.violation("string-output-not-one-token", "%s(%r) -> %r does not lex as one string: %s" % (where, text, out, e), witness)
            return False
        if tok.kind != "STRING":
            ctx.violation("string-output-not-a-string", "%s(%r) -> %s token" % (where, text, tok.kind), witness)
            return False
        if tok.value != text:
            ctx.violation("string-reads-back-different", "%s(%r) -> %r denotes %r" % (where, text, out, tok.value), witness)
            return False
        return True


# pattern items ------------------------------------------------------------------------------
def KW(*words):
    return [("kw", w.lower()) for w in words]


def N(name):
    return [("name", name)]


def P(*ps):
    return [("p", p) for p in ps]


def S(text):
    return [("str", text)]


def RAW(lex, text):
    return [("tok", t.kind, t.value) for t in lex.lex(text)]


def NAMES(names, sep=","):
    out = []
    for i, n in enumerate(names):
        if i:
            out += P(sep)
        out += N(n)
    return out


def match_statement(judge, text, pattern, where, names):
    """Lex ``text`` and compare with ``pattern``.  Returns True when everything matched."""
    L = judge.lex
    ctx = judge.ctx
    witness = {"generator": where, "statement": text if len(text) < 1500 else text[:1500] + "...", "names": names}
    ctx.count("statements_lexed")
    try:
        toks = L.lex(text, allow_empty_quoted=True)   # "" is judged at its name position
    except L.LexError as e:
        ctx.violation("generated-statement-does-not-lex", "%s: %s" % (where, e), witness)
        return False
    ok = True
    i = 0
    for item in pattern:
        if i >= len(toks):
            ctx.violation("generated-statement-shape", "%s: statement ends early, expected %r" % (where, item), witness)
            return False
        t = toks[i]
        kind = item[0]
        if kind == "name":
            if not judge.ident_token(item[1], t, where, witness):
                ok = False
                if t.kind not in ("IDENT", "QIDENT", "BOOL"):
                    return False
        elif kind == "kw":
            if not (t.kind == "IDENT" and t.value == item[1]):
                ctx.violation("generated-statement-shape", "%s: expected keyword %s, found %s %r (token %d)" % (
                    where, item[1].upper(), t.kind, t.text, i), witness)
                return False
        elif kind == "p":
            if not t.is_punct(item[1]):
                ctx.violation("generated-statement-shape", "%s: expected %r, found %s %r (token %d)" % (where, item[1], t.kind, t.text, i), witness)
                return False
        elif kind == "str":
            ctx.count("string_literals_judged")
            if t.kind != "STRING" or t.value != item[1]:
                ctx.violation("string-reads-back-different", "%s: expected string %r, found %s %r" % (where, item[1], t.kind, t.value), witness)
                return False
        elif kind == "tok":
            if (t.kind, t.value) != (item[1], item[2]):
                ctx.violation("generated-statement-shape", "%s: expected %s %r, found %s %r (token %d)" % (
                    where, item[1], item[2], t.kind, t.text, i), witness)
                return False
        i += 1
    if i != len(toks):
        ctx.violation("generated-statement-shape", "%s: %d unexpected trailing tokens starting with %r" % (where, len(toks) - i, toks[i].text), witness)
        return False
    return ok


# --------------------------------------------------------------------------------------------
# workloads
# --------------------------------------------------------------------------------------------
def check_helpers(ctx, judge, md, enc, name):
    ctx.case(("name", name))
    judge.ident_text(name, md.protect_name(name), "protect_name")
    judge.ident_text(name, md.maybe_escape_name(name), "maybe_escape_name")
    esc = md.escape_name(name)
    if judge.ident_text(name, esc, "escape_name") and not esc.startswith('"'):
        ctx.violation("escape-name-does-not-quote", "escape_name(%r) -> %r is not a quoted name" % (name, esc), {"name": name, "output": esc})
    valid = md.is_valid_name(name)
    ctx.count("is_valid_name_evaluations")
    if valid:
        verdict = judge.lex.may_stay_unquoted(name)
        if verdict is False:
            if judge.newline_case(name, name):
                ctx.violation(KNOWN_NEWLINE, "is_valid_name(%r) is True" % (name,), {"name": name})
            else:
                ctx.violation("is-valid-name-accepts-name-that-needs-quotes", "is_valid_name(%r) is True" % (name,), {"name": name})
    # texts
    judge.string_text(name, md.protect_value(name), "protect_value")
    judge.string_text(name, enc.cql_quote(name), "cql_quote")


def check_protect_names(ctx, judge, md, names):
    out = md.protect_names(names)
    ctx.case(("names", tuple(names)))
    if not isinstance(out, list) or len(out) != len(names):
        ctx.violation("protect-names-shape", "protect_names(%r) -> %r" % (names, out), {"names": names})
        return
    for n, o in zip(names, out):
        judge.ident_text(n, o, "protect_names")


def check_scalars(ctx, judge, md, enc, rng):
    L = judge.lex
    vals = [None, True, False, 0, -1, 1, 2 ** 31, -2 ** 63, 10 ** 30, 0.0, -0.5, 1.5, 1e20, 1e-7, 123456.789,
            rng.randint(-10 ** 12, 10 ** 12), rng.random() * 10 ** rng.randint(-8, 12)]
    for v in vals:
        out = md.protect_value(v)
        ctx.count("scalar_literals_judged")
        try:
            term = L.parse_single_term(out)
        except ValueError as e:
            ctx.violation("scalar-literal-does-not-parse", "protect_value(%r) -> %r: %s" % (v, out, e), {"value": repr(v), "output": out})
            continue
        got = term.plain()
        if v is None:
            ok = term.kind == "null"
        elif isinstance(v, bool):
            ok = term.kind == "bool" and got is v
        else:
            ok = term.kind in ("int", "float") and got == v
        if not ok:
            ctx.violation("scalar-literal-reads-back-different", "protect_value(%r) -> %r reads back %r" % (v, out, got),
                          {"value": repr(v), "output": out})
    for v in [0, -7, 2 ** 64, rng.randint(-10 ** 9, 10 ** 9)]:
        out = enc.cql_quote(v)
        ctx.count("scalar_literals_judged")
        t = L.parse_single_term(out)
        if t.kind != "int" or t.value != v:
            ctx.violation("scalar-literal-reads-back-different", "cql_quote(%r) -> %r" % (v, out), {"value": v, "output": out})


class _RecordingSession(object):
    def __init__(self):
        self.queries = []

    def execute(self, query, *a, **kw):
        self.queries.append(query)


def distinct_names(rng, lex, n, pool=None):
    out = []
    seen = set()
    guard = 0
    while len(out) < n and guard < 1000:
        guard += 1
        nm = rng.choice(pool) if pool is not None and rng.random() < 0.3 else gen_name(rng, lex)
        if nm in seen:
            continue
        if nm.endswith("\n") and rng.random() < 0.8:
            continue   # keep the known newline defect from dominating the statement workload
        seen.add(nm)
        out.append(nm)
    return out


SIMPLE_TYPES = ["int", "text", "bigint", "uuid", "frozen<list<int>>", "map<text, int>", "frozen<tuple<int, text>>", "boolean"]


TYPE_WORDS = frozenset(["int", "text", "bigint", "uuid", "frozen", "list", "map", "tuple", "boolean"])


def gen_text(rng, lex):
    if rng.random() < 0.4:
        return gen_name(rng, lex)
    return " ".join(gen_name(rng, lex) for _ in range(rng.randint(0, 4)))


def check_schema(ctx, judge, md, cluster_mod, rng):
    """One generated keyspace with types, tables, index, trigger, view, function, aggregate."""
    L = judge.lex
    names = distinct_names(rng, L, 72, FIXED_NAMES)
    it = iter(names)
    nx = lambda: next(it)
    all_names = []

    def nm():
        v = nx()
        all_names.append(v)
        return v

    ks_name = nm()
    ks = md.KeyspaceMetadata(ks_name, rng.random() < 0.5, "SimpleStrategy", {"replication_factor": "1"})
    ks_tail = RAW(L, "WITH replication = {'class': 'SimpleStrategy', 'replication_factor': '1'} AND durable_writes = %s"
                  % ("true" if ks.durable_writes else "false"))
    ks_pat = KW("create", "keyspace") + N(ks_name) + ks_tail
    match_statement(judge, ks.as_cql_query(), ks_pat, "KeyspaceMetadata.as_cql_query", [ks_name])

    # --- USE through Session.set_keyspace (recording stand-in for self)
    rec = _RecordingSession()
    cluster_mod.Session.set_keyspace(rec, ks_name)
    ctx.count("set_keyspace_statements")
    if len(rec.queries) != 1:
        ctx.violation("set-keyspace-shape", "Session.set_keyspace issued %d statements" % len(rec.queries), {"name": ks_name})
    else:
        match_statement(judge, rec.queries[0], KW("use") + N(ks_name), "Session.set_keyspace", [ks_name])

    parts = [ks_pat + P(";")]

    # --- user types
    type_pats = {}
    for _ in range(rng.randint(0, 2)):
        tname = nm()
        while tname in TYPE_WORDS:   # a user type named like a native type would change the dependency order of the export
            tname = nm()
        fields = [nm() for _ in range(rng.randint(1, 3))]
        ftypes = [rng.choice(SIMPLE_TYPES) for _ in fields]
        ut = md.UserType(ks_name, tname, fields, ftypes)
        pat = KW("create", "type") + N(ks_name) + P(".") + N(tname) + P("(")
        for i, (f, t) in enumerate(zip(fields, ftypes)):
            if i:
                pat += P(",")
            pat += N(f) + RAW(L, t)
        pat += P(")")
        fm = rng.random() < 0.5
        match_statement(judge, ut.as_cql_query(formatted=fm), pat, "UserType.as_cql_query", [ks_name, tname] + fields)
        ks.user_types[tname] = ut
        type_pats[tname] = pat + P(";")
    for k in sorted(type_pats):
        parts.append(type_pats[k])

    # --- function / aggregate
    if rng.random() < 0.7:
        fname = nm()
        args = [nm() for _ in range(rng.randint(0, 2))]
        atypes = [rng.choice(SIMPLE_TYPES) for _ in args]
        body = rng.choice(["return 1;", "return a + 'x';", "/* \" */ return null;", "return \"%s\";" % gen_text(rng, L).replace("$", "")])
        fn = md.Function(ks_name, fname, atypes, args, "int", "java", body, rng.random() < 0.5, False, False, [])
        pat = KW("create", "function") + N(ks_name) + P(".") + N(fname) + P("(")
        for i, (a, t) in enumerate(zip(args, atypes)):
            if i:
                pat += P(",")
            pat += N(a) + RAW(L, t.replace("frozen<", "", 1)[:-1] if t.startswith("frozen<") else t)
        pat += P(")")
        pat += (KW("called") if fn.called_on_null_input else KW("returns", "null")) + KW("on", "null", "input", "returns", "int", "language", "java", "as")
        pat += S(body)
        match_statement(judge, fn.as_cql_query(formatted=rng.random() < 0.5), pat, "Function.as_cql_query", [ks_name, fname] + args)
        ks.functions[fn.signature] = fn
        parts.append(pat + P(";"))
    if rng.random() < 0.7:
        aname, sfunc, ffunc = nm(), nm(), nm()
        use_final = rng.random() < 0.5 and ffunc != ""   # the generator treats an empty FINALFUNC as absent
        ag = md.Aggregate(ks_name, aname, ["int", "text"], sfunc, "int", ffunc if use_final else None, "0" if rng.random() < 0.5 else None, "int", False)
        pat = KW("create", "aggregate") + N(ks_name) + P(".") + N(aname) + P("(") + KW("int") + P(",") + KW("text") + P(")")
        pat += KW("sfunc") + N(sfunc) + KW("stype", "int")
        if use_final:
            pat += KW("finalfunc") + N(ffunc)
        if ag.initial_condition is not None:
            pat += KW("initcond") + [("tok", "INT", 0)]
        match_statement(judge, ag.as_cql_query(formatted=rng.random() < 0.5), pat, "Aggregate.as_cql_query", [ks_name, aname, sfunc, ffunc])
        ks.aggregates[ag.signature] = ag
        parts.append(pat + P(";"))

    # --- tables
    for _t in range(rng.randint(1, 2)):
        dse = rng.random() < 0.3
        cls = md.TableMetadataDSE68 if dse else md.TableMetadataV3
        tname = nm()
        comment = gen_text(rng, L)
        tm = cls(ks_name, tname, options={"comment": comment})
        npk, nck, nreg = rng.randint(1, 2), rng.randint(0, 2), rng.randint(0, 2)
        cols = []
        for i in range(npk + nck + nreg):
            cname = nm()
            ctype = rng.choice(SIMPLE_TYPES)
            static = i >= npk + nck and nck > 0 and rng.random() < 0.3
            rev = npk <= i < npk + nck and rng.random() < 0.5
            col = md.ColumnMetadata(tm, cname, ctype, is_static=static, is_reversed=rev)
            cols.append(col)
            tm.columns[cname] = col
        tm.partition_key = cols[:npk]
        tm.clustering_key = cols[npk:npk + nck]
        pat = KW("create", "table") + N(ks_name) + P(".") + N(tname) + P("(")
        for i, col in enumerate(cols):
            if i:
                pat += P(",")
            pat += N(col.name) + RAW(L, col.cql_type)
            if col.is_static:
                pat += KW("static")
            if i == 0 and npk == 1 and nck == 0:
                pat += KW("primary", "key")
        if npk > 1 or nck:
            pat += P(",") + KW("primary", "key") + P("(")
            if npk > 1:
                pat += P("(") + NAMES([c.name for c in tm.partition_key]) + P(")")
            else:
                pat += N(tm.partition_key[0].name)
            for c in tm.clustering_key:
                pat += P(",") + N(c.name)
            pat += P(")")
        pat += P(")") + KW("with")
        if nck:
            pat += KW("clustering", "order", "by") + P("(")
            for i, c in enumerate(tm.clustering_key):
                if i:
                    pat += P(",")
                pat += N(c.name) + KW("desc" if c.is_reversed else "asc")
            pat += P(")") + KW("and")
        pat += KW("comment") + P("=") + S(comment)
        if dse:
            if rng.random() < 0.5:
                label = nm()
                tm.vertex = md.VertexMetadata(ks_name, tname, label)
                pat += KW("and", "vertex", "label") + N(label)
            else:
                label, fl, tl = nm(), nm(), nm()
                fpk = [nm() for _ in range(rng.randint(1, 2))]
                fck = [nm() for _ in range(rng.randint(0, 2))]
                tpk = [nm() for _ in range(rng.randint(1, 2))]
                tck = [nm() for _ in range(rng.randint(0, 1))]
                tm.edge = md.EdgeMetadata(ks_name, tname, label, "ft", fl, fpk, fck, "tt", tl, tpk, tck)
                pat += KW("and", "edge", "label") + N(label)
                for kwd, lab, pk, ck in (("from", fl, fpk, fck), ("to", tl, tpk, tck)):
                    pat += KW(kwd) + N(lab) + P("(")
                    pat += N(pk[0]) if len(pk) == 1 else (P("(") + NAMES(pk) + P(")"))
                    for c in ck:
                        pat += P(",") + N(c)
                    pat += P(")")
        where = cls.__name__ + ".as_cql_query"
        match_statement(judge, tm.as_cql_query(formatted=rng.random() < 0.5), pat, where, [ks_name, tname] + [c.name for c in cols])
        tpat = pat + P(";")

        # index (built by the schema parser's index-target builder from a column) ------------
        if rng.random() < 0.7:
            iname = nm()
            col = rng.choice(cols)
            col._cass_type = _pytypes.SimpleNamespace(typename="int", subtypes=())
            row = {"index_name": iname, "index_type": "COMPOSITES", "index_options": rng.choice(["{}", "null", '{"index_values": ""}'])}
            im = md.SchemaParserV22._build_index_metadata(col, row)
            ipat = KW("create", "index") + N(iname) + KW("on") + N(ks_name) + P(".") + N(tname) + P("(") + N(col.name) + P(")")
            match_statement(judge, im.as_cql_query(), ipat, "IndexMetadata.as_cql_query(_build_index_metadata)", [iname, ks_name, tname, col.name])
            match_statement(judge, im.export_as_string(), ipat + P(";"), "IndexMetadata.export_as_string", [iname, ks_name, tname, col.name])
            tm.indexes[iname] = im
            tpat += ipat + P(";")
        if rng.random() < 0.5:
            trname = nm()
            klass = rng.choice(["org.example.Trig", gen_text(rng, L)])
            tr = md.TriggerMetadata(tm, trname, {"class": klass})
            trpat = KW("create", "trigger") + N(trname) + KW("on") + N(ks_name) + P(".") + N(tname) + KW("using") + S(klass)
            match_statement(judge, tr.as_cql_query(), trpat, "TriggerMetadata.as_cql_query", [trname, ks_name, tname])
            tm.triggers[trname] = tr
            tpat += trpat + P(";")
        if rng.random() < 0.5:
            vname = nm()
            vcomment = gen_text(rng, L)
            incl_all = rng.random() < 0.3
            where_col = cols[0].name
            mv = md.MaterializedViewMetadata(ks_name, vname, tname, incl_all, L.quote_ident(where_col) + " IS NOT NULL", {"comment": vcomment})
            vcols = list(cols)
            rng.shuffle(vcols)
            for c in vcols:
                mv.columns[c.name] = c
            k = rng.randint(1, min(2, len(vcols)))
            mv.partition_key = vcols[:k]
            mv.clustering_key = vcols[k:k + rng.randint(0, 2)]
            vpat = KW("create", "materialized", "view") + N(ks_name) + P(".") + N(vname) + KW("as", "select")
            vpat += P("*") if incl_all else NAMES([c.name for c in vcols])
            vpat += KW("from") + N(ks_name) + P(".") + N(tname) + KW("where") + N(where_col) + KW("is", "not", "null")
            vpat += KW("primary", "key") + P("(")
            vpat += (P("(") + NAMES([c.name for c in mv.partition_key]) + P(")")) if len(mv.partition_key) > 1 else N(mv.partition_key[0].name)
            for c in mv.clustering_key:
                vpat += P(",") + N(c.name)
            vpat += P(")") + KW("with")
            if mv.clustering_key:
                vpat += KW("clustering", "order", "by") + P("(")
                for i, c in enumerate(mv.clustering_key):
                    if i:
                        vpat += P(",")
                    vpat += N(c.name) + KW("desc" if c.is_reversed else "asc")
                vpat += P(")") + KW("and")
            vpat += KW("comment") + P("=") + S(vcomment)
            match_statement(judge, mv.as_cql_query(formatted=rng.random() < 0.5), vpat, "MaterializedViewMetadata.as_cql_query",
                            [ks_name, vname, tname] + [c.name for c in vcols])
            tm.views[vname] = mv
            tpat += vpat + P(";")
        match_statement(judge, tm.export_as_string(), tpat, cls.__name__ + ".export_as_string", [ks_name, tname])
        ks.tables[tname] = tm
        parts.append((tm, tpat))

        if rng.random() < 0.3:
            target = nm()
            out = md.RLACTableExtension.after_table_cql(tm, "DSE_RLACA", target.encode("utf-8"))
            rpat = KW("restrict", "rows", "on") + N(ks_name) + P(".") + N(tname) + KW("using") + N(target) + P(";")
            match_statement(judge, out, rpat, "RLACTableExtension.after_table_cql", [ks_name, tname, target])

    # --- whole keyspace export: vertex tables come first (the generator's documented order)
    tabs = [p for p in parts if isinstance(p, tuple)]
    with_vertex = [p for p in tabs if getattr(p[0], "vertex", None)]
    others = [p for p in tabs if p not in with_vertex]
    full = []
    for p in parts:
        if not isinstance(p, tuple):
            full += p
    for _tm, tp in with_vertex + others:
        full += tp
    match_statement(judge, ks.export_as_string(), full, "KeyspaceMetadata.export_as_string", all_names)
    ctx.case(("schema", tuple(all_names)))
    return all_names


def run(ctx):
    from vlib import shim
    shim.import_cluster()
    import cassandra.cluster as cluster_mod
    import cassandra.metadata as md
    import cassandra.encoder as enc
    from spec import cqllex as L

    L._selftest()
    ctx.rule = ("names/texts: fixed hostile list + seeded generator (reserved words in random case, uncertain words, unreserved keywords, "
                "bare lower/mixed case, digit/underscore first, empty, quotes, control characters, CR/LF/tab/space around a word, "
                "unicode case-folding traps, non-BMP); every name through protect_name/maybe_escape_name/escape_name/is_valid_name/"
                "protect_value/cql_quote; groups of up to 40 distinct names populate one generated keyspace (types, tables, index, trigger, "
                "view, function, aggregate, graph labels) whose generated CQL is matched token by token; distinct = name / name tuple")
    ctx.assume("the empty name has no CQL spelling (Cassandra's QUOTED_NAME needs one character); the monitor only demands that it is "
               "emitted as the quoted pair \"\" and never bare")
    ctx.assume("words whose reserved status differs between Cassandra releases (default, unset, mbean, mbeans) and true/false are accepted "
               "quoted or bare; quoting more than necessary is never a violation")
    ctx.assume("lone surrogate code points are not generated (not encodable as UTF-8, cannot reach the wire)")
    ctx.assume("float nan/inf through protect_value, table option maps / replication maps / graph_engine / custom-index class names "
               "(formatted with '%s' without a quoting helper) and Function.monotonic_on are outside this property's quantifier and not generated")
    rng = ctx.rng
    judge = Judge(ctx, L)

    if ctx.worker in (None, 0):
        for name in FIXED_NAMES:
            check_helpers(ctx, judge, md, enc, name)
        for w in sorted(L.RESERVED | L.EITHER_WAY):
            for v in (w, w.upper(), w.capitalize(), w + "\n", w + "_"):
                check_helpers(ctx, judge, md, enc, v)
        check_protect_names(ctx, judge, md, list(FIXED_NAMES))
        ctx.sample({"protect_name": dict((repr(n), md.protect_name(n)) for n in ["abc", "Abc", "select", 'a"b', "abc\n", ""])})
        ctx.sample({"KeyspaceMetadata.as_cql_query": md.KeyspaceMetadata('my "ks"', True, "SimpleStrategy", {"replication_factor": "1"}).as_cql_query()})

    n_names = ctx.scale(100000, 3000000)
    for i in range(n_names):
        check_helpers(ctx, judge, md, enc, gen_name(rng, L))
        if i % 500 == 0:
            check_protect_names(ctx, judge, md, [gen_name(rng, L) for _ in range(rng.randint(0, 6))])
            check_scalars(ctx, judge, md, enc, rng)
    n_schemas = ctx.scale(4000, 150000)
    for i in range(n_schemas):
        names = check_schema(ctx, judge, md, cluster_mod, rng)
        if i == 0:
            ctx.sample({"schema_names": names[:8]})

    ctx.floor_distinct = 3000 if ctx.quick else 50000
    ctx.floor_counters = {"identifier_tokens_judged": 50000, "identifiers_seen_quoted": 10000, "identifiers_seen_bare": 2000,
                          "string_literals_judged": 20000, "statements_lexed": 5000, "set_keyspace_statements": 500,
                          "is_valid_name_evaluations": 10000}
