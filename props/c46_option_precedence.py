"""C46 - per-statement options override profile and session defaults.

Monitor: a real Cluster / Session runs in the deterministic world against two scripted nodes.
For every enumerated combination of options set / unset on the statement (SimpleStatement,
BoundStatement inheriting from its PreparedStatement in three ways, BatchStatement), on the
request (timeout argument) and on the configuration (execution profile selected by default, by
key, by name or by instance; or legacy Session / Cluster settings) the request is issued with
``session.execute_async`` and two things are compared with a small reference precedence
function written from the documentation: (a) the ResponseFuture the session built and (b) the
frame the node received, parsed by the independent parser spec/frames.py.
"""
import itertools
import random

PROPERTY = "C46"
LEVEL = "exploration"
ENGINE = "sim"
TECHNIQUE = "runtime monitor in a deterministic world: enumerated option lattice, ResponseFuture attributes and the frame parsed by an independent parser compared with a reference precedence function"
LEVEL_TEXT = ("Complete enumeration (ctx.exhaustive) of: statement kind {simple, bound via prepared attributes, bound via constructor, bound overriding "
              "its prepared statement, batch} x consistency {unset, ANY(=0), QUORUM} x serial {unset, SERIAL, LOCAL_SERIAL} x retry policy {unset, set} x "
              "fetch size {unset, None, 0, 37} x idempotent x timeout argument {omitted, None, 3.5} x profile choice {omitted, EXEC_PROFILE_DEFAULT, 16 "
              "set/unset patterns by name and by instance} x default profile {all unset, all set} x protocol {2, 3, 4}; and of the legacy mode: 216 "
              "Session/Cluster settings (policy given to the constructor) + 2 x 36 settings with Cluster.load_balancing_policy assigned after construction / "
              "replacing the constructor's, default_retry_policy given to the constructor or assigned later, x a reduced statement lattice x protocol; plus random samples of the full 128-pattern profile product. "
              "Held-on-observed for every enumerated combination.")
LEVEL_NOTE = ("Trusted base: sim/world.py, sim/node.py, spec/frames.py and the 12-line reference function. 'Unset' profile options are judged against "
              "the documented defaults (LOCAL_ONE, no serial level, RetryPolicy, 10 s, named_tuple_factory, TokenAware(DCAware), no speculative "
              "execution). The load-balancing policy in effect is also judged by the node that received the frame. A fetch size of 0 is not "
              "documented: only the ResponseFuture attribute is judged for it, not the frame. In legacy mode an 'untouched' session setting is "
              "re-established by assigning the documented default value.")
QUICK_WORKERS = 4
WORKERS = 14

NODE_A, NODE_B = '127.0.0.1', '127.0.0.2'
UNSET = 'unset'
OPTS = ('cl', 'scl', 'rp', 'timeout', 'row_factory', 'lbp', 'spec')
# 16 set/unset patterns over the 7 profile options: none, all, each one alone, all but each one (every pair of options meets in all 4 combinations)
MASKS16 = [0, 127] + [1 << i for i in range(7)] + [127 ^ (1 << i) for i in range(7)]


def reference(own, timeout_arg, cfg, session_fetch_size):
    """the statement's own setting if it has one, else the profile's / (legacy) session's"""
    eff = {}
    eff['cl'] = own['cl'] if own['cl'] is not UNSET else cfg['cl']
    eff['scl'] = own['scl'] if own['scl'] is not UNSET else cfg['scl']
    eff['rp'] = own['rp'] if own['rp'] is not UNSET else cfg['rp']
    eff['fs'] = own['fs'] if own['fs'] is not UNSET else session_fetch_size
    eff['timeout'] = timeout_arg if timeout_arg is not UNSET else cfg['timeout']
    eff['row_factory'] = cfg['row_factory']
    eff['lbp'] = cfg['lbp']
    eff['spec'] = cfg['spec'] if own['idem'] else None
    return eff


class World46(object):
    """one cluster/session in one world; issues statements and compares"""
    def __init__(self, ctx, proto, legacy, default_mask, masks, legacy_variant='constructor'):
        from sim.env import SimEnv
        from sim import world as W
        from cassandra import ConsistencyLevel as CL
        from cassandra.cluster import ExecutionProfile, EXEC_PROFILE_DEFAULT
        from cassandra.policies import RoundRobinPolicy, RetryPolicy, SpeculativeExecutionPolicy, NoSpeculativeExecutionPlan, TokenAwarePolicy
        from cassandra.query import tuple_factory, dict_factory, named_tuple_factory, ordered_dict_factory
        self.ctx, self.proto, self.legacy = ctx, proto, legacy
        self.CL = CL
        self.RetryPolicy, self.TokenAwarePolicy = RetryPolicy, TokenAwarePolicy
        self.named_tuple_factory = named_tuple_factory
        self.EXEC_PROFILE_DEFAULT = EXEC_PROFILE_DEFAULT
        self.ExecutionProfile = ExecutionProfile

        class OnlyHost(RoundRobinPolicy):
            def __init__(self, addr):
                RoundRobinPolicy.__init__(self)
                self.addr = addr

            def make_query_plan(self, working_keyspace=None, query=None):
                for h in RoundRobinPolicy.make_query_plan(self, working_keyspace, query):
                    if h.endpoint.address == self.addr:
                        yield h

        class MarkerPlan(NoSpeculativeExecutionPlan):
            def __init__(self, policy):
                self.policy = policy

        class MarkerSpec(SpeculativeExecutionPolicy):
            def new_plan(self, keyspace, statement):
                return MarkerPlan(self)
        self.MarkerPlan = MarkerPlan

        class R(RetryPolicy):
            pass
        self.R = R
        self.lbp_default_set, self.lbp_named_set = OnlyHost(NODE_A), OnlyHost(NODE_B)
        self.rp_stmt, self.rp_other = R(), R()
        random.seed(proto * 1000 + (7 if legacy else 0) + default_mask)
        ch = W.RandomChooser(random.Random(46), p_time=0.0, p_preempt=0.0)
        self.env = SimEnv(ch, addresses=[NODE_A, NODE_B], preempt=False)
        self.env.__enter__()
        self.cfgs = {}           # profile key -> reference configuration (documented defaults for unset options)
        self.profiles = {}
        try:
            if legacy:
                self.rp_legacy = R()
                self.legacy_lbp = OnlyHost(NODE_B)
                self.initial_retry_cfg = 'default-retry-policy'
                if legacy_variant == 'constructor':
                    # the policy is handed to the constructor
                    self.cluster = self.env.cluster(contact_points=[NODE_B], protocol_version=proto, load_balancing_policy=self.legacy_lbp)
                elif legacy_variant == 'assigned':
                    # legacy mode entered through the constructor's default_retry_policy; the load-balancing policy is assigned afterwards
                    self.initial_retry_cfg = R()
                    self.cluster = self.env.cluster(contact_points=[NODE_B], protocol_version=proto, load_balancing_policy=None,
                                                    default_retry_policy=self.initial_retry_cfg)
                    self.cluster.load_balancing_policy = self.legacy_lbp
                elif legacy_variant == 'replaced':
                    # a constructor policy replaced before connecting
                    self.cluster = self.env.cluster(contact_points=[NODE_B], protocol_version=proto, load_balancing_policy=OnlyHost(NODE_A))
                    self.cluster.load_balancing_policy = self.legacy_lbp
                else:
                    raise ValueError(legacy_variant)
                self.initial_retry = self.cluster.default_retry_policy
            else:
                eps = {}
                for key, mask in [(EXEC_PROFILE_DEFAULT, default_mask)] + [('p%03d' % m, m) for m in masks]:
                    kw, cfg = {}, {'cl': CL.LOCAL_ONE, 'scl': None, 'rp': 'default-retry-policy', 'timeout': 10.0, 'row_factory': named_tuple_factory,
                                   'lbp': 'default-lbp', 'spec': None}
                    odd = bin(mask).count('1') % 2 == 1
                    if mask & 1:
                        kw['consistency_level'] = cfg['cl'] = CL.ANY if odd else CL.THREE
                    if mask & 2:
                        kw['serial_consistency_level'] = cfg['scl'] = CL.LOCAL_SERIAL if odd else CL.SERIAL
                    if mask & 4:
                        kw['retry_policy'] = cfg['rp'] = R()
                    if mask & 8:
                        kw['request_timeout'] = cfg['timeout'] = None if odd else 7.25
                    if mask & 16:
                        kw['row_factory'] = cfg['row_factory'] = dict_factory if odd else ordered_dict_factory
                    if mask & 32:
                        kw['load_balancing_policy'] = cfg['lbp'] = self.lbp_default_set if key is EXEC_PROFILE_DEFAULT else self.lbp_named_set
                    if mask & 64:
                        kw['speculative_execution_policy'] = cfg['spec'] = MarkerSpec()
                    eps[key] = ExecutionProfile(**kw)
                    self.cfgs[key] = cfg
                self.profiles = eps
                self.cluster = self.env.cluster(protocol_version=proto, execution_profiles=eps)
            self.session = self.cluster.connect()
            self.env.world.settle(advance=False)
            self.prepared = self.session.prepare("SELECT v FROM ks.t46 WHERE k = 1")
            self.env.world.settle(advance=False)
            self.session_fetch_size = 5000
            self.since_settle = 0
        except BaseException:
            self.close()
            raise

    def close(self):
        try:
            try:
                self.cluster.shutdown()
                self.env.world.settle()
            except Exception:
                pass
        finally:
            self.env.__exit__(None, None, None)

    # -- building the statement ---------------------------------------------------------------
    def make_statement(self, kind, cl, scl, rp, fs, idem, uid):
        import copy
        from cassandra.query import SimpleStatement, BoundStatement, BatchStatement, FETCH_SIZE_UNSET
        CL = self.CL
        own = {'cl': cl, 'scl': scl, 'rp': self.rp_stmt if rp else UNSET, 'fs': fs, 'idem': idem}
        kw = {}
        if cl is not UNSET:
            kw['consistency_level'] = cl
        if scl is not UNSET:
            kw['serial_consistency_level'] = scl
        if rp:
            kw['retry_policy'] = self.rp_stmt
        if fs is not UNSET:
            kw['fetch_size'] = fs
        if kind == 'simple':
            return SimpleStatement("SELECT /*uid=%d*/ v FROM ks.t46" % uid, is_idempotent=idem, **kw), own, 'QUERY'
        if kind == 'batch':
            b = BatchStatement(**kw)
            b.is_idempotent = idem
            b.add(SimpleStatement("INSERT INTO ks.t46 (k, v) VALUES (%d, 0)" % uid))
            return b, own, 'BATCH'
        p = copy.copy(self.prepared)
        p.is_idempotent = idem
        if kind == 'bound_prepared':
            for k, v in kw.items():
                setattr(p, k, v)
            return p.bind(()), own, 'EXECUTE'
        if kind == 'bound_ctor':
            return BoundStatement(p, **kw).bind(()), own, 'EXECUTE'
        if kind == 'bound_override':
            # the prepared statement carries other settings; what the bound statement sets itself wins, the rest is inherited
            p.consistency_level = CL.ONE
            p.serial_consistency_level = CL.LOCAL_SERIAL if scl == CL.SERIAL else CL.SERIAL
            p.retry_policy = self.rp_other
            p.fetch_size = 99
            inherited = {'cl': CL.ONE, 'scl': p.serial_consistency_level, 'rp': self.rp_other, 'fs': 99, 'idem': idem}
            for k in ('cl', 'scl', 'rp', 'fs'):
                if own[k] is not UNSET:
                    inherited[k] = own[k]
            return BoundStatement(p, **kw).bind(()), inherited, 'EXECUTE'
        raise ValueError(kind)

    # -- one case ---------------------------------------------------------------------------------
    def issue(self, stmt, own, op, timeout_arg, profile_arg, cfg, label):
        env = self.env
        log = env.net.wire_log
        n0 = len(log)
        kw = {}
        if timeout_arg is not UNSET:
            kw['timeout'] = timeout_arg
        if profile_arg is not UNSET:
            kw['execution_profile'] = profile_arg
        f = self.session.execute_async(stmt, **kw)
        new = log[n0:]
        if len(new) != 1 or new[0]['op'] != op:
            raise RuntimeError("expected exactly one %s frame for %r, the nodes received %r" % (op, label, [w['op'] for w in new]))
        w = new[0]
        eff = reference(own, timeout_arg, cfg, self.session_fetch_size)
        bad = []
        m = f.message
        if m.consistency_level != eff['cl'] or m.consistency_level is None:
            bad.append(('consistency', 'future', m.consistency_level, eff['cl']))
        if w['consistency'] != eff['cl']:
            bad.append(('consistency', 'frame', w['consistency'], eff['cl']))
        if m.serial_consistency_level != eff['scl']:
            bad.append(('serial-consistency', 'future', m.serial_consistency_level, eff['scl']))
        if not (op == 'BATCH' and self.proto < 3) and w['serial_consistency'] != eff['scl']:
            bad.append(('serial-consistency', 'frame', w['serial_consistency'], eff['scl']))
        if op != 'BATCH':
            if m.fetch_size != eff['fs']:
                bad.append(('fetch-size', 'future', m.fetch_size, eff['fs']))
            if eff['fs'] != 0 and w['page_size'] != eff['fs']:
                bad.append(('fetch-size', 'frame', w['page_size'], eff['fs']))
        if f.timeout != eff['timeout']:
            bad.append(('timeout', 'future', f.timeout, eff['timeout']))
        rp = f._retry_policy
        if eff['rp'] == 'default-retry-policy':
            if type(rp) is not self.RetryPolicy:
                bad.append(('retry-policy', 'future', repr(rp), 'the default RetryPolicy'))
        elif rp is not eff['rp']:
            bad.append(('retry-policy', 'future', self.name_of(rp), self.name_of(eff['rp'])))
        if f.row_factory is not eff['row_factory']:
            bad.append(('row-factory', 'future', getattr(f.row_factory, '__name__', repr(f.row_factory)), eff['row_factory'].__name__))
        lb = f._load_balancer
        if eff['lbp'] == 'default-lbp':
            if not isinstance(lb, self.TokenAwarePolicy):
                bad.append(('load-balancing-policy', 'future', type(lb).__name__, 'the default TokenAwarePolicy(DCAwareRoundRobinPolicy)'))
        else:
            if lb is not eff['lbp']:
                bad.append(('load-balancing-policy', 'future', getattr(lb, 'addr', type(lb).__name__), eff['lbp'].addr))
            if w['_node'] != eff['lbp'].addr:
                bad.append(('load-balancing-policy', 'frame', w['_node'], eff['lbp'].addr))
        plan = f._spec_execution_plan
        if eff['spec'] is None:
            if isinstance(plan, self.MarkerPlan):
                bad.append(('speculative-execution', 'future', 'a plan of a profile policy', 'no speculative plan'))
        elif not isinstance(plan, self.MarkerPlan) or plan.policy is not eff['spec']:
            bad.append(('speculative-execution', 'future', type(plan).__name__, "a plan made by the profile's policy"))
        self.since_settle += 1
        if self.since_settle >= 24:
            self.drain()
        return bad, eff, w

    def name_of(self, rp):
        if rp is self.rp_stmt:
            return "the statement's policy"
        if rp is self.rp_other:
            return "the prepared statement's policy"
        if rp is getattr(self, 'rp_legacy', None):
            return "Cluster.default_retry_policy"
        if type(rp) is self.RetryPolicy:
            return 'a default RetryPolicy'
        return "a profile's policy" if isinstance(rp, self.R) else repr(rp)

    def drain(self):
        env = self.env
        env.world.settle(advance=False)
        self.since_settle = 0
        del env.net.wire_log[:]
        del env.net.events[:]
        del env.world.trace[:]
        for n in env.net.nodes.values():
            del n.log[:]
        if env.world.errors or env.net.parse_failures:
            raise RuntimeError("world errors %r parse failures %r" % (env.world.errors[:1], env.net.parse_failures[:1]))


def statement_lattice(CL, full=True):
    kinds = ['simple', 'bound_prepared', 'bound_ctor', 'bound_override', 'batch']
    cls_ = [UNSET, CL.ANY, CL.QUORUM] if full else [UNSET, CL.ANY]
    scls = [UNSET, CL.SERIAL, CL.LOCAL_SERIAL] if full else [UNSET, CL.SERIAL]
    rps = [False, True]
    idems = [False, True] if full else [True]
    for kind in kinds:
        fss = [UNSET] if kind == 'batch' else ([UNSET, None, 0, 37] if full else [UNSET, None, 37])
        for cl, scl, rp, fs, idem in itertools.product(cls_, scls, rps, fss, idems):
            yield kind, cl, scl, rp, fs, idem


def mech_of(bad, kind, own, legacy):
    opt, where, got, want = bad
    return "%s-not-by-precedence-%s%s" % (opt, 'in-frame' if where == 'frame' else 'on-future', '-legacy' if legacy else '')


def run(ctx):
    from vlib import shim
    shim.import_cluster()
    from vlib.run import Inconclusive
    from sim.world import WorldLimit
    from cassandra import ConsistencyLevel as CL
    from cassandra.cluster import EXEC_PROFILE_DEFAULT
    from cassandra.query import dict_factory, named_tuple_factory
    import copy
    import warnings
    warnings.simplefilter('ignore', DeprecationWarning)

    ctx.rule = ("a case is (protocol, mode, default-profile pattern | legacy settings, profile choice, statement kind, consistency, serial consistency, "
                "retry policy, fetch size, idempotence, timeout argument); the enumerated layers are complete products (see LEVEL_TEXT), the sampled "
                "layer draws from the full 128-pattern profile product and three Session.default_fetch_size values; distinct by that tuple; "
                "non-trivial = at least one option set on the statement or the configuration")
    ctx.assume("Statement.fetch_size 0 is not documented: the frame is not judged for it (the future must still carry the statement's 0)")
    ctx.assume("protocol v2 BATCH cannot carry a serial consistency level: the frame is not judged for it there")
    ctx.assume("legacy mode: execution_profile arguments other than the default are rejected by the driver and are not generated; "
               "profile and legacy modes are never mixed in one cluster")
    worker, nworkers = (ctx.worker or 0), max(1, ctx.nworkers)
    budget = 42 if ctx.quick else 480
    state = {'i': 0, 'complete': True}
    timeouts = [UNSET, None, 3.5]
    uid = [0]

    def report(world, bad, label, eff, w, kind, own):
        seen = set()
        for b in bad:
            mech = mech_of(b, kind, own, world.legacy)
            if mech in seen:
                continue
            seen.add(mech)
            ctx.violation(mech, "%s %s is %r, precedence says %r [%s]" % (b[0], 'in the frame' if b[1] == 'frame' else 'on the ResponseFuture', b[2], b[3], label),
                          {'case': label, 'differences': [list(map(str, x)) for x in bad],
                           'frame': dict((k, w.get(k)) for k in ('op', 'version', 'consistency', 'serial_consistency', 'page_size', '_node'))})

    def one(world, label, nontrivial, kind, cl, scl, rp, fs, idem, tmo, parg, cfg):
        uid[0] += 1
        stmt, own, op = world.make_statement(kind, cl, scl, rp, fs, idem, uid[0])
        bad, eff, w = world.issue(stmt, own, op, tmo, parg, cfg, label)
        ctx.case(label, nontrivial=nontrivial)
        ctx.count("statements_issued_and_compared")
        ctx.count("frames_parsed_" + op.lower())
        if eff['cl'] == 0:
            ctx.count("cases_effective_consistency_ANY")
        if own['cl'] is not UNSET and cfg['cl'] != own['cl']:
            ctx.count("cases_statement_consistency_overrides_config")
        if own['rp'] is not UNSET:
            ctx.count("cases_statement_retry_policy_overrides_config")
        if kind.startswith('bound') and own['fs'] is not UNSET:
            ctx.count("cases_bound_statement_own_or_inherited_fetch_size")
        if tmo is UNSET:
            ctx.count("cases_timeout_from_config")
        if bad:
            report(world, bad, label, eff, w, kind, own)
        elif len(ctx.samples) < 5 and uid[0] % 4999 == 7:
            ctx.sample({'case': label, 'effective': dict((k, str(v)) for k, v in eff.items()),
                        'frame': dict((k, w.get(k)) for k in ('op', 'version', 'consistency', 'serial_consistency', 'page_size', '_node'))})

    def mine():
        state['i'] += 1
        return state['i'] % nworkers == worker

    import time
    t_start = time.time()          # the budget counts from here (imports can be slow on a loaded machine)

    def time_left(b):
        return b - (time.time() - t_start)

    def out_of_time():
        if time_left(budget) < 0:
            state['complete'] = False
            return True
        return False

    try:
        # ---------------- layer 1: profiles mode, complete product
        for proto in (2, 3, 4):
            for dmask in (0, 127):
                if out_of_time():
                    break
                world = World46(ctx, proto, False, dmask, MASKS16)
                try:
                    if dmask == 127:
                        world.session.default_fetch_size = world.session_fetch_size = 123
                    choices = [('omitted', UNSET, EXEC_PROFILE_DEFAULT), ('default-key', EXEC_PROFILE_DEFAULT, EXEC_PROFILE_DEFAULT)]
                    for m in MASKS16:
                        choices.append(('name:p%03d' % m, 'p%03d' % m, 'p%03d' % m))
                        choices.append(('instance:p%03d' % m, copy.copy(world.profiles['p%03d' % m]), 'p%03d' % m))
                    for (pname, parg, pkey) in choices:
                        cfg = world.cfgs[pkey]
                        if out_of_time():
                            break
                        for (kind, cl, scl, rp, fs, idem) in statement_lattice(CL, True):
                            for tmo in timeouts:
                                if not mine():
                                    continue
                                label = "v%d profiles default=%d %s %s cl=%s scl=%s rp=%s fs=%s idem=%s timeout=%s" % (
                                    proto, dmask, pname, kind, cl, scl, rp, fs, idem, tmo)
                                one(world, label, True, kind, cl, scl, rp, fs, idem, tmo, parg, cfg)
                        ctx.count("profile_choices_completed")
                    world.drain()
                finally:
                    world.close()
                ctx.count("worlds_profiles_mode")
        # ---------------- layer 2: legacy mode, complete product of Session / Cluster settings
        # (the policy given to the constructor: all 216 settings; assigned after construction / replacing the constructor's: 36 settings each)
        for proto, variant in itertools.product((2, 3, 4), ('constructor', 'assigned', 'replaced')):
            if out_of_time():
                break
            world = World46(ctx, proto, True, 0, [], variant)
            try:
                s, c = world.session, world.cluster
                first = True
                full = variant == 'constructor'
                for (scl_cfg, tmo_cfg, rf_cfg, fs_cfg, rp_cfg, cl_cfg) in itertools.product(
                        [None, CL.SERIAL], [10.0, None, 4.0], [named_tuple_factory, dict_factory] if full else [named_tuple_factory],
                        [5000, None, 123] if full else [5000], [False, True], [CL.LOCAL_ONE, CL.ANY, CL.THREE]):
                    if out_of_time():
                        break
                    if not first:
                        # the very first configuration is judged with nothing ever assigned
                        s.default_consistency_level = cl_cfg
                        s.default_serial_consistency_level = scl_cfg
                        s.default_timeout = tmo_cfg
                        s.row_factory = rf_cfg
                        c.default_retry_policy = world.rp_legacy if rp_cfg else world.initial_retry
                    s.default_fetch_size = world.session_fetch_size = fs_cfg
                    first = False
                    cfg = {'cl': cl_cfg, 'scl': scl_cfg, 'rp': world.rp_legacy if rp_cfg else world.initial_retry_cfg, 'timeout': tmo_cfg,
                           'row_factory': rf_cfg, 'lbp': world.legacy_lbp, 'spec': None}
                    for (kind, cl, scl, rp, fs, idem) in statement_lattice(CL, False):
                        for tmo in timeouts:
                            if not mine():
                                continue
                            label = "v%d legacy(lbp %s) cl=%s scl=%s timeout=%s rf=%s fetch=%s retry=%s %s cl=%s scl=%s rp=%s fs=%s timeout=%s" % (
                                proto, variant, cl_cfg, scl_cfg, tmo_cfg, rf_cfg.__name__, fs_cfg, rp_cfg, kind, cl, scl, rp, fs, tmo)
                            one(world, label, True, kind, cl, scl, rp, fs, idem, tmo, UNSET, cfg)
                    ctx.count("legacy_configurations_completed")
                world.drain()
            finally:
                world.close()
            ctx.count("worlds_legacy_mode")
            ctx.count("worlds_legacy_mode_lbp_" + variant)
        ctx.exhaustive = bool(state['complete'])
        # ---------------- layer 3: samples of the full profile product (all 128 set/unset patterns, default_fetch_size 5000 / None / 123)
        rng = ctx.rng
        lattice = list(statement_lattice(CL, True))
        all_masks = list(range(128))
        nsample = ctx.scale(40000, 1400000)
        done = 0
        while done < nsample and time_left(budget + (0 if ctx.quick else 60)) > 0:
            proto = rng.choice([2, 3, 4])
            dmask = rng.randrange(128)
            world = World46(ctx, proto, False, dmask, all_masks)
            try:
                for _ in range(min(4000, nsample - done)):
                    if time_left(budget + (0 if ctx.quick else 60)) < 0:
                        break
                    if rng.random() < 0.02:
                        world.session.default_fetch_size = world.session_fetch_size = rng.choice([5000, None, 123])
                    r = rng.random()
                    m = rng.randrange(128)
                    if r < 0.1:
                        pname, parg, pkey = 'omitted', UNSET, EXEC_PROFILE_DEFAULT
                    elif r < 0.2:
                        pname, parg, pkey = 'default-key', EXEC_PROFILE_DEFAULT, EXEC_PROFILE_DEFAULT
                    elif r < 0.6:
                        pname, parg, pkey = 'name:p%03d' % m, 'p%03d' % m, 'p%03d' % m
                    else:
                        pname, parg, pkey = 'instance:p%03d' % m, copy.copy(world.profiles['p%03d' % m]), 'p%03d' % m
                    kind, cl, scl, rp, fs, idem = rng.choice(lattice)
                    tmo = rng.choice(timeouts)
                    label = "v%d profiles default=%d %s %s cl=%s scl=%s rp=%s fs=%s idem=%s timeout=%s fetch=%s" % (
                        proto, dmask, pname, kind, cl, scl, rp, fs, idem, tmo, world.session_fetch_size)
                    one(world, label, True, kind, cl, scl, rp, fs, idem, tmo, parg, world.cfgs[pkey])
                    ctx.count("sampled_cases_full_profile_product")
                    done += 1
                world.drain()
            finally:
                world.close()
    except WorldLimit as e:
        raise Inconclusive("world budget exhausted: %s" % e)
    except Inconclusive:
        raise
    except Exception as e:
        import traceback
        raise Inconclusive("harness failure: %s: %s\n%s" % (type(e).__name__, e, traceback.format_exc()[-1200:]))
    if not state['complete']:
        ctx.note("time budget reached before the enumerated layers were complete (worker %d)" % worker)
    ctx.floor_distinct = 50000 if ctx.quick else 300000
    ctx.floor_counters = {"statements_issued_and_compared": 50000, "frames_parsed_query": 10000, "frames_parsed_execute": 20000, "frames_parsed_batch": 2000,
                          "cases_effective_consistency_ANY": 5000, "cases_statement_consistency_overrides_config": 5000,
                          "cases_statement_retry_policy_overrides_config": 5000, "cases_bound_statement_own_or_inherited_fetch_size": 5000,
                          "cases_timeout_from_config": 5000, "worlds_profiles_mode": 1, "worlds_legacy_mode": 1,
                          "worlds_legacy_mode_lbp_assigned": 1, "worlds_legacy_mode_lbp_replaced": 1}
