"""C03 - request frames conform to the native protocol specification.

Monitor: every request message class is encoded by the real
``ProtocolHandler.encode_message`` for a generated (version, option combination) and the bytes
are read back by the independent strict parser spec/frames.py; fields read back are compared
with the fields requested.  Options a version cannot carry (keyspace, custom payload,
continuous paging, v1 serial consistency / paging) must be rejected with an exception.
"""
PROPERTY = "C03"
LEVEL = "exploration"
ENGINE = "spec"
TECHNIQUE = "runtime monitor: real encoder output read back by an independent strict spec parser, field-by-field comparison"
LEVEL_TEXT = ("All ten request classes x protocol versions {1..6, DSE v1/v2} x a sampled option lattice (values incl. null/unset, page size, "
              "paging state, serial CL, timestamp, keyspace incl. '', continuous paging, payload, tracing, compression, beta, stream ids) "
              "are encoded by the real code; an independent parser must consume every byte and return the requested fields; "
              "un-carriable options must raise. Held-on-observed over ~50k (quick) / ~1M (thorough) frames.")
LEVEL_NOTE = ("Trusted base: spec/frames.py (written from native_protocol_v1-v5.spec; DSE additions from the driver's documented layout: "
              "int flags, continuous paging block, REVISE_REQUEST). Only option combinations the session layer can request are generated "
              "(timestamps for v3+, unset for v4+, BATCH for v2+, CREDENTIALS v1, AUTH_RESPONSE v2+). Compression uses a stand-in codec.")
WORKERS = 12

VERSIONS = [1, 2, 3, 4, 5, 6, 0x41, 0x42]


def _compress(b):
    return len(b).to_bytes(4, 'big') + b'Z' + bytes(x ^ 0x5a for x in b)


def _decompress(b):
    n = int.from_bytes(b[:4], 'big')
    assert b[4:5] == b'Z'
    out = bytes(x ^ 0x5a for x in b[5:])
    assert len(out) == n
    return out


def run(ctx):
    from vlib import shim
    shim.import_cluster()
    from cassandra import protocol as P, ConsistencyLevel as CL
    from cassandra.cluster import ContinuousPagingOptions
    from cassandra.query import BatchType
    from spec import frames as F

    rng = ctx.rng
    ctx.count("spec_selfcheck_cases", F.selfcheck())
    ctx.rule = ("random sampling of the option lattice per message class and version (every dimension has boundary values: none/empty/some); "
                "a case is (class, version, options); distinct by repr; non-trivial = at least two optional fields requested or a rejection expected")
    handler = P.ProtocolHandler
    UNSET = P._UNSET_VALUE

    def rvalue():
        r = rng.random()
        if r < 0.15:
            return None
        if r < 0.25:
            return b''
        return bytes(rng.getrandbits(8) for _ in range(rng.choice([1, 4, 8, 33, 300] if not ctx.quick or r < 0.9 else [1, 4, 70000])))

    def values(v, n=None):
        n = rng.choice([0, 1, 2, 5]) if n is None else n
        out = []
        for _ in range(n):
            if v >= 4 and rng.random() < 0.15:
                out.append(UNSET)
            else:
                out.append(rvalue())
        return out

    def spec_values(vals):
        return [F.UNSET if x is UNSET else (None if x is None else bytes(x)) for x in vals]

    def common(v):
        o = {}
        o['stream'] = rng.choice([0, 1, 5, 127, 126] + ([128, 255, 256, 32767, 32766] if v >= 3 else []))
        o['tracing'] = rng.random() < 0.3
        o['payload'] = rng.choice([None, None, {}, {'k': b'v'}, {'a': b'', 'bé': bytes(range(40))}])
        o['compress'] = rng.random() < 0.3
        o['beta'] = rng.random() < 0.2
        return o

    def query_opts(v, with_values):
        o = common(v)
        o['cl'] = rng.choice([CL.ANY, CL.ONE, CL.QUORUM, CL.LOCAL_ONE, CL.ALL])
        o['serial'] = rng.choice([None, None, CL.SERIAL, CL.LOCAL_SERIAL])
        o['fetch'] = rng.choice([None, None, 0, 1, 5000, 2 ** 31 - 1])
        o['paging_state'] = rng.choice([None, None, b'', b'ps', bytes(range(200))])
        o['timestamp'] = rng.choice([None, None, 0, 1, 1700000000000000, 2 ** 62, 2 ** 63 - 1]) if v >= 3 else None
        o['keyspace'] = rng.choice([None, None, None, '', 'ks', 'Ks"x', 'kéy'])
        cp = rng.choice([None, None, None, 'rows', 'bytes'])
        if cp:
            o['cp'] = ContinuousPagingOptions(
                page_unit=ContinuousPagingOptions.PagingUnit.BYTES if cp == 'bytes' else ContinuousPagingOptions.PagingUnit.ROWS,
                max_pages=rng.choice([0, 1, 100]), max_pages_per_second=rng.choice([0, 7]), max_queue_size=rng.choice([2, 4, 9]))
        else:
            o['cp'] = None
        return o

    def must_reject(kind, v, o):
        why = []
        if o.get('payload') and v < 4:
            why.append('custom payload below v4')
        if kind in ('QUERY', 'PREPARE', 'BATCH') and o.get('keyspace') is not None and not F.has_keyspace_flag(v):
            why.append('keyspace on a version without keyspace flag')
        if kind in ('QUERY', 'EXECUTE'):
            if o.get('cp') and not F.has_continuous_paging(v):
                why.append('continuous paging outside DSE protocols')
            if v == 1 and o.get('serial'):
                why.append('serial consistency on v1')
            if v == 1 and (o.get('fetch') or o.get('paging_state')):
                why.append('paging on v1')
        return why

    def check_common(p, v, o, body_nonempty_hint=True):
        bad = []
        if p['version'] != v:
            bad.append(('version', v, p['version']))
        if p['stream'] != o['stream']:
            bad.append(('stream', o['stream'], p['stream']))
        if p['tracing'] != bool(o['tracing']):
            bad.append(('tracing', o['tracing'], p['tracing']))
        want_payload = o['payload'] if o['payload'] else None
        got_payload = p['payload'] if p['payload'] else None
        if want_payload != got_payload:
            bad.append(('payload', want_payload, got_payload))
        if p['beta'] != bool(o['beta']):
            bad.append(('beta', o['beta'], p['beta']))
        return bad

    def cmp_query_params(p, v, o):
        bad = []
        def want(name, a, b):
            if a != b:
                bad.append((name, a, b))
        want('consistency', int(o['cl']), p['consistency'])
        want('serial_consistency', int(o['serial']) if o['serial'] else None, p['serial_consistency'])
        want('page_size', o['fetch'] if o['fetch'] else None, p['page_size'])
        want('paging_state', o['paging_state'] if o['paging_state'] else None, p['paging_state'])
        want('timestamp', o['timestamp'], p['timestamp'])
        want('keyspace', o.get('keyspace'), p['keyspace'])
        if o['cp']:
            exp = {'max_pages': o['cp'].max_pages, 'max_pages_per_second': o['cp'].max_pages_per_second}
            if F.has_next_pages(v):
                exp['max_queue_size'] = o['cp'].max_queue_size
            want('continuous_paging', exp, p['continuous_paging'])
            want('continuous_paging.page_unit_bytes_flag', o['cp'].page_unit_bytes(), bool((p['qflags'] or 0) & F.Q_DSE_PAGE_BYTES))
        else:
            want('continuous_paging', None, p['continuous_paging'])
        return bad

    def classify(kind, v, o, bad, exc_text):
        names = set(b[0] for b in bad) if bad else set()
        if kind == 'PREPARE' and o.get('keyspace') == '' and F.has_keyspace_flag(v):
            return "prepare-empty-keyspace-flag-without-field"
        if kind == 'BATCH' and o.get('keyspace') == '' and F.has_keyspace_flag(v):
            return "batch-empty-keyspace-field-without-flag"
        if kind == 'QUERY' and v == 1 and exc_text and 'trailing' in exc_text:
            return "v1-query-extra-flags-byte"
        if names == {'continuous_paging.page_unit_bytes_flag'}:
            return "continuous-paging-page-unit-bytes-not-encoded"
        return None

    def run_case(kind, v, o, build, compare):
        """build() -> message; compare(parsed) -> list of (field, wanted, got)"""
        reasons = must_reject(kind, v, o)
        nopt = sum(1 for k, x in o.items() if k not in ('stream', 'cl') and x not in (None, False, {}, 0, b''))
        ctx.case(repr((kind, v, sorted((k, repr(x)) for k, x in o.items() if k != 'cp'), o.get('cp') and vars(o['cp']))),
                 nontrivial=(nopt >= 2 or bool(reasons)))
        wit = {"message": kind, "version": v, "options": {k: (vars(x) if k == 'cp' and x else x) for k, x in o.items()}}
        try:
            msg = build()
            msg.tracing = o['tracing']
            if o['payload'] is not None:
                msg.update_custom_payload(o['payload'])
            data = handler.encode_message(msg, o['stream'], v, _compress if o['compress'] else None, o['beta'])
        except Exception as e:
            if reasons:
                ctx.count("rejections_observed")
                return
            ctx.violation(classify(kind, v, o, None, str(e)) or "valid-request-rejected",
                          "%s v%d with carriable options raised %s: %s" % (kind, v, type(e).__name__, str(e)[:200]), wit)
            return
        ctx.count("frames_encoded")
        ctx.count("bytes_parsed", len(data))
        wit["frame"] = data
        if reasons:
            ctx.violation("uncarriable-option-not-rejected", "%s v%d encoded although: %s" % (kind, v, '; '.join(reasons)), wit)
            return
        try:
            p = F.parse_request(data, _decompress)
        except F.FrameError as e:
            ctx.violation(classify(kind, v, o, None, str(e)) or "frame-not-parseable-by-spec",
                          "%s v%d: independent parser rejects the frame: %s" % (kind, v, e), wit)
            return
        if p['op'] != kind:
            ctx.violation("wrong-opcode", "%s encoded with opcode %s" % (kind, p['op']), wit)
            return
        bad = check_common(p, v, o) + compare(p)
        # compression flag: only when requested, never on v5/v6 frames, never on empty bodies / STARTUP / OPTIONS
        want_c = bool(o['compress']) and not (5 <= v < 0x41) and p['length'] > 0
        if p['compressed'] != want_c:
            bad.append(('compressed', want_c, p['compressed']))
        if bad:
            ctx.violation(classify(kind, v, o, bad, None) or "field-mismatch",
                          "%s v%d: fields read back differ: %s" % (kind, v, '; '.join("%s wanted %r got %r" % b for b in bad)[:400]), wit)
            return
        ctx.count("frames_conforming")
        if len(ctx.samples) < 6 and rng.random() < 0.003:
            ctx.sample({"message": kind, "version": v, "frame": data, "parsed": {k: x for k, x in p.items() if x not in (None, False)}})

    n = ctx.scale(45000, 1200000)
    budget = 45 if ctx.quick else 420
    kinds = ['QUERY', 'EXECUTE', 'BATCH', 'PREPARE', 'STARTUP', 'OPTIONS', 'AUTH_RESPONSE', 'CREDENTIALS', 'REGISTER', 'REVISE_REQUEST']
    weights = [6, 6, 5, 3, 1, 1, 1, 1, 1, 1]
    for i in range(n):
        if i % 256 == 0 and ctx.time_left(budget) < 0:
            ctx.note("stopped by time budget after %d cases" % i)
            break
        kind = rng.choices(kinds, weights)[0]
        v = rng.choice(VERSIONS)
        if kind == 'QUERY':
            o = query_opts(v, False)
            q = rng.choice(["SELECT * FROM t", "", "INSERT INTO é VALUES ('\U0001F600')", "x" * rng.choice([1, 300, 70000 if rng.random() < 0.05 else 5])])
            run_case(kind, v, o, lambda: P.QueryMessage(q, o['cl'], o['serial'], o['fetch'], o['paging_state'], o['timestamp'], o['cp'], o['keyspace']),
                     lambda p: ([('query', q, p['query'])] if p['query'] != q else []) +
                               ([('values', None, p['values'])] if p['values'] else []) + cmp_query_params(p, v, o))
        elif kind == 'EXECUTE':
            o = query_opts(v, True)
            o['keyspace'] = None
            qid = bytes(rng.getrandbits(8) for _ in range(rng.choice([1, 16, 32])))
            rmid = bytes(rng.getrandbits(8) for _ in range(rng.choice([16, 16, 0, 1]))) if F.has_result_metadata_id(v) else None
            vals = values(v)
            skip = rng.random() < 0.5
            def cmp_exec(p, vals=vals, qid=qid, rmid=rmid, skip=skip):
                bad = []
                if p['query_id'] != qid:
                    bad.append(('query_id', qid, p['query_id']))
                if p['result_metadata_id'] != rmid:
                    bad.append(('result_metadata_id', rmid, p['result_metadata_id']))
                if (p['values'] or []) != spec_values(vals):
                    bad.append(('values', spec_values(vals), p['values']))
                if v >= 2 and p['skip_metadata'] != skip:
                    # not one of the options the property lists; observed, not judged
                    ctx.count("skip_metadata_requested_but_flag_absent(not judged)")
                if v == 1:
                    if p['consistency'] != int(o['cl']):
                        bad.append(('consistency', int(o['cl']), p['consistency']))
                    return bad
                return bad + cmp_query_params(p, v, o)
            run_case(kind, v, o, lambda: P.ExecuteMessage(qid, vals, o['cl'], o['serial'], o['fetch'], o['paging_state'], o['timestamp'],
                                                          skip_meta=skip, continuous_paging_options=o['cp'], result_metadata_id=rmid), cmp_exec)
        elif kind == 'BATCH':
            if v < 2:
                continue
            o = common(v)
            o['cl'] = rng.choice([CL.ANY, CL.ONE, CL.QUORUM])
            o['serial'] = rng.choice([None, None, CL.SERIAL, CL.LOCAL_SERIAL]) if v >= 3 else None
            o['timestamp'] = rng.choice([None, None, 0, 1, 123456789, 2 ** 63 - 1]) if v >= 3 else None
            o['keyspace'] = rng.choice([None, None, None, '', 'ks'])
            bt = rng.choice([BatchType.LOGGED, BatchType.UNLOGGED, BatchType.COUNTER])
            qs = []
            for _ in range(rng.choice([0, 1, 2, 4])):
                if rng.random() < 0.5:
                    qs.append((False, rng.choice(["INSERT 1", "UPDATE é", ""]), values(3 if v < 4 else 3)))
                else:
                    qs.append((True, bytes(rng.getrandbits(8) for _ in range(16)), values(3)))
            def cmp_batch(p, qs=qs, bt=bt):
                bad = []
                if p['batch_type'] != bt.value:
                    bad.append(('batch_type', bt.value, p['batch_type']))
                want = [(('id', q) if prep else ('query', q)) + (spec_values(vs),) for prep, q, vs in qs]
                if p['queries'] != want:
                    bad.append(('queries', want, p['queries']))
                for name, a in (('consistency', int(o['cl'])), ('serial_consistency', int(o['serial']) if o['serial'] else None),
                                ('timestamp', o['timestamp']), ('keyspace', o['keyspace'])):
                    if p[name] != a:
                        bad.append((name, a, p[name]))
                return bad
            run_case(kind, v, o, lambda: P.BatchMessage(bt, qs, o['cl'], o['serial'], o['timestamp'], o['keyspace']), cmp_batch)
        elif kind == 'PREPARE':
            o = common(v)
            o['keyspace'] = rng.choice([None, None, '', 'ks', 'K"s'])
            q = rng.choice(["SELECT * FROM t WHERE k=?", "", "é?"])
            run_case(kind, v, o, lambda: P.PrepareMessage(q, o['keyspace']),
                     lambda p: [(n_, a, p[n_]) for n_, a in (('query', q), ('keyspace', o['keyspace'])) if p[n_] != a])
        elif kind == 'STARTUP':
            o = common(v)
            opts = rng.choice([{}, {'COMPRESSION': 'lz4'}, {'DRIVER_NAME': 'x', 'DRIVER_VERSION': '3.29', 'NO_COMPACT': 'true'}])
            def cmp_startup(p, opts=opts):
                want = dict(opts, CQL_VERSION='3.4.5')
                return [('options', want, p['options'])] if p['options'] != want else []
            o['compress'] = False
            run_case(kind, v, o, lambda: P.StartupMessage('3.4.5', dict(opts)), cmp_startup)
        elif kind == 'OPTIONS':
            o = common(v)
            o['compress'] = False
            run_case(kind, v, o, lambda: P.OptionsMessage(), lambda p: [])
        elif kind == 'AUTH_RESPONSE':
            if v < 2:
                continue
            o = common(v)
            tok = rng.choice([b'', b'\x00user\x00pass', bytes(range(256))])
            run_case(kind, v, o, lambda: P.AuthResponseMessage(tok), lambda p: [('token', tok, p['token'])] if (p['token'] or b'') != tok else [])
        elif kind == 'CREDENTIALS':
            if v != 1:
                continue
            o = common(v)
            creds = rng.choice([{}, {'username': 'u', 'password': 'pé'}])
            run_case(kind, v, o, lambda: P.CredentialsMessage(dict(creds)), lambda p: [('credentials', creds, p['credentials'])] if p['credentials'] != creds else [])
        elif kind == 'REGISTER':
            o = common(v)
            ev = rng.choice([[], ['TOPOLOGY_CHANGE'], ['TOPOLOGY_CHANGE', 'STATUS_CHANGE', 'SCHEMA_CHANGE']])
            run_case(kind, v, o, lambda: P.RegisterMessage(list(ev)), lambda p: [('events', ev, p['events'])] if p['events'] != ev else [])
        elif kind == 'REVISE_REQUEST':
            if not F.has_continuous_paging(v):
                continue
            o = common(v)
            op_type = rng.choice([1, 2]) if F.has_next_pages(v) else 1
            op_id = rng.choice([0, 1, 32767])
            nxt = rng.choice([1, 5, 1000])
            run_case(kind, v, o, lambda: P.ReviseRequestMessage(op_type, op_id, nxt if op_type == 2 else 0),
                     lambda p: [(n_, a, p[n_]) for n_, a in (('op_type', op_type), ('op_id', op_id), ('next_pages', nxt if op_type == 2 else None)) if p[n_] != a])
    ctx.floor_distinct = 4000 if ctx.quick else 60000
    ctx.floor_counters = {"frames_conforming": 8000, "rejections_observed": 500}
