"""C30 - prepared-statement binding and routing keys are consistent.

Monitor: real ``PreparedStatement`` objects (built directly, through ``from_message`` with the
server's pk indexes, through ``from_message`` with a cluster-metadata lookup, and from a PREPARED
result body written by the independent frame encoder and read by the real decoder) are bound
positionally and by name to generated values (None / UNSET_VALUE / missing trailing / missing
names / extra).  The observed ``BoundStatement.values`` and ``routing_key`` are judged against the
independent codec (spec/cqlcodec.py), the independent partition-key layout (spec/partkey.py) and
the independent Murmur3 token (spec/murmur.py).
"""
import io

PROPERTY = "C30"
LEVEL = "exploration"
ENGINE = "spec"
TECHNIQUE = "runtime monitor: differential of bound values / routing key / token against independent codec, key layout and partitioner"
LEVEL_TEXT = ("Tens of thousands (quick) to ~1M (thorough) generated statements (1-6 bind columns of generated nested types, 0-3 "
              "partition-key indexes in any order, protocol 1-5, four ways of building the PreparedStatement) are bound positionally and "
              "by name; every bound value, every accept/reject decision, the routing key bytes and its Murmur3 token are compared with "
              "independently computed expectations. Held-on-observed over the generated space, not a proof.")
LEVEL_NOTE = ("Trusted base: spec/cqlcodec.py, spec/partkey.py (CompositeType layout, hand-verified vectors), spec/murmur.py, "
              "spec/frames.py (PREPARED body). Not judged (stated assumptions): null partition-key components, short positional lists "
              "below protocol v4 (passed through, the server rejects them), tokens of empty keys, vector element types whose "
              "fixed-length classification is uncertain.")
WORKERS = 14

NAMES = ['a', 'b', 'k', 'K', 'id', 'v0', 'v 1', 'select', 'c_2', 'Col', 'part', 'ts', 'ünï', 'x']


class _Unroutable(object):
    """why a statement has no routing key although pk columns were drawn"""


def _classify_key(PK, got, want_parts):
    """Narrow mechanism slug for a wrong routing key (predicate over the witness)."""
    if not isinstance(got, (bytes, bytearray)):
        return "routing-key-not-bytes"
    if len(want_parts) == 1:
        return "routing-key-single-component-not-raw"
    try:
        parts = PK.split_composite(got)
    except PK.KeyError_:
        return "routing-key-composite-layout-wrong"
    if parts != list(want_parts) and sorted(parts) == sorted(want_parts):
        return "routing-key-components-in-wrong-order"
    return "routing-key-components-differ"


def run(ctx):
    from props import _cqlgen as G
    from spec import cqlcodec as S
    from spec import partkey as PK
    from spec import murmur as MM
    from spec import frames as F
    from vlib.run import Inconclusive
    from cassandra.query import PreparedStatement, BoundStatement, UNSET_VALUE
    from cassandra.protocol import ColumnMetadata, ResultMessage
    from cassandra import metadata as MD

    rng = ctx.rng
    G.ORDERED_SETS = True
    ctx.rule = ("case = (protocol version, 1-6 bind columns with generated types (depth<=2), partition-key index list of size 0-3 in any "
                "order, construction mode in {direct, from_message+pk_indexes, from_message+metadata lookup, decoded PREPARED body}, one "
                "state per column in {value, None, UNSET_VALUE, missing}, text/blob values sized at the 8/15/16-bit boundaries (p=0.04; key components <= 65535 bytes), positional/by-name forms incl. truncated, extra values, "
                "extra dict keys, shuffled dict order); distinct by (types, pk, pv, mode, states, canonical values); non-trivial = "
                "has a routing key or a non-value state")
    ctx.assume("null (None) partition-key components are not generated: Cassandra rejects them and the property does not say what the routing key is then")
    ctx.assume("below protocol v4 a positional list shorter than the bind markers is passed through unextended (repository tests fix this "
               "behaviour; the server rejects it): only 'no UNSET appears' and the prefix values are judged, the routing key only when every "
               "partition-key component was bound")
    ctx.assume("below protocol v4 a dict that misses a column name is rejected with KeyError (ValueError also accepted)")
    ctx.assume("the token of an empty routing key is not compared (Cassandra maps the empty key to the minimum token, not to a hash)")
    ctx.count("spec_selfcheck_cases", S.selfcheck() + PK.selfcheck())
    bad = MM.self_check()
    if bad:
        raise Inconclusive("spec/murmur.py self check failed: %r" % (bad[:2],))

    qid_counter = [0]
    SIZED = ('text', 'varchar', 'ascii', 'blob')
    KEY_SIZES = [127, 128, 255, 256, 32766, 32767, 32768, 32769, 40000, 65534, 65535]

    def sized_value(k, n):
        """canonical value of kind k whose serialization is exactly n bytes"""
        if k == 'blob':
            return rng.randbytes(n)
        two = rng.randint(0, min(8, n // 2)) if k != 'ascii' else 0      # a few 2-byte characters
        chars = [chr(rng.randint(32, 126)) for _ in range(16)]
        body = ''.join(rng.choice(chars) for _ in range(256))
        txt = (body * ((n - 2 * two) // 256 + 1))[:n - 2 * two] + '\xe9' * two
        return txt

    def build_metadata(ks, table, names, pk, extra_pk_col=False, unknown=None):
        md = MD.Metadata()
        if unknown == 'keyspace':
            return md
        ksm = MD.KeyspaceMetadata(ks, True, 'SimpleStrategy', {'replication_factor': '1'})
        md.keyspaces[ks] = ksm
        if unknown == 'table':
            return md
        tm = MD.TableMetadata(ks, table)
        pkcols = [MD.ColumnMetadata(tm, names[i], 'blob') for i in pk]
        if extra_pk_col:
            pkcols.insert(rng.randint(0, len(pkcols)), MD.ColumnMetadata(tm, 'not_bound_pk', 'int'))
        tm.partition_key = pkcols
        for c in pkcols:
            tm.columns[c.name] = c
        for n in names:
            if n not in tm.columns:
                tm.columns[n] = MD.ColumnMetadata(tm, n, 'blob')
        ksm.tables[table] = tm
        return md

    def make_prepared(mode, pv, ks, table, names, types, pk):
        """returns (prepared, effective pk list)"""
        qid_counter[0] += 1
        qid = b'q%07d' % qid_counter[0]
        dts = [G.driver_type(t, via_descriptor=rng.random() < 0.25) for t in types]
        cols = [ColumnMetadata(ks, table, n, dt) for n, dt in zip(names, dts)]
        q = "INSERT INTO t (...) VALUES (...)"
        if mode == 'direct':
            rki = list(pk) if pk else rng.choice([None, []])
            return PreparedStatement(cols, qid, rki, q, ks, pv, None, None), list(pk)
        if mode == 'from_message_pk':
            if pk:
                md = build_metadata(ks, table, names, pk) if rng.random() < 0.5 else None
                return PreparedStatement.from_message(qid, cols, list(pk), md, q, ks, pv, None, None), list(pk)
            # the server sends no pk indexes when the statement does not bind the whole partition key
            why = rng.choice(['extra', 'keyspace', 'table'])
            pkm = rng.sample(range(len(names)), rng.randint(1, min(3, len(names))))
            md = build_metadata(ks, table, names, pkm, extra_pk_col=(why == 'extra'), unknown=None if why == 'extra' else why)
            return PreparedStatement.from_message(qid, cols, rng.choice([None, []]), md, q, ks, pv, None, None), []
        if mode == 'from_message_meta':
            if pk:
                md = build_metadata(ks, table, names, pk)
                return PreparedStatement.from_message(qid, cols, rng.choice([None, []]), md, q, ks, pv, None, None), list(pk)
            md = build_metadata(ks, table, names, [0], extra_pk_col=True)
            return PreparedStatement.from_message(qid, cols, None, md, q, ks, pv, None, None), []
        if mode == 'wire':
            bind_cols = [(ks, table, n, t) for n, t in zip(names, types)]
            body = F.body_result_prepared(pv, qid, bind_cols, list(pk), [], result_metadata_id=b'rm' if pv >= 5 else None,
                                          bind_global=rng.random() < 0.7)
            msg = ResultMessage.recv_body(io.BytesIO(body), pv, {}, None, None)
            ctx.count("prepared_bodies_decoded")
            if pk:
                md = build_metadata(ks, table, names, pk)
            else:
                md = build_metadata(ks, table, names, [0], extra_pk_col=True)
            p = PreparedStatement.from_message(msg.query_id, msg.bind_metadata, msg.pk_indexes, md, q, ks, pv,
                                               msg.column_metadata, msg.result_metadata_id)
            return p, list(pk)
        raise AssertionError(mode)

    def expect_positional(P, pv, ncols, eff_pk, exp):
        """P: list of ('val', i) / 'none' / 'unset' (positional items), may be longer than ncols."""
        if len(P) > ncols:
            return ('reject', 'extra-positional-value', (ValueError,))
        if pv < 4:
            if eff_pk and len(P) < len(eff_pk):
                return ('reject', 'too-few-for-routing-key-below-v4', (ValueError,))
            if 'unset' in P:
                return ('reject', 'unset-below-v4', (ValueError,))
            return ('ok', [None if s == 'none' else exp[s[1]] for s in P])
        full = list(P) + ['unset'] * (ncols - len(P))
        for i in eff_pk:
            if full[i] == 'unset':
                return ('reject', 'unset-partition-key-component', (ValueError,))
        return ('ok', [None if s == 'none' else (UNSET_VALUE if s == 'unset' else exp[s[1]]) for s in full])

    def expect_named(states, pv, ncols, eff_pk, exp):
        if pv < 4:
            if 'missing' in states:
                return ('reject', 'missing-name-below-v4', (KeyError, ValueError))
            if 'unset' in states:
                return ('reject', 'unset-below-v4', (ValueError,))
        for i in eff_pk:
            if states[i] in ('unset', 'missing'):
                return ('reject', 'unset-partition-key-component', (ValueError,))
        return ('ok', [None if s == 'none' else (UNSET_VALUE if s in ('unset', 'missing') else exp[i]) for i, s in enumerate(states)])

    def do_bind(prepared, arg):
        try:
            if rng.random() < 0.5:
                b = prepared.bind(arg)
            else:
                b = BoundStatement(prepared).bind(arg)
            return ('ok', b)
        except (ValueError, KeyError) as e:
            return ('reject', e)
        except Exception as e:
            return ('raise', e)

    def same_values(got, want):
        if len(got) != len(want):
            return False
        for g, w in zip(got, want):
            if w is None:
                if g is not None:
                    return False
            elif w is UNSET_VALUE:
                if g is not UNSET_VALUE:
                    return False
            else:
                if g is None or g is UNSET_VALUE or bytes(g) != w:
                    return False
        return True

    def show(vals):
        return [("UNSET" if v is UNSET_VALUE else v) for v in vals]

    def judge(form, res, want, wit):
        """compare one bind outcome with the expectation; returns the bound statement when it is ok and as expected"""
        wit = dict(wit, form=form)
        if want[0] == 'reject':
            if res[0] == 'ok':
                ctx.violation("invalid-bind-accepted:" + want[1], "bind(%s) should be rejected (%s) but was accepted with values %r" % (
                    form, want[1], show(res[1].values)), dict(wit, values=show(res[1].values)))
                return None
            if res[0] == 'raise' or not isinstance(res[1], want[2]):
                ctx.violation("bind-raises-unexpected-exception", "bind(%s) (%s) raised %s: %s" % (form, want[1], type(res[1]).__name__, res[1]),
                              wit)
                return None
            ctx.count("rejected:" + want[1])
            return None
        if res[0] != 'ok':
            ctx.violation("valid-bind-rejected", "bind(%s) of a valid argument raised %s: %s" % (form, type(res[1]).__name__, str(res[1])[:200]), wit)
            return None
        b = res[1]
        if wit["pv"] < 4 and any(v is UNSET_VALUE for v in b.values):
            ctx.violation("unset-bound-below-v4", "UNSET_VALUE in the bound values at protocol v%d" % wit["pv"], dict(wit, values=show(b.values)))
            return None
        if not same_values(b.values, want[1]):
            mech = "bound-values-differ-from-reference"
            if len(b.values) == len(want[1]) and sorted(map(repr, show(b.values))) == sorted(map(repr, show(want[1]))):
                mech = "bound-values-not-in-bind-marker-order"
            ctx.violation(mech, "bind(%s) at v%d gave values %r, expected %r" % (form, wit["pv"], show(b.values), show(want[1])),
                          dict(wit, values=show(b.values), expected=show(want[1])))
            return None
        ctx.count("bound_values_compared", len(want[1]))
        return b

    def check_routing(b, prepared, eff_pk, exp_vals, wit):
        """exp_vals: expected bound values (list, maybe a short prefix below v4)"""
        if not eff_pk:
            rk = b.routing_key
            if rk is not None:
                ctx.violation("routing-key-without-partition-key", "statement without partition-key indexes has routing key %r" % (rk,), wit)
            else:
                ctx.count("routing_key_absent_as_expected")
            return
        if any(i >= len(exp_vals) for i in eff_pk):
            ctx.count("short_list_below_v4_misses_pk_component(not judged)")
            return
        parts = [exp_vals[i] for i in eff_pk]
        want = PK.partition_key(parts)
        try:
            got = b.routing_key
        except Exception as e:
            ctx.violation("routing-key-raises", "routing_key raised %s: %s" % (type(e).__name__, e), wit)
            return
        if not isinstance(got, (bytes, bytearray)) or bytes(got) != want:
            ctx.violation(_classify_key(PK, got, parts), "routing key %r, Cassandra's partition key is %r (components %r in key order %r)" % (
                got, want, parts, eff_pk), dict(wit, routing_key=got, expected=want))
            return
        ctx.count("routing_keys_equal")
        ctx.count("routing_keys_composite" if len(eff_pk) > 1 else "routing_keys_single")
        if len(eff_pk) > 1:
            big = max(len(p) for p in parts)
            if big >= 32768:
                ctx.count("routing_keys_composite_with_component_of_32768_to_65535_bytes")
            elif big >= 256:
                ctx.count("routing_keys_composite_with_component_of_256_to_32767_bytes")
        if len(eff_pk) > 1 and eff_pk != sorted(eff_pk):
            ctx.count("routing_keys_composite_non_ascending_pk_order")
        if want and (len(want) <= 4096 or rng.random() < 0.2):      # the pure-Python hash of a 64 KiB key costs ~0.1 s; bytes are already equal
            tok = MD.Murmur3Token.from_key(got).value
            wtok = MM.token(want)
            if tok != wtok:
                ctx.violation("routing-key-token-differs", "Murmur3 token of the routing key is %d, Cassandra's token of the partition key is %d" % (
                    tok, wtok), dict(wit, routing_key=got))
            else:
                ctx.count("tokens_equal")
        return got

    n = ctx.scale(36000, 700000)
    budget = 40 if ctx.quick else 300
    modes = ['direct', 'from_message_pk', 'from_message_meta', 'wire']
    for it in range(n):
        if it % 128 == 0 and ctx.time_left(budget) < 0:
            ctx.note("stopped by time budget after %d cases" % it)
            break
        pv = rng.choice([1, 2, 3, 4, 4, 5, 5])
        ncols = rng.randint(1, 6)
        names = rng.sample(NAMES, ncols)
        types = []
        for _ in range(ncols):
            for _try in range(20):
                t = G.gen_type(rng, rng.choice([0, 0, 0, 1, 1, 2]), pv)
                if not S.contains_uncertain_vector(t):
                    break
            else:
                t = ('int',)
            types.append(t)
        k = min(ncols, rng.choice([0, 1, 1, 1, 2, 2, 2, 3, 3]))
        pk = rng.sample(range(ncols), k)
        mode = rng.choice(modes)
        ks, table = rng.choice(['ks1', 'Ks', 'k2']), rng.choice(['t', 'Tbl', 'events'])
        # canonical values and their reference encodings
        canon, exp = [], []
        undefined = False
        for ci, t in enumerate(types):
            for _try in range(10):
                if t[0] in SIZED and rng.random() < 0.04:
                    # serialized sizes around the 8/15/16-bit boundaries; a partition-key component is at most 65535 bytes in Cassandra
                    v = sized_value(t[0], rng.choice(KEY_SIZES if ci in pk else KEY_SIZES + [65536, 70000]))
                else:
                    v = G.gen_value(rng, t, pv)
                try:
                    e = S.enc(t, v, pv)
                except S.Undefined:
                    continue
                except S.SpecError:
                    continue
                break
            else:
                undefined = True
                break
            canon.append(v)
            exp.append(e)
        if undefined:
            ctx.count("skipped_undefined")
            continue
        try:
            prepared, eff_pk = make_prepared(mode, pv, ks, table, names, types, pk)
        except Exception as e:
            ctx.violation("prepared-statement-construction-raises", "building the PreparedStatement (%s) raised %s: %s" % (
                mode, type(e).__name__, e), {"mode": mode, "pv": pv, "types": [S.cql_name(t) for t in types], "pk": pk})
            continue
        wit0 = {"pv": pv, "mode": mode, "columns": [(nm, S.cql_name(t)) for nm, t in zip(names, types)], "pk_indexes": pk}
        rki = prepared.routing_key_indexes
        if (list(rki) if rki else []) != eff_pk:
            ctx.violation("routing-key-indexes-wrong", "routing_key_indexes %r, the partition key order over the bind markers is %r" % (rki, eff_pk), wit0)
            continue
        ctx.count("mode:" + mode)
        # states
        states = []
        for i in range(ncols):
            r = rng.random()
            if i in eff_pk:
                states.append('val' if r < 0.93 else rng.choice(['unset', 'missing']))
            else:
                states.append('val' if r < 0.55 else ('none' if r < 0.7 else ('unset' if r < 0.85 else 'missing')))
        if rng.random() < 0.35:
            states = ['val' if s in ('unset', 'missing') else s for s in states]
        dvals = [G.to_driver(rng, t, v) for t, v in zip(types, canon)]
        ckey = repr((pv, mode, [S.cql_name(t) for t in types], pk, states, [G.canon_key(t, v) for t, v in zip(types, canon)]))
        ctx.case(ckey, nontrivial=bool(eff_pk) or any(s != 'val' for s in states))
        wit0["states"] = states
        wit0["values"] = [repr(v)[:120] for v in canon]

        def item(i):
            s = states[i]
            return dvals[i] if s == 'val' else (None if s == 'none' else UNSET_VALUE)

        # ---- by name
        d_items = [(names[i], item(i)) for i in range(ncols) if states[i] != 'missing']
        if rng.random() < 0.3:
            d_items.append(('no_such_column', 123))
            ctx.count("dict_with_extra_key")
        rng.shuffle(d_items)
        want_n = expect_named(states, pv, ncols, eff_pk, exp)
        res_n = do_bind(prepared, dict(d_items))
        b_named = judge("dict", res_n, want_n, wit0)
        # ---- positional: missing -> explicit UNSET, trailing missing optionally truncated
        P, pos = [], []
        last = ncols
        if rng.random() < 0.6:
            while last > 0 and states[last - 1] == 'missing':
                last -= 1
        elif rng.random() < 0.3:
            last = rng.randint(0, ncols)          # plain truncation of bound values
        for i in range(last):
            s = states[i]
            P.append(('val', i) if s == 'val' else ('none' if s == 'none' else 'unset'))
            pos.append(item(i))
        derived = True
        if last == ncols and rng.random() < 0.12:
            derived = False
            extra = rng.randint(1, 2)
            P += ['none'] * extra
            pos += [rng.choice([None, 1, 'x', UNSET_VALUE]) for _ in range(extra)]
        want_p = expect_positional(P, pv, ncols, eff_pk, exp)
        res_p = do_bind(prepared, rng.choice([list, tuple])(pos))
        b_pos = judge("sequence", res_p, want_p, wit0)
        if b_pos is not None and len(P) < ncols:
            ctx.count("short_sequence_bound")
        # ---- positional vs by-name on the same assignment
        equivalent = derived and ((len(P) == ncols) or (pv >= 4 and all(s == 'missing' for s in states[len(P):])))
        if equivalent:
            if (res_n[0] == 'ok') != (res_p[0] == 'ok'):
                if True:
                    ctx.violation("positional-and-named-binding-differ", "same assignment: by name %s, positionally %s" % (res_n[0], res_p[0]), wit0)
            elif res_n[0] == 'ok':
                if not same_values(res_n[1].values, [v for v in res_p[1].values]):
                    ctx.violation("positional-and-named-binding-differ", "same assignment bound by name gives %r, positionally %r" % (
                        show(res_n[1].values), show(res_p[1].values)), wit0)
                else:
                    ctx.count("positional_equals_named")
        # ---- routing keys
        got_key = None
        if b_named is not None:
            got_key = check_routing(b_named, prepared, eff_pk, want_n[1], wit0)
        if b_pos is not None:
            k2 = check_routing(b_pos, prepared, eff_pk, want_p[1], wit0)
            got_key = got_key or k2
        # ---- re-binding the same BoundStatement: the routing key must follow the new values
        if b_named is not None and eff_pk and got_key is not None and rng.random() < 0.25:
            i = rng.choice(eff_pk)
            for _try in range(10):
                v2 = G.gen_value(rng, types[i], pv)
                try:
                    e2 = S.enc(types[i], v2, pv)
                except (S.Undefined, S.SpecError):
                    continue
                if e2 != exp[i]:
                    break
            else:
                continue
            d2 = dict((names[j], item(j)) for j in range(ncols) if states[j] != 'missing')
            d2[names[i]] = G.to_driver(rng, types[i], v2)
            exp2 = list(want_n[1])
            exp2[i] = e2
            try:
                b_named.bind(d2)
            except Exception as e:
                ctx.violation("rebind-raises", "re-binding a BoundStatement raised %s: %s" % (type(e).__name__, e), wit0)
                continue
            ctx.count("rebinds")
            if not same_values(b_named.values, exp2):
                ctx.violation("bound-values-differ-from-reference", "re-bind gave %r, expected %r" % (show(b_named.values), show(exp2)), wit0)
                continue
            want2 = PK.partition_key([exp2[j] for j in eff_pk])
            rk2 = b_named.routing_key
            if rk2 != want2:
                if rk2 == got_key:
                    ctx.violation("routing-key-stale-after-rebind", "BoundStatement re-bound to a new partition key still reports the routing key of "
                                  "the first binding: %r, partition key now %r" % (rk2, want2), dict(wit0, rebound_component=names[i],
                                                                                                    new_value=repr(v2)[:100], routing_key=rk2,
                                                                                                    expected=want2))
                else:
                    ctx.violation("routing-key-components-differ", "after re-bind routing key %r, expected %r" % (rk2, want2), wit0)
            else:
                ctx.count("rebind_routing_keys_equal")
        if eff_pk and got_key is not None and len(ctx.samples) < 6 and len(eff_pk) > 1 and rng.random() < 0.02:
            ctx.sample({"pv": pv, "mode": mode, "columns": wit0["columns"], "pk_indexes": eff_pk, "values": wit0["values"],
                        "routing_key": got_key, "token": MM.token(got_key) if got_key else None})

    ctx.floor_distinct = 4000 if ctx.quick else 100000
    ctx.floor_counters = {"bound_values_compared": 10000, "routing_keys_composite": 1000, "routing_keys_single": 500,
                          "routing_keys_composite_non_ascending_pk_order": 300, "tokens_equal": 1500,
                          "positional_equals_named": 1500, "rejected:unset-partition-key-component": 50,
                          "rejected:extra-positional-value": 100, "rejected:unset-below-v4": 100, "rejected:missing-name-below-v4": 100,
                          "prepared_bodies_decoded": 500, "routing_key_absent_as_expected": 300, "rebinds": 100,
                          "routing_keys_composite_with_component_of_32768_to_65535_bytes": 20,
                          "routing_keys_composite_with_component_of_256_to_32767_bytes": 10}
