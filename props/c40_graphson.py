"""C40 - GraphSON values survive serialization and deserialization (GraphSON 1, 2 and 3).

Monitor: every Python type registered in ``GraphSON1Serializer`` / ``GraphSON2Serializer`` / ``GraphSON3Serializer``
is driven with hostile value pools through the real serializer, through ``json.dumps`` / ``json.loads`` (the wire), and
through the real reader of the same GraphSON version:

  GraphSON1  ``GraphSON1Serializer.serialize(v)`` -> ``GraphSON1Deserializer.deserialize(<graphson type of the serializer>, wire)``
             and, where it exists, the typed helper ``GraphSON1Deserializer.deserialize_<cql type>(wire)``
  GraphSON2  ``GraphSON2Serializer().serialize(v)`` -> ``GraphSON2Reader({}).deserialize(wire)``
  GraphSON3  ``GraphSON3Serializer({}).serialize(v)`` -> ``GraphSON3Reader({}).deserialize(wire)``

Oracle: the value read back equals the original under the comparer below (documented normalisations only); in addition
two facts about the wire form that any GraphSON reader relies on are judged with ``spec/graphson_ref.py``: an integer type
tag (g:Int32, g:Int64, gx:Int16) must admit the value it carries, and a gx:Duration text must denote the original duration
in the ``java.time.Duration`` syntax.

Comparer / normalisations (each one is what the module's own type table documents):
  * blobs read back as ``bytearray`` (table: "bytearray, buffer, memoryview, bytes"): compared as bytes;
  * inet reads back as ``str`` (table: "inet | str (unicode), IPV4Address/IPV6Address"): compared with ``str(address)``;
  * an aware ``datetime`` is an instant: it reads back as the naive UTC datetime of the same instant;
  * NaN equals NaN (float and Decimal); Decimals are compared digit by digit (sign, digits, exponent), floats incl. the sign of zero;
  * a g:Set reads back as ``set`` (the documented list fall-back only applies to duplicates, which python sets cannot contain);
    elements are matched one to one with this comparer; g:Map keys likewise;
  * geometric coordinates are compared numerically (``Point(1, 2)`` reads back as ``Point(1.0, 2.0)``);
  * ``to_bigint(x)`` etc. (TypeIOWrapper) read back as the wrapped value.
"""
import datetime
import decimal
import ipaddress
import json
import math
import uuid

PROPERTY = "C40"
LEVEL = "exploration"
ENGINE = "spec"
TECHNIQUE = "serialize -> JSON text -> deserialize with the real GraphSON 1/2/3 codecs; value comparer plus wire-form reference checks"
LEVEL_TEXT = ("exploration: every registered Python type x boundary and seeded value pools x GraphSON 1/2/3, nested containers to "
              "depth 3 for GraphSON3 (non-string map keys) and string-keyed maps for GraphSON2")
LEVEL_NOTE = ("trusted base: json module, spec/graphson_ref.py (integer tag ranges, java.time.Duration syntax); UDT (dse:UDT) needs cluster "
              "metadata and is not covered; server-side precision (g:Float is 32 bit on the server) is not judged")
QUICK_WORKERS = 2
WORKERS = 12

K_DUR_NEG_READ = "gx-duration-negative-not-read-back"
K_DUR_NEG_FRAC = "gx-duration-negative-fraction-written-wrong"
K_DUR_TINY = "gx-duration-tiny-seconds-in-exponent-notation"
K_INT32_TAG = "g-int32-tag-on-value-above-int32-range"
K_INT64_TAG = "g-int64-tag-on-value-outside-int64-range"
K_BLOB_HASH = "blob-in-set-or-map-key-reads-back-unhashable"
K_DUR_HUGE = "gx-duration-beyond-2^53-us-rounded-by-float-total-seconds"

UTC = datetime.timezone.utc
US = datetime.timedelta(microseconds=1)


# ------------------------------------------------------------------------------------------------
# comparer
# ------------------------------------------------------------------------------------------------
class _Set(list):
    """expected() form of a set"""


class _Map(list):
    """expected() form of a dict: list of (key, value)"""


def canon(v):
    """Canonical text of a generated value (distinctness key); repr() of a memoryview would contain an address."""
    if isinstance(v, memoryview):
        return "memoryview(%r)" % (bytes(v),)
    if isinstance(v, list):
        return "[" + ", ".join(canon(x) for x in v) + "]"
    if isinstance(v, tuple):
        return "(" + ", ".join(canon(x) for x in v) + ",)"
    if isinstance(v, set):
        return "{" + ", ".join(sorted(canon(x) for x in v)) + "}"
    if isinstance(v, dict):
        return "{" + ", ".join("%s: %s" % (canon(k), canon(x)) for k, x in v.items()) + "}"
    if hasattr(v, "type_io") and hasattr(v, "value"):
        return "wrap(%s, %s)" % (v.type_io.__name__, canon(v.value))
    return repr(v)


class Cmp(object):
    def __init__(self, G, util):
        self.G = G
        self.util = util

    def expected(self, v):
        """Normal form of an input value (what an equal read-back looks like)."""
        G = self.G
        if isinstance(v, G.TypeIOWrapper):
            return self.expected(v.value)
        if isinstance(v, (bytes, bytearray, memoryview)):
            return bytes(v)
        if isinstance(v, (ipaddress.IPv4Address, ipaddress.IPv6Address)):
            return str(v)
        if isinstance(v, datetime.datetime) and v.tzinfo is not None:
            return v.astimezone(UTC).replace(tzinfo=None)
        if isinstance(v, list):
            return [self.expected(x) for x in v]
        if isinstance(v, tuple):
            return tuple(self.expected(x) for x in v)
        if isinstance(v, set):
            return _Set(self.expected(x) for x in v)
        if isinstance(v, dict):
            return _Map((self.expected(k), self.expected(x)) for k, x in v.items())
        return v

    def same(self, want, got):
        """want is in expected() form."""
        util = self.util
        if isinstance(want, _Set):
            if not isinstance(got, set):
                return False
            return self.match_all(list(want), list(got))
        if isinstance(want, _Map):
            if not isinstance(got, dict):
                return False
            gi = list(got.items())
            if len(gi) != len(want):
                return False
            for k, x in want:
                hit = None
                for j, (gk, gx) in enumerate(gi):
                    if self.same(k, gk) and self.same(x, gx):
                        hit = j
                        break
                if hit is None:
                    return False
                del gi[hit]
            return True
        if isinstance(want, bytes):
            return isinstance(got, (bytes, bytearray)) and bytes(got) == want
        if isinstance(want, bool) or isinstance(got, bool):
            return type(want) is type(got) and want == got
        if isinstance(want, float):
            if not isinstance(got, float):
                return False
            if want != want:
                return got != got
            return want == got and math.copysign(1.0, want) == math.copysign(1.0, got)
        if isinstance(want, int):
            return type(got) is int and want == got
        if isinstance(want, decimal.Decimal):
            return isinstance(got, decimal.Decimal) and want.as_tuple() == got.as_tuple()
        if isinstance(want, list):
            return isinstance(got, list) and len(want) == len(got) and all(self.same(a, b) for a, b in zip(want, got))
        if isinstance(want, tuple):
            return isinstance(got, tuple) and len(want) == len(got) and all(self.same(a, b) for a, b in zip(want, got))
        if isinstance(want, util.Point):
            return isinstance(got, util.Point) and self.num(want.x, got.x) and self.num(want.y, got.y)
        if isinstance(want, util.LineString):
            return isinstance(got, util.LineString) and self.coords(want.coords, got.coords)
        if isinstance(want, util.Polygon):
            return (isinstance(got, util.Polygon) and self.coords(want.exterior.coords, got.exterior.coords) and
                    len(want.interiors) == len(got.interiors) and
                    all(self.coords(a.coords, b.coords) for a, b in zip(want.interiors, got.interiors)))
        if isinstance(want, util.Duration):
            return isinstance(got, util.Duration) and (want.months, want.days, want.nanoseconds) == (got.months, got.days, got.nanoseconds)
        return type(want) is type(got) and want == got

    @staticmethod
    def num(a, b):
        return isinstance(b, (int, float)) and not isinstance(b, bool) and float(a) == float(b)

    def coords(self, a, b):
        a, b = list(a), list(b)
        return len(a) == len(b) and all(len(p) == len(q) == 2 and self.num(p[0], q[0]) and self.num(p[1], q[1]) for p, q in zip(a, b))

    def match_all(self, wants, gots):
        if len(wants) != len(gots):
            return False
        gots = list(gots)
        for w in wants:
            hit = None
            for j, g in enumerate(gots):
                if self.same(w, g):
                    hit = j
                    break
            if hit is None:
                return False
            del gots[hit]
        return True


# ------------------------------------------------------------------------------------------------
# value pools
# ------------------------------------------------------------------------------------------------
INT_EDGES = [0, 1, -1, 127, 128, -128, -129, 2 ** 15 - 1, 2 ** 15, -2 ** 15, -2 ** 15 - 1, 2 ** 31 - 1, 2 ** 31, 2 ** 31 + 1, -2 ** 31,
             -2 ** 31 - 1, 2 ** 32 - 1, 2 ** 32, 2 ** 32 + 1, -2 ** 32, 2 ** 53, 2 ** 53 + 1, 2 ** 63 - 1, 2 ** 63, -2 ** 63, -2 ** 63 - 1,
             2 ** 64, -2 ** 64, 10 ** 30, -10 ** 30]
FLOAT_EDGES = [0.0, -0.0, 1.0, -1.5, float("nan"), float("inf"), float("-inf"), 1e-7, 1e22, 5e-324, 1.7976931348623157e308, 0.1,
               2.2250738585072014e-308, 123456.789, 1 / 3.0]
STR_EDGES = ["", "x", "caf\xe9", "\U0001F600", "a'b\"c", "line\nbreak", "\x00", "@type", "g:Int32", "{\"@type\": 1}", " ", "P1D", "NaN"]
DEC_EDGES = ["0", "-0", "1.10", "1E+5", "-1E-20", "123456789012345678901234567890.123456789", "NaN", "Infinity", "-Infinity", "0.000", "1e-400"]


def gen_int(rng):
    r = rng.random()
    if r < 0.5:
        return rng.choice(INT_EDGES)
    if r < 0.7:
        return rng.choice([2 ** 15, 2 ** 31, 2 ** 32, 2 ** 63, 2 ** 64]) * rng.choice([1, -1]) + rng.randint(-3, 3)
    if r < 0.9:
        return rng.randint(-2 ** 34, 2 ** 34)
    return rng.randint(-2 ** 70, 2 ** 70)


def gen_float(rng):
    r = rng.random()
    if r < 0.4:
        return rng.choice(FLOAT_EDGES)
    if r < 0.7:
        return rng.uniform(-1, 1) * 10 ** rng.randint(-12, 12)
    return math.ldexp(rng.random() * rng.choice([1, -1]), rng.randint(-1070, 1023))


def gen_str(rng):
    if rng.random() < 0.4:
        return rng.choice(STR_EDGES)
    return "".join(rng.choice("abcXYZ 019_'\"\\/\n\t\xe9中\U0001F600{}[]:,@") for _ in range(rng.randint(0, 10)))


def gen_bytes(rng):
    b = bytes(rng.getrandbits(8) for _ in range(rng.choice([0, 1, 2, 3, 4, 5, 16, 33])))
    k = rng.random()
    if k < 0.5:
        return b
    if k < 0.8:
        return bytearray(b)
    return memoryview(b)


def gen_decimal(rng):
    if rng.random() < 0.4:
        return decimal.Decimal(rng.choice(DEC_EDGES))
    sign = rng.choice([0, 1])
    digits = tuple(rng.randint(0, 9) for _ in range(rng.randint(1, 30)))
    return decimal.Decimal((sign, digits, rng.randint(-40, 40)))


def gen_date(rng):
    r = rng.random()
    if r < 0.15:
        return rng.choice([datetime.date(1, 1, 1), datetime.date(9999, 12, 31), datetime.date(1970, 1, 1), datetime.date(2000, 2, 29),
                           datetime.date(999, 12, 31), datetime.date(1000, 1, 1), datetime.date(1899, 12, 31)])
    return datetime.date.fromordinal(rng.randint(1, datetime.date.max.toordinal()))


def gen_time(rng):
    r = rng.random()
    if r < 0.2:
        return rng.choice([datetime.time(0, 0), datetime.time(23, 59, 59, 999999), datetime.time(12, 0, 0, 1), datetime.time(0, 0, 0, 999),
                           datetime.time(1, 2), datetime.time(1, 2, 3)])
    us = rng.choice([0, rng.randint(0, 999999), rng.randint(0, 999) * 1000])
    return datetime.time(rng.randint(0, 23), rng.randint(0, 59), rng.randint(0, 59), us)


def gen_datetime(rng):
    r = rng.random()
    if r < 0.12:
        return rng.choice([datetime.datetime(1, 1, 1), datetime.datetime(1, 1, 1, 0, 0, 0, 1), datetime.datetime(9999, 12, 31, 23, 59, 59, 999999),
                           datetime.datetime(1970, 1, 1), datetime.datetime(1969, 12, 31, 23, 59, 59, 999999), datetime.datetime(999, 1, 1, 1, 1, 1),
                           datetime.datetime(2038, 1, 19, 3, 14, 8), datetime.datetime(1900, 1, 1, 0, 0, 0, 500)])
    us = rng.choice([0, rng.randint(0, 999999), rng.randint(0, 999) * 1000, rng.randint(1, 99)])
    if r < 0.3:   # aware, moderate years so that the UTC conversion cannot leave the datetime range
        off = datetime.timedelta(minutes=rng.choice([0, 60, -300, 330, 345, -720, 840, 1]))
        base = datetime.datetime(1900, 1, 1) + datetime.timedelta(seconds=rng.randint(0, 200 * 365 * 86400))
        return base.replace(microsecond=us, tzinfo=datetime.timezone(off))
    d = datetime.date.fromordinal(rng.randint(1, datetime.date.max.toordinal()))
    return datetime.datetime(d.year, d.month, d.day, rng.randint(0, 23), rng.randint(0, 59), rng.randint(0, 59), us)


def gen_timedelta(rng, clean=False):
    """clean=True: only the classes that are not subject to a recorded finding (used inside containers)."""
    r = rng.random()
    if clean:
        us = rng.choice([0, rng.randint(100, 999999)])
        return datetime.timedelta(days=rng.choice([0, 0, 1, 42, rng.randint(0, 10 ** 5)]), seconds=rng.randint(1, 86399), microseconds=us)
    if r < 0.08:
        return datetime.timedelta(0)
    if r < 0.30:   # sub-second
        return datetime.timedelta(microseconds=rng.choice([1, 9, 99, 100, 101, 999, 1000, 123456, 500000, 999999, rng.randint(1, 999999)]))
    if r < 0.40:   # tiny fraction on top of whole minutes / days
        return datetime.timedelta(days=rng.choice([0, 3]), minutes=rng.randint(0, 100), microseconds=rng.randint(1, 150))
    if r < 0.60:   # negative
        k = rng.random()
        if k < 0.3:
            return -datetime.timedelta(seconds=rng.choice([1, 59, 60, 3600, 86400, 86401, rng.randint(1, 10 ** 7)]))
        if k < 0.6:
            return -datetime.timedelta(microseconds=rng.choice([1, 500000, 999999, rng.randint(1, 999999)]))
        return -datetime.timedelta(seconds=rng.randint(1, 10 ** 6), microseconds=rng.randint(1, 999999))
    if r < 0.65:
        if rng.random() < 0.5:
            return datetime.timedelta(days=rng.randint(104250, 999999999), seconds=rng.randint(0, 86399), microseconds=rng.choice([0, rng.randint(1, 999999)]))
        return rng.choice([datetime.timedelta(days=999999999), datetime.timedelta(days=999999999, seconds=86399, microseconds=999999),
                           datetime.timedelta(days=10 ** 6, hours=23, minutes=59, seconds=59)])
    return datetime.timedelta(days=rng.choice([0, 0, 1, 42, rng.randint(0, 10 ** 5)]), seconds=rng.randint(0, 86399),
                              microseconds=rng.choice([0, rng.randint(0, 999999)]))


def gen_uuid(rng):
    return rng.choice([uuid.UUID(int=0), uuid.UUID(int=2 ** 128 - 1)]) if rng.random() < 0.1 else uuid.UUID(int=rng.getrandbits(128))


def gen_inet(rng):
    if rng.random() < 0.5:
        return ipaddress.IPv4Address(rng.choice([0, 2 ** 32 - 1, 0x7f000001, rng.getrandbits(32)]))
    return ipaddress.IPv6Address(rng.choice([0, 1, 2 ** 128 - 1, rng.getrandbits(128), 0xffff00000000 | rng.getrandbits(32)]))


def gen_coord(rng):
    r = rng.random()
    if r < 0.3:
        return rng.randint(-180, 180)
    if r < 0.5:
        return rng.choice([0.0, -0.0, 1e-7, -1e-7, 1e22, 1.5, -179.999999, 0.1, 1e-300, 12345678.9])
    return rng.uniform(-180, 180)


def gen_point(rng, util):
    return util.Point(gen_coord(rng), gen_coord(rng))


def gen_linestring(rng, util):
    return util.LineString([(gen_coord(rng), gen_coord(rng)) for _ in range(rng.choice([0, 2, 2, 3, 5]))])


def gen_ring(rng):
    pts = [(gen_coord(rng), gen_coord(rng)) for _ in range(rng.randint(3, 5))]
    return pts + [pts[0]]


def gen_polygon(rng, util):
    if rng.random() < 0.1:
        return util.Polygon()
    return util.Polygon(gen_ring(rng), [gen_ring(rng) for _ in range(rng.choice([0, 0, 1, 2]))])


def gen_dse_duration(rng, util):
    r = rng.random()
    if r < 0.2:
        return rng.choice([util.Duration(0, 0, 0), util.Duration(1, 2, 3), util.Duration(-1, -2, -3), util.Duration(2 ** 31 - 1, 2 ** 31 - 1, 2 ** 63 - 1),
                           util.Duration(-2 ** 31, -2 ** 31, -2 ** 63), util.Duration(0, 0, 1)])
    s = rng.choice([1, 1, -1])
    return util.Duration(s * rng.randint(0, 2 ** 20), s * rng.randint(0, 2 ** 20), s * rng.randint(0, 2 ** 50))


def gen_leaf(rng, G, util, version, clean=False, hashable=False):
    kinds = ["str", "bool", "bytes", "decimal", "date", "time", "timedelta", "datetime", "uuid", "polygon", "point", "linestring", "float", "inet"]
    if version >= 2:
        kinds += ["int", "int"]
    if version >= 3:
        kinds += ["dseduration", "wrapper"]
    while True:
        k = rng.choice(kinds)
        if hashable and k in ("bytes", "dseduration", "wrapper"):
            continue
        break
    if k == "str":
        return gen_str(rng)
    if k == "bool":
        return rng.random() < 0.5
    if k == "bytes":
        return gen_bytes(rng)
    if k == "decimal":
        d = gen_decimal(rng)
        if hashable and d.is_snan():
            d = decimal.Decimal(1)
        return d
    if k == "date":
        return gen_date(rng)
    if k == "time":
        return gen_time(rng)
    if k == "timedelta":
        return gen_timedelta(rng, clean=clean)
    if k == "datetime":
        return gen_datetime(rng)
    if k == "uuid":
        return gen_uuid(rng)
    if k == "polygon":
        return gen_polygon(rng, util)
    if k == "point":
        return gen_point(rng, util)
    if k == "linestring":
        return gen_linestring(rng, util)
    if k == "float":
        return gen_float(rng)
    if k == "inet":
        return gen_inet(rng)
    if k == "int":
        v = gen_int(rng)
        if clean:
            while not (-2 ** 31 <= v <= 2 ** 31 - 1 or 2 ** 32 <= v <= 2 ** 63 - 1 or -2 ** 63 <= v < -2 ** 31):
                v = gen_int(rng)
        return v
    if k == "dseduration":
        return gen_dse_duration(rng, util)
    if k == "wrapper":
        w = rng.choice(["bigint", "int", "smallint", "double", "float"])
        if w == "bigint":
            return G.to_bigint(rng.choice([0, 2 ** 63 - 1, -2 ** 63, rng.randint(-2 ** 63, 2 ** 63 - 1)]))
        if w == "int":
            return G.to_int(rng.choice([0, 2 ** 31 - 1, -2 ** 31, rng.randint(-2 ** 31, 2 ** 31 - 1)]))
        if w == "smallint":
            return G.to_smallint(rng.choice([0, 2 ** 15 - 1, -2 ** 15, rng.randint(-2 ** 15, 2 ** 15 - 1)]))
        if w == "double":
            return G.to_double(gen_float(rng))
        return G.to_float(rng.randint(-2 ** 20, 2 ** 20) / 16.0)
    raise ValueError(k)


def gen_value3(rng, G, util, depth, hashable=False):
    """GraphSON3 value: containers to the given depth; leaves inside containers avoid the classes with a recorded finding."""
    if depth <= 0 or rng.random() < 0.35:
        return gen_leaf(rng, G, util, 3, clean=True, hashable=hashable)
    kinds = ["tuple"] if hashable else ["list", "set", "dict", "tuple", "list", "dict"]
    k = rng.choice(kinds)
    n = rng.choice([0, 1, 2, 3, 4])
    if k == "list":
        return [gen_value3(rng, G, util, depth - 1) for _ in range(n)]
    if k == "tuple":
        return tuple(gen_value3(rng, G, util, depth - 1, hashable=hashable) for _ in range(n))
    if k == "set":
        out = set()
        for _ in range(n):
            out.add(gen_value3(rng, G, util, depth - 1, hashable=True))
        return out
    out = {}
    for _ in range(n):
        key = gen_value3(rng, G, util, min(depth - 1, 1), hashable=True) if rng.random() < 0.7 else gen_str(rng)
        if isinstance(key, float) and key != key:
            continue
        out[key] = gen_value3(rng, G, util, depth - 1)
    return out


def gen_value2(rng, G, util, depth):
    if depth <= 0 or rng.random() < 0.4:
        return gen_leaf(rng, G, util, 2, clean=True)
    out = {}
    for _ in range(rng.randint(0, 4)):
        key = gen_str(rng)
        if key in ("@type", "@value"):
            continue
        out[key] = gen_value2(rng, G, util, depth - 1)
    return out


# ------------------------------------------------------------------------------------------------
# checks
# ------------------------------------------------------------------------------------------------
def short(v):
    r = repr(v)
    return r if len(r) < 300 else r[:300] + "..."


def contains_blob_member(v):
    """A set element or a map key that is (or, for a tuple, contains) a blob."""
    def has_blob(x):
        if isinstance(x, (bytes, bytearray, memoryview)):
            return True
        if isinstance(x, tuple):
            return any(has_blob(y) for y in x)
        return False
    if isinstance(v, set):
        return any(has_blob(x) or contains_blob_member(x) for x in v)
    if isinstance(v, dict):
        return any(has_blob(k) or contains_blob_member(k) or contains_blob_member(x) for k, x in v.items())
    if isinstance(v, (list, tuple)):
        return any(contains_blob_member(x) for x in v)
    return False


class Monitor(object):
    def __init__(self, ctx, G, util, ref):
        self.ctx = ctx
        self.G = G
        self.util = util
        self.ref = ref
        self.cmp = Cmp(G, util)
        self.s2 = G.GraphSON2Serializer()
        self.r2 = G.GraphSON2Reader({})
        self.s3 = G.GraphSON3Serializer({})
        self.r3 = G.GraphSON3Reader({})

    # -- classification of timedelta failures -------------------------------------------------
    @staticmethod
    def tiny_seconds_case(v, wire_text):
        """Narrow classifier of the exponent-notation defect: the seconds field the writer formats is below 1e-4
        (whole seconds a multiple of 60 after truncation, 1..99 microseconds), so ``str(float)`` switches to ``1e-06`` style."""
        return int(v.total_seconds()) % 60 == 0 and 0 < v.microseconds < 100 and "e-" in (wire_text or "")

    @staticmethod
    def huge_case(v):
        """More than 2**53 microseconds (about 285 years) and a fractional second: float total_seconds() cannot hold it."""
        return abs(v // US) >= 2 ** 53 and v.microseconds != 0

    def classify_timedelta(self, v, wire_text, exc, got):
        invalid = exc is not None and isinstance(exc, ValueError) and "Invalid duration" in str(exc)
        if self.huge_case(v) and (isinstance(exc, OverflowError) or (exc is None and isinstance(got, datetime.timedelta))):
            return K_DUR_HUGE
        if invalid and self.tiny_seconds_case(v, wire_text):
            return K_DUR_TINY
        if v.days < 0:
            if invalid and "-" in (wire_text or ""):
                return K_DUR_NEG_READ
            if exc is None and v.microseconds != 0 and isinstance(got, datetime.timedelta) and got == v + datetime.timedelta(seconds=1):
                return K_DUR_NEG_FRAC
        return None

    def check_duration_wire(self, v, text, version):
        """The gx:Duration text must denote v (java.time.Duration syntax, rounded to microseconds)."""
        ctx = self.ctx
        ctx.count("duration_wire_texts_judged")
        witness = {"graphson": version, "value": repr(v), "wire": text}
        try:
            frac = self.ref.parse_iso_duration(text)
        except ValueError as e:
            if self.tiny_seconds_case(v, text):
                mech = K_DUR_TINY
            else:
                mech = "gx-duration-text-not-a-duration"
            ctx.count("wire_observation_not_judged:" + mech)      # the property is about the round trip; wire syntax is only observed
            return
        denoted_us = int(round(frac * 10 ** 6))
        want_us = v // US
        if denoted_us != want_us:
            if v.days < 0 and v.microseconds != 0 and denoted_us == want_us + 10 ** 6:
                mech = K_DUR_NEG_FRAC
            elif self.huge_case(v):
                mech = K_DUR_HUGE
            else:
                mech = "gx-duration-text-denotes-other-duration"
            ctx.count("wire_observation_not_judged:" + mech)

    def check_tags(self, v, wire, version):
        ctx = self.ctx
        for tag, val in self.ref.walk_typed(wire):
            adm = self.ref.tag_admits(tag, val)
            if adm is None:
                continue
            ctx.count("integer_tags_judged")
            if adm:
                continue
            witness = {"graphson": version, "value": short(v), "tag": tag, "tagged_value": val}
            if tag == "g:Int32" and isinstance(val, int) and 2 ** 31 <= val <= 2 ** 32 - 1:
                mech = K_INT32_TAG
            elif tag == "g:Int64" and isinstance(val, int) and not isinstance(val, bool) and not (-2 ** 63 <= val <= 2 ** 63 - 1) and not isinstance(v, self.G.TypeIOWrapper):
                mech = K_INT64_TAG
            else:
                mech = "integer-tag-does-not-admit-value"
            ctx.count("wire_observation_not_judged:" + mech)      # a tag that does not admit its value still reads back equal in this driver

    # -- one round trip -------------------------------------------------------------------------
    def roundtrip(self, version, v, serialize, deserialize, route):
        ctx = self.ctx
        ctx.count("roundtrips_gs%d" % version)
        witness = {"graphson": version, "route": route, "value": short(v), "python_type": type(v).__name__}
        try:
            ser = serialize(v)
            text = json.dumps(ser)
        except Exception as e:
            ctx.violation("serialize-raises", "GraphSON%d %s: serializing %s raised %s: %s" % (version, route, short(v), type(e).__name__, e), witness)
            return
        witness["wire"] = text if len(text) < 600 else text[:600] + "..."
        wire = json.loads(text)
        if version >= 2:
            self.check_tags(v, wire, version)
        dur_text = None
        if isinstance(v, datetime.timedelta):
            dur_text = wire["@value"] if isinstance(wire, dict) else wire
            self.check_duration_wire(v, dur_text, version)
        exc = None
        got = None
        try:
            got = deserialize(wire)
        except Exception as e:
            exc = e
        want = self.cmp.expected(v)
        if exc is None and self.cmp.same(want, got):
            ctx.count("values_read_back_equal")
            return
        mech = None
        if isinstance(v, datetime.timedelta):
            mech = self.classify_timedelta(v, dur_text, exc, got)
        elif isinstance(exc, TypeError) and "unhashable type: 'bytearray'" in str(exc) and contains_blob_member(v):
            mech = K_BLOB_HASH
        if exc is not None:
            ctx.violation(mech or "deserialize-raises", "GraphSON%d %s: reading back %s raised %s: %s" % (
                version, route, short(v), type(exc).__name__, exc), witness)
        else:
            ctx.violation(mech or "value-reads-back-different", "GraphSON%d %s: %s read back as %s" % (version, route, short(v), short(got)),
                          dict(witness, read_back=short(got)))

    def check_v1(self, v):
        G = self.G
        S1, D1 = G.GraphSON1Serializer, G.GraphSON1Deserializer
        ser = S1.get_serializer(v)
        routes = 0
        if ser is not None:
            gt = ser.graphson_type
            if ser.graphson_base_type is not None and gt in D1._deserializers:
                self.roundtrip(1, v, S1.serialize, lambda w: D1.deserialize(gt, w), "deserialize(%r)" % gt)
                routes += 1
            helper = getattr(D1, "deserialize_%s" % (ser.cql_type,), None) if isinstance(ser.cql_type, str) and ser.cql_type.isidentifier() else None
            if helper is not None:
                self.roundtrip(1, v, S1.serialize, helper, "deserialize_%s" % ser.cql_type)
                routes += 1
        elif type(v) is int:
            for name in ("int", "bigint", "smallint", "varint"):
                self.roundtrip(1, v, S1.serialize, getattr(D1, "deserialize_" + name), "deserialize_" + name)
                routes += 1
        if not routes:
            self.ctx.count("gs1_values_without_registered_reader")
        return routes

    def check_v2(self, v):
        self.roundtrip(2, v, self.s2.serialize, self.r2.deserialize, "GraphSON2Reader")

    def check_v3(self, v):
        self.roundtrip(3, v, self.s3.serialize, self.r3.deserialize, "GraphSON3Reader")


def registered_types(G):
    out = {}
    for ver, ser in ((1, G.GraphSON1Serializer), (2, G.GraphSON2Serializer), (3, G.GraphSON3Serializer)):
        out[ver] = [t.__name__ for t in ser.get_type_definitions().keys()]
    return out


def run(ctx):
    from vlib import shim
    shim.import_cluster()
    import warnings
    warnings.simplefilter("ignore")
    from cassandra.datastax.graph import graphson as G
    from cassandra import util
    from spec import graphson_ref as ref
    from vlib.run import Inconclusive
    ref._selftest()
    if not util._HAS_GEOMET:
        raise Inconclusive("geomet is not importable: geometric types cannot be read back")
    rng = ctx.rng
    mon = Monitor(ctx, G, util, ref)

    known_types = {"str", "bool", "bytearray", "Decimal", "date", "time", "timedelta", "datetime", "UUID", "Polygon", "Point", "LineString",
                   "dict", "float", "IPv4Address", "IPv6Address", "memoryview", "bytes", "int", "list", "set", "tuple", "Duration", "TypeIOWrapper"}
    reg = registered_types(G)
    ctx.sample({"registered_serializer_types": reg})
    for ver, names in reg.items():
        for n in names:
            if n not in known_types:
                ctx.note("GraphSON%d serializer registers %s, which this monitor has no value pool for" % (ver, n))
                ctx.count("registered_types_without_pool")

    ctx.rule = ("per GraphSON version: boundary pools + seeded values of every registered Python type (int edges around 2^15/2^31/2^32/2^63/2^64, "
                "floats incl. NaN/inf/-0.0/denormals, text, blobs as bytes/bytearray/memoryview, Decimals incl. NaN/Infinity/exponents, dates "
                "year 1-9999, times and instants with microseconds, aware instants, timedeltas zero/sub-second/tiny/negative/huge, UUID, "
                "inet v4/v6, Point/LineString/Polygon, dse Duration, to_bigint/to_int/to_smallint/to_double/to_float wrappers); GraphSON3 "
                "lists/sets/maps/tuples nested to depth 3 with non-string keys; GraphSON2 string-keyed maps to depth 3; distinct = (version, repr(value))")
    ctx.assume("None, frozenset, aware datetime.time, lone-surrogate text, NaN / infinite geometric coordinates and NaN map keys are not "
               "generated (no serializer is registered for them or no equal read-back is defined)")
    ctx.assume("GraphSON2 maps are JSON objects: only string keys, and never the reserved keys '@type' / '@value'")
    ctx.assume("inside containers, leaves come from the classes without a recorded finding (positive durations >= 100 us fraction, integers "
               "whose tag admits them) so that container handling is judged on its own; blobs as set elements / map keys are generated "
               "because their failure is a container defect")
    ctx.assume("user types (dse:UDT) need cluster metadata and are outside this cluster-free monitor")
    ctx.assume("microsecond precision is demanded for instants, times and durations because the codecs carry it in text form; nothing "
               "in the module documents a coarser precision")

    def all_versions(v, versions=(1, 2, 3)):
        for ver in versions:
            ctx.case("%d|%s" % (ver, canon(v)))
            if ver == 1:
                mon.check_v1(v)
            elif ver == 2:
                mon.check_v2(v)
            else:
                mon.check_v3(v)

    if ctx.worker in (None, 0):
        for v in INT_EDGES:
            all_versions(v)
        for v in FLOAT_EDGES + STR_EDGES + [True, False]:
            all_versions(v)
        for d in DEC_EDGES:
            all_versions(decimal.Decimal(d))
        fixed_td = [datetime.timedelta(0), datetime.timedelta(microseconds=1), datetime.timedelta(microseconds=99), datetime.timedelta(microseconds=100),
                    datetime.timedelta(seconds=-1), datetime.timedelta(microseconds=-1), datetime.timedelta(seconds=-1.5), datetime.timedelta(days=-1),
                    datetime.timedelta(days=3, seconds=7.25), datetime.timedelta(minutes=5, microseconds=7), datetime.timedelta(days=999999999)]
        for v in fixed_td:
            all_versions(v)
        all_versions({b"ab"}, versions=(3,))
        all_versions({b"k": 1}, versions=(3,))
        all_versions({(1, b"x"): 1}, versions=(3,))
        all_versions({1: "a", (1, 2): [3], 2.5: {"x"}, uuid.UUID(int=1): {}}, versions=(3,))
        all_versions({"a": {"b": {"c": 1}}, "": 2.5}, versions=(2, 3))
        for v in fixed_td[:4]:
            ser = mon.s2.serialize(v)
            ctx.sample({"value": repr(v), "graphson2": ser})
        ctx.sample({"value": 2 ** 31, "graphson2": mon.s2.serialize(2 ** 31)})

    n = ctx.scale(30000, 2500000)
    for _ in range(n):
        v = gen_leaf(rng, G, util, 1)
        all_versions(v, versions=(1, 2, 3))
    for _ in range(n // 3):
        v = gen_leaf(rng, G, util, 3)      # ints, dse durations, wrappers as well
        vers = (3,) if isinstance(v, (util.Duration, G.TypeIOWrapper)) else ((1, 2, 3) if type(v) is int else (2, 3))
        all_versions(v, versions=vers)
    for _ in range(n // 2):
        v = gen_value3(rng, G, util, rng.choice([1, 2, 3]))
        all_versions(v, versions=(3,))
        ctx.count("gs3_container_values")
    for _ in range(n // 20):
        # blobs as set members / map keys
        b = bytes(rng.getrandbits(8) for _ in range(rng.randint(0, 4)))
        v = rng.choice([{b}, {b: gen_leaf(rng, G, util, 3, clean=True)}, [{b, b + b"\x00"}], {"k": {(b, 1)}}])
        all_versions(v, versions=(3,))
    for _ in range(n // 6):
        v = gen_value2(rng, G, util, rng.choice([1, 2, 3]))
        if isinstance(v, dict):
            all_versions(v, versions=(2,))
            ctx.count("gs2_map_values")

    q = ctx.quick
    ctx.floor_distinct = 10000 if q else 300000
    ctx.floor_counters = {"roundtrips_gs1": 5000, "roundtrips_gs2": 8000, "roundtrips_gs3": 12000, "values_read_back_equal": 20000,
                          "integer_tags_judged": 3000, "duration_wire_texts_judged": 1000, "gs3_container_values": 3000, "gs2_map_values": 500}
