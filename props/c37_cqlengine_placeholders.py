"""C37 - cqlengine statements bind every placeholder to its own clause's value.

Monitor: dynamically defined models (1-2 partition keys, 0-2 clustering keys, scalar / set / list / map / static / indexed
columns, renamed db fields) are driven through generated query-set chains (filter operators, token(), in, contains, like,
only/defer, order_by, limit, allow_filtering), DML requests (create, query-set update with collection operations and
nulled columns, query-set delete, iff / if_exists / if_not_exists, ttl / timestamp), directly constructed statement objects
(Insert/Update/Delete/SelectStatement with Set/List/Map/Counter/MapDelete clauses and ``update_context_id``) and batches of
1-6 requests (``BatchQuery``).  Statements are observed as text + context, either from ``_select_query()`` /
``get_context()`` or at the intercepted ``session.execute`` of a real Session.
Oracle: the independent statement reader ``spec/cqlstmt.py`` (on ``spec/cqllex.py``) parses the text; the placeholders
must be in bijection with the context keys (disjoint across a batch); the WHERE / IF / SET / DELETE parts must be exactly
the requested filters, conditions and assignments and the value bound to each placeholder must be ``to_database(value)``
of the clause that introduced it (IN: the list; token(): the key values; collection operations: the requested delta;
clauses built from (previous, value): applying the rendered operations to ``previous`` must give ``value``).
"""
import copy
import datetime
import decimal
import uuid

PROPERTY = "C37"
LEVEL = "exploration"
ENGINE = "spec+sim"
TECHNIQUE = "independent CQL statement reader over rendered cqlengine statements + clause-by-clause comparison of bound values"
LEVEL_TEXT = ("exploration: tens of thousands (quick) to ~1M (thorough) generated requests on thousands of generated models; every "
              "rendered statement is re-read by an independent parser and compared clause by clause with the request that produced it")
LEVEL_NOTE = ("trusted base: spec/cqllex.py + spec/cqlstmt.py; expected bound values are computed with the column's own to_database "
              "(its correctness is C36's subject); the select list is only checked against only()/defer(); DISTINCT, USING TIMESTAMP "
              "values derived from datetimes and the routing key (C38) are not judged")
QUICK_WORKERS = 2
WORKERS = 12

K_MAP_ASSIGN = "queryset-update-map-assignment-rendered-as-element-puts"
K_MAP_EMPTY = "queryset-update-empty-map-delta-rendered-as-clearing-assignment"
K_DEL_ATTR = "queryset-update-nulled-column-deleted-by-attribute-name"


# --------------------------------------------------------------------------------------------
# typed value keys (True != 1, 1 != 1.0) for comparing bound values
# --------------------------------------------------------------------------------------------
def vkey(v):
    if isinstance(v, (set, frozenset)) or type(v).__name__ == "SortedSet":
        return ("set",) + tuple(sorted((vkey(x) for x in v), key=repr))
    if isinstance(v, dict) or type(v).__name__.startswith("OrderedMap"):
        return ("map",) + tuple(sorted(((vkey(a), vkey(b)) for a, b in v.items()), key=repr))
    if isinstance(v, (list, tuple)):
        return (type(v).__name__,) + tuple(vkey(x) for x in v)
    return (type(v).__name__, repr(v))


# --------------------------------------------------------------------------------------------
# expectations
# --------------------------------------------------------------------------------------------
class Exp(object):
    """What one rendered statement must be."""
    def __init__(self, kind, table):
        self.kind = kind
        self.table = table
        self.where = []          # (lhs, op, value)   lhs = ('col', f) | ('token', [f..]); value python / list (in) / list (token)
        self.conds = []          # same shape, required
        self.conds_optional = []  # conditions that may legitimately be dropped (on columns updated by the sibling statement)
        self.assigns = []        # (kind, field, key or None, value)
        self.insert = []         # (field, value)
        self.del_fields = []     # ('col', f) | ('elem', f, key)
        self.if_exists = False
        self.if_not_exists = False
        self.ttl = None
        self.timestamp = None    # None | int | 'any'
        # select
        self.sel_required = None
        self.sel_allowed = None
        self.sel_star_ok = True
        self.count = False
        self.order_by = []
        self.limit = None
        self.allow_filtering = False
        self.semantic = []       # (field, coltype, previous, value) - container clauses judged by effect
        self.empty_map_delta = set()
        self.optional_statement = False
        self.attr_of_field = {}
        self.where_static_only = None   # WHERE to expect instead when the rendered statement touches static columns only
        self.static_fields = set()
        self.note = ""


class Matcher(object):
    def __init__(self, ctx, P, L):
        self.ctx, self.P, self.L = ctx, P, L

    def marker_value(self, v, params, used, problems, where):
        """python value bound to the bind marker ``v`` (a cqllex Term of kind marker, style %(name)s)"""
        if isinstance(v, self.P.Func) or getattr(v, "kind", None) != "marker" or v.value[0] != "%(":
            problems.append(("value-not-a-named-placeholder", "%s: expected a %%(n)s placeholder, found %r" % (where, v)))
            return None, False
        name = v.value[1]
        used.append(name)
        if name not in params:
            problems.append(("placeholder-without-context-value", "%s: placeholder %%(%s)s has no entry in the context" % (where, name)))
            return None, False
        return params[name], True

    def rel_key(self, r, params, used, problems, part):
        """(lhs key, op, value key) of a parsed relation"""
        P = self.P
        lhs = r.lhs
        if lhs[0] == "token":
            lk = ("token", tuple(lhs[1]))
            if not isinstance(r.rhs, P.Func) or r.rhs.name != "token":
                problems.append((part + "-part-differs", "token(...) is compared with %r, not token(...)" % (r.rhs,)))
                return None
            vals = []
            for a in r.rhs.args:
                val, ok = self.marker_value(a, params, used, problems, part + " token()")
                if not ok:
                    return None
                vals.append(vkey(val))
            return (lk, r.op, ("token",) + tuple(vals))
        if lhs[0] != "col":
            problems.append((part + "-part-differs", "unexpected relation on %r" % (lhs,)))
            return None
        lk = ("col", lhs[1])
        if r.op == "is not null":
            return (lk, r.op, None)
        if r.op == "in":
            if isinstance(r.rhs, list):
                problems.append((part + "-part-differs", "IN list was rendered inline"))
                return None
            val, ok = self.marker_value(r.rhs, params, used, problems, part + " IN")
            if not ok:
                return None
            tn = type(val).__name__
            if tn == "InQuoter":
                items = list(val.value)
            elif tn in ("ValueSequence", "tuple"):
                items = list(val)
            else:
                problems.append(("in-value-not-bound-as-a-parenthesised-list",
                                 "IN placeholder is bound to a %s (%r): the session encoder would not render '(a, b, ...)'" % (tn, val)))
                return None
            return (lk, "in", ("in",) + tuple(vkey(x) for x in items))
        if isinstance(r.rhs, P.Func):
            if len(r.rhs.args) != 1:
                problems.append((part + "-part-differs", "function %s with %d arguments" % (r.rhs.name, len(r.rhs.args))))
                return None
            val, ok = self.marker_value(r.rhs.args[0], params, used, problems, part)
            if not ok:
                return None
            return (lk, r.op, ("func", r.rhs.name, vkey(val)))
        val, ok = self.marker_value(r.rhs, params, used, problems, part)
        if not ok:
            return None
        return (lk, r.op, vkey(val))

    @staticmethod
    def exp_rel_key(e):
        lhs, op, value = e
        if lhs[0] == "token":
            return (("token", tuple(lhs[1])), op, ("token",) + tuple(vkey(x) for x in value))
        if op == "in":
            return (lhs, op, ("in",) + tuple(vkey(x) for x in value))
        if op == "is not null":
            return (lhs, op, None)
        if isinstance(value, tuple) and len(value) == 3 and value[0] == "func":
            return (lhs, op, ("func", value[1], vkey(value[2])))
        return (lhs, op, vkey(value))

    def compare_rels(self, got_rels, exp_rels, optional, params, used, problems, part):
        got = []
        for r in got_rels:
            k = self.rel_key(r, params, used, problems, part)
            if k is None:
                return
            got.append(k)
        exp = [self.exp_rel_key(e) for e in exp_rels]
        opt = [self.exp_rel_key(e) for e in optional]
        g = sorted(got, key=repr)
        # optional conditions: present or absent
        rest = list(g)
        for e in exp:
            if e in rest:
                rest.remove(e)
            else:
                rest = None
                break
        if rest is not None:
            for x in list(rest):
                if x in opt:
                    opt.remove(x)
                    rest.remove(x)
            if not rest:
                self.ctx.count(part + "_parts_equal_to_request")
                self.ctx.count("clause_values_compared", len(got))
                return
        ge = sorted(exp + [self.exp_rel_key(e) for e in optional], key=repr)
        shape_g = sorted(((a, b) for a, b, _ in g), key=repr)
        shape_e = sorted(((a, b) for a, b, _ in sorted(exp, key=repr)), key=repr)
        if shape_g == shape_e:
            vals_g = sorted((repr(c) for _, _, c in g))
            vals_e = sorted((repr(c) for _, _, c in exp))
            if vals_g == vals_e:
                problems.append(("placeholder-bound-to-another-clauses-value",
                                 "%s: the clauses are the requested ones but their values are permuted: rendered %r, requested %r" % (part.upper(), g, sorted(exp, key=repr))))
            else:
                problems.append(("placeholder-value-differs-from-clause-value",
                                 "%s: a bound value is not to_database(value) of its clause: rendered %r, requested %r" % (part.upper(), g, sorted(exp, key=repr))))
        else:
            problems.append((part + "-part-differs", "%s part is not the requested one: rendered %r, requested %r" % (part.upper(), g, ge)))

    def using(self, st, exp, problems):
        ttl = st.using.get("ttl")
        if (ttl is None) != (exp.ttl is None) or (ttl is not None and (ttl.kind != "int" or ttl.value != exp.ttl)):
            problems.append(("using-ttl-differs", "USING TTL rendered %r, requested %r" % (ttl, exp.ttl)))
        ts = st.using.get("timestamp")
        if (ts is None) != (exp.timestamp is None):
            problems.append(("using-timestamp-differs", "USING TIMESTAMP rendered %r, requested %r" % (ts, exp.timestamp)))
        elif ts is not None and (ts.kind != "int" or (exp.timestamp != "any" and ts.value != exp.timestamp)):
            problems.append(("using-timestamp-differs", "USING TIMESTAMP rendered %r, requested %r" % (ts, exp.timestamp)))

    def statement(self, st, params, exp, used):
        """compare parsed statement ``st`` with expectation ``exp``; returns [(slug, msg)]"""
        problems = []
        if st.kind != exp.kind:
            return [("wrong-statement-kind", "rendered a %s statement, requested %s" % (st.kind.upper(), exp.kind.upper()))]
        if st.table != exp.table:
            problems.append(("wrong-table", "statement is on %r, the model's table is %r" % (st.table, exp.table)))
        if st.kind != "insert":
            want_where = exp.where
            if exp.where_static_only is not None:
                touched = [a.column for a in st.assignments] if st.kind == "update" else [x[1] for x in getattr(st, "selections", [])]
                if touched and all(t in exp.static_fields for t in touched) and len(st.where) == len(exp.where_static_only):
                    want_where = exp.where_static_only     # either form is right for static cells (the full key when other, non-static
                    #                                         columns changed in the same save without needing a SET part)
            self.compare_rels(st.where, want_where, [], params, used, problems, "where")
        if st.kind == "select":
            self.select_parts(st, exp, problems)
            return problems
        if st.kind in ("update", "delete"):
            self.compare_rels(st.conditions, exp.conds, exp.conds_optional, params, used, problems, "if")
            if st.if_exists != exp.if_exists:
                problems.append(("if-exists-flag-differs", "IF EXISTS rendered=%s requested=%s" % (st.if_exists, exp.if_exists)))
        self.using(st, exp, problems)
        if st.kind == "insert":
            if st.if_not_exists != exp.if_not_exists:
                problems.append(("if-not-exists-flag-differs", "IF NOT EXISTS rendered=%s requested=%s" % (st.if_not_exists, exp.if_not_exists)))
            got = []
            for c, v in zip(st.columns, st.values):
                val, ok = self.marker_value(v, params, used, problems, "VALUES")
                if not ok:
                    return problems
                got.append((c, vkey(val)))
            e = [(f, vkey(v)) for f, v in exp.insert]
            self.ctx.count("clause_values_compared", len(got))
            if sorted(got, key=repr) != sorted(e, key=repr):
                if sorted(c for c, _ in got) == sorted(f for f, _ in e) and sorted(repr(v) for _, v in got) == sorted(repr(v) for _, v in e):
                    problems.append(("placeholder-bound-to-another-clauses-value", "INSERT values are permuted: rendered %r, requested %r" % (got, e)))
                else:
                    problems.append(("insert-part-differs", "INSERT columns/values rendered %r, requested %r" % (got, e)))
            else:
                self.ctx.count("set_parts_equal_to_request")
        if st.kind == "update":
            self.assignments(st, params, exp, used, problems)
        if st.kind == "delete":
            got = []
            for sel in st.selections:
                if sel[0] == "col":
                    got.append(("col", sel[1]))
                else:
                    val, ok = self.marker_value(sel[2], params, used, problems, "DELETE selection")
                    if not ok:
                        return problems
                    got.append(("elem", sel[1], vkey(val)))
            e = [x if x[0] == "col" else ("elem", x[1], vkey(x[2])) for x in exp.del_fields]
            if sorted(got, key=repr) != sorted(e, key=repr):
                slug = "delete-selection-differs"
                renamed = dict((f, a) for f, a in exp.attr_of_field.items() if f != a)
                if renamed and sorted(got, key=repr) == sorted([("col", renamed.get(x[1], x[1])) if x[0] == "col" else x for x in e], key=repr):
                    slug = K_DEL_ATTR        # the attribute names of columns with a db_field were rendered
                problems.append((slug, "DELETE selections rendered %r, requested %r" % (got, e)))
            else:
                self.ctx.count("delete_selections_equal_to_request")
        return problems

    def assignments(self, st, params, exp, used, problems):
        got = []
        for a in st.assignments:
            val, ok = self.marker_value(a.value, params, used, problems, "SET")
            if not ok:
                return
            key = None
            if a.kind == "put":
                kv, ok = self.marker_value(a.key, params, used, problems, "SET element key")
                if not ok:
                    return
                key = kv
            got.append((a.kind, a.column, key, val))
        self.ctx.count("clause_values_compared", len(got))
        semantic_fields = set(f for f, _, _, _ in exp.semantic)
        plain_got = [g for g in got if g[1] not in semantic_fields]
        gk = sorted(((k, f, None if key is None else vkey(key), vkey(v)) for k, f, key, v in plain_got), key=repr)
        ek = sorted(((k, f, None if key is None else vkey(key), vkey(v)) for k, f, key, v in exp.assigns), key=repr)
        if gk != ek:
            if sorted(x[:3] for x in gk) == sorted(x[:3] for x in ek):
                slug = ("placeholder-bound-to-another-clauses-value" if sorted(repr(x[3]) for x in gk) == sorted(repr(x[3]) for x in ek)
                        else "placeholder-value-differs-from-clause-value")
                problems.append((slug, "SET part: the assignments are the requested ones but their values are not: rendered %r, requested %r" % (gk, ek)))
            else:
                # per column, with the narrow classifiers of the two confirmed query-set defects
                for f in sorted(set(x[1] for x in gk + ek)):
                    g_f = [x for x in gk if x[1] == f]
                    e_f = [x for x in ek if x[1] == f]
                    if g_f == e_f:
                        continue
                    slug = "set-part-differs"
                    if (len(e_f) == 1 and e_f[0][0] == "set" and e_f[0][3][0] == "map" and len(e_f[0][3]) > 1 and g_f and all(x[0] == "put" for x in g_f)
                            and ("map",) + tuple(sorted(((x[2], x[3]) for x in g_f), key=repr)) == e_f[0][3]):
                        slug = K_MAP_ASSIGN
                    elif not e_f and len(g_f) == 1 and g_f[0][0] == "set" and g_f[0][3] == ("map",) and f in exp.empty_map_delta:
                        slug = K_MAP_EMPTY
                    problems.append((slug, "SET part for column %r is not the requested one: rendered %r, requested %r" % (f, g_f, e_f)))
        else:
            self.ctx.count("set_parts_equal_to_request")
        # clauses built from (previous, value): the rendered operations applied to previous must give value
        for f, ctype, prev, value in exp.semantic:
            ops = [g for g in got if g[1] == f]
            res = apply_ops(ctype, prev, ops)
            self.ctx.count("container_deltas_judged_by_effect")
            if res == "INVALID":
                problems.append(("container-delta-does-not-produce-value", "%s %s: operations %r (or the values bound to them) are not valid for the column" % (ctype, f, ops)))
                continue
            if value is None:
                # the column is being nulled (the DELETE statement does it): operations here may only empty it or leave it alone
                if res is not None and len(res) and vkey(res) != vkey(prev if prev is not None else empty_of(ctype)):
                    problems.append(("container-delta-does-not-produce-value", "%s %s is nulled, but the rendered operations %r give %r" % (ctype, f, ops, res)))
                continue
            want = value
            if ctype == "map":
                # removals travel in a separate DELETE statement: here only the puts are judged
                want = dict((k, v) for k, v in (value or {}).items())
                res_cmp = dict((k, v) for k, v in (res or {}).items() if k in want) if res is not None else None
                extra_wrong = [k for k in want if res is None or k not in res or vkey(res[k]) != vkey(want[k])]
                if extra_wrong:
                    problems.append(("container-delta-does-not-produce-value", "map %s: rendered %r on %r does not give the entries of %r" % (f, ops, prev, value)))
                continue
            if res == "INVALID" or vkey(res if res is not None else empty_of(ctype)) != vkey(want if want is not None else empty_of(ctype)):
                problems.append(("container-delta-does-not-produce-value", "%s %s: rendered operations %r applied to %r give %r, requested %r" % (
                    ctype, f, ops, prev, res, value)))

    def select_parts(self, st, exp, problems):
        if exp.count:
            if not (isinstance(st.selection, tuple) and st.selection[0] == "count"):
                problems.append(("select-list-differs", "requested COUNT, rendered %r" % (st.selection,)))
        elif st.selection == "*":
            if not exp.sel_star_ok:
                problems.append(("select-list-differs", "'*' selected although only()/defer() were requested"))
        elif isinstance(st.selection, list):
            got = set(st.selection)
            if exp.sel_required is not None and not (exp.sel_required <= got <= exp.sel_allowed):
                problems.append(("select-list-differs", "selected %r; must contain %r and stay inside %r" % (
                    sorted(got), sorted(exp.sel_required), sorted(exp.sel_allowed))))
        else:
            problems.append(("select-list-differs", "rendered %r" % (st.selection,)))
        if not exp.count and st.order_by != exp.order_by:
            problems.append(("order-by-differs", "ORDER BY rendered %r, requested %r" % (st.order_by, exp.order_by)))
        lim = None if st.limit is None else (st.limit.value if st.limit.kind == "int" else st.limit)
        if lim != exp.limit:
            problems.append(("limit-differs", "LIMIT rendered %r, requested %r" % (lim, exp.limit)))
        if st.allow_filtering != exp.allow_filtering:
            problems.append(("allow-filtering-differs", "ALLOW FILTERING rendered=%s requested=%s" % (st.allow_filtering, exp.allow_filtering)))


def empty_of(ctype):
    return {"set": set(), "list": [], "map": {}}[ctype]


def apply_ops(ctype, prev, ops):
    """Effect of rendered SET operations (kind, field, key, value) on the previous python value (CQL collection semantics);
    "INVALID" when an operation or the shape of its bound value does not fit the column."""
    try:
        return _apply_ops(ctype, prev, ops)
    except (TypeError, ValueError, AttributeError, KeyError):
        return "INVALID"


def _apply_ops(ctype, prev, ops):
    cur = None if prev is None else (set(prev) if ctype == "set" else list(prev) if ctype == "list" else dict(prev))
    for kind, _f, key, val in ops:
        if kind == "set":
            cur = None if val is None else (set(val) if ctype == "set" else list(val) if ctype == "list" else dict(val))
        elif kind == "add":
            if ctype == "set":
                cur = (cur or set()) | set(val)
            elif ctype == "list":
                cur = (cur or []) + list(val)
            else:
                cur = dict(cur or {})
                cur.update(val)
        elif kind == "sub":
            if ctype == "set":
                cur = (cur or set()) - set(val)
            elif ctype == "list":
                cur = [x for x in (cur or []) if x not in val]
            else:
                cur = dict((k, v) for k, v in (cur or {}).items() if k not in val)
        elif kind == "prepend":
            if ctype != "list":
                return "INVALID"
            cur = list(val) + (cur or [])
        elif kind == "put":
            if ctype != "map":
                return "INVALID"
            cur = dict(cur or {})
            cur[key] = val
    return cur


# --------------------------------------------------------------------------------------------
# models
# --------------------------------------------------------------------------------------------
SCALAR_KINDS = ["int", "int", "text", "text", "bigint", "varint", "bool", "double", "decimal", "uuid", "datetime", "date", "time", "blob", "inet"]
KEY_KINDS = ["int", "text", "bigint", "uuid", "datetime", "int", "text"]
ELEM_KINDS = ["int", "text"]
ODD_FIELDS = ["Mixed", "with space", "select", "from", "ÜñÍ", "a-b", "1st", "x.y", "tab\tname", "'q'", "$$", "a;b", "--c", "token", "if"]


class ColSpec(object):
    def __init__(self, attr, kind, role, field=None, index=False):
        self.attr, self.kind, self.role, self.index = attr, kind, role, index
        self.field = field or attr
        self.col = None

    @property
    def container(self):
        return self.kind.split("<")[0] if "<" in self.kind else None


class ModelSpec(object):
    pass


def make_column(C, cs):
    kw = {}
    if cs.role == "pk":
        kw["partition_key"] = True
    elif cs.role == "ck":
        kw["primary_key"] = True
    elif cs.role == "static":
        kw["static"] = True
    if cs.index:
        kw["index"] = True
    if cs.field != cs.attr:
        kw["db_field"] = cs.field
    scalar = {"int": C.Integer, "text": C.Text, "bigint": C.BigInt, "varint": C.VarInt, "bool": C.Boolean, "double": C.Double, "decimal": C.Decimal,
              "uuid": C.UUID, "datetime": C.DateTime, "date": C.Date, "time": C.Time, "blob": C.Blob, "inet": C.Inet}
    k = cs.kind
    if k in scalar:
        return scalar[k](**kw)
    if k.startswith("set<"):
        return C.Set(scalar[k[4:-1]], **kw)
    if k.startswith("list<"):
        return C.List(scalar[k[5:-1]], **kw)
    if k.startswith("map<"):
        a, b = k[4:-1].split(",")
        return C.Map(scalar[a], scalar[b], **kw)
    raise AssertionError(k)


def build_model(rng, C, models, uid):
    sp = ModelSpec()
    cols = []
    names = iter(["k%d" % i for i in range(3)] + ["c%d" % i for i in range(3)] + ["v%d" % i for i in range(12)])
    used_fields = set()

    def field_for(attr):
        if rng.random() < 0.2:
            f = rng.choice(ODD_FIELDS)
            if f not in used_fields:
                used_fields.add(f)
                return f
        return attr
    npk, nck = rng.choice([1, 1, 2]), rng.choice([0, 1, 1, 2])
    for i in range(npk):
        cols.append(ColSpec("k%d" % i, rng.choice(KEY_KINDS), "pk", None))
    for i in range(nck):
        cols.append(ColSpec("c%d" % i, rng.choice(["int", "text", "datetime", "int", "text", "bigint", "varint", "bool", "double", "decimal", "blob",
                                                   "uuid", "date", "time", "inet"]), "ck", None))
    for c in cols:
        c.field = field_for(c.attr)
    for i in range(rng.randint(2, 7)):
        r = rng.random()
        if r < 0.5:
            kind = rng.choice(SCALAR_KINDS)
        elif r < 0.65:
            kind = "set<%s>" % rng.choice(ELEM_KINDS)
        elif r < 0.8:
            kind = "list<%s>" % rng.choice(ELEM_KINDS)
        else:
            kind = "map<%s,%s>" % (rng.choice(ELEM_KINDS), rng.choice(ELEM_KINDS))
        role = "static" if (nck and rng.random() < 0.15) else "reg"
        attr = "v%d" % i
        cols.append(ColSpec(attr, kind, role, field_for(attr), index=("<" not in kind and role == "reg" and rng.random() < 0.25)))
    attrs = {"__keyspace__": rng.choice(["ks37", "Ks_Mixed"]), "__table_name__": "t37_%d" % uid}
    for c in cols:
        c.col = make_column(C, c)
        attrs[c.attr] = c.col
    sp.model = type("M37_%d" % uid, (models.Model,), attrs)
    sp.cols = cols
    sp.by_attr = dict((c.attr, c) for c in cols)
    sp.pk = [c for c in cols if c.role == "pk"]
    sp.ck = [c for c in cols if c.role == "ck"]
    sp.data = [c for c in cols if c.role in ("reg", "static")]
    ks = attrs["__keyspace__"]
    sp.table = (ks if ks == ks.lower() else ks, attrs["__table_name__"])
    return sp


FALSY = {"int": 0, "bigint": 0, "varint": 0, "text": "", "bool": False, "double": 0.0, "decimal": decimal.Decimal(0), "blob": b"",
         "datetime": datetime.datetime(1970, 1, 1), "date": datetime.date(1970, 1, 1), "time": datetime.time(0, 0, 0), "uuid": uuid.UUID(int=0),
         "inet": "0.0.0.0"}


def gen_scalar(rng, kind):
    """values of a column kind; about one in six is the kind's zero / empty / False (falsy but set) or another boundary"""
    r = rng.random()
    if rng.random() < 0.17:
        q = rng.random()
        if q < 0.7 or kind not in ("int", "bigint", "varint", "double", "decimal", "text"):
            return FALSY[kind]
        if kind == "text":
            return rng.choice([" ", "0", "False", "None", "null"])
        if kind == "double":
            return rng.choice([-0.0, 1.0, -1.0])
        if kind == "decimal":
            return decimal.Decimal(rng.choice(["0.0", "0E-7", "-0", "1", "-1"]))
        return rng.choice([1, -1, {"int": 2 ** 31 - 1, "bigint": 2 ** 63 - 1, "varint": 2 ** 64}[kind], {"int": -2 ** 31, "bigint": -2 ** 63, "varint": -2 ** 64}[kind]])
    if kind == "int":
        return rng.randint(-2 ** 31, 2 ** 31 - 1)
    if kind == "bigint":
        return rng.randint(-2 ** 63, 2 ** 63 - 1)
    if kind == "varint":
        return rng.randint(-2 ** 90, 2 ** 90)
    if kind == "text":
        return rng.choice(["", "a", "it's", "x' OR 1=1 --", "%s", "%(0)s", "é", "\U0001F600"]) + "%06x" % rng.getrandbits(24)
    if kind == "bool":
        return r < 0.5
    if kind == "double":
        return rng.uniform(-1e6, 1e6)
    if kind == "decimal":
        return decimal.Decimal(rng.randint(-10 ** 12, 10 ** 12)).scaleb(-rng.randint(0, 6))
    if kind == "uuid":
        return uuid.UUID(int=rng.getrandbits(128))
    if kind == "datetime":
        return datetime.datetime(1970, 1, 1) + datetime.timedelta(milliseconds=rng.randint(0, 4 * 10 ** 12))
    if kind == "date":
        return datetime.date(1970, 1, 1) + datetime.timedelta(days=rng.randint(-100000, 100000))
    if kind == "time":
        return datetime.time(rng.randint(0, 23), rng.randint(0, 59), rng.randint(0, 59), rng.randint(0, 999999))
    if kind == "blob":
        return bytes(rng.getrandbits(8) for _ in range(rng.randint(0, 6)))
    if kind == "inet":
        return "%d.%d.%d.%d" % tuple(rng.randint(0, 255) for _ in range(4))
    raise AssertionError(kind)


def gen_value(rng, cs, allow_empty=True):
    k = cs.kind
    if "<" not in k:
        return gen_scalar(rng, k)
    n = rng.choice([0, 1, 2, 3] if allow_empty else [1, 2, 3])
    if k.startswith("set<"):
        return set(gen_scalar(rng, k[4:-1]) for _ in range(n))
    if k.startswith("list<"):
        return [gen_scalar(rng, k[5:-1]) for _ in range(n)]
    a, b = k[4:-1].split(",")
    return dict((gen_scalar(rng, a), gen_scalar(rng, b)) for _ in range(n))


# --------------------------------------------------------------------------------------------
# the driver of requests
# --------------------------------------------------------------------------------------------
class FakeResult(list):
    def one(self):
        return self[0] if self else {"count": 0}


class Driver(object):
    def __init__(self, ctx, rng, mods):
        self.ctx, self.rng = ctx, rng
        self.C, self.models, self.Q, self.ST, self.F, self.OPS = mods
        self.seen = []

    def handler(self, query, parameters):
        text = getattr(query, "query_string", query)
        self.seen.append((text, parameters))
        self.ctx.count("statements_intercepted_at_session_execute")
        return FakeResult()

    # ---- filters ---------------------------------------------------------------------------------------
    def key_filters(self, sp, full=True):
        """[(attr, op, value)] restricting every partition key by equality and (full) every clustering key"""
        out = []
        for c in sp.pk:
            out.append((c.attr, "eq", gen_value(self.rng, c)))
        if full:
            for c in sp.ck:
                out.append((c.attr, "eq", gen_value(self.rng, c)))
        return out

    def apply_filters(self, q, sp, filters, exp_list):
        """apply [(attr, op, value)] through .filter() calls (kwargs, several calls, or column expressions); fill exp_list"""
        rng = self.rng
        pending = {}

        def flush(q):
            if pending:
                q = q.filter(**pending)
                pending.clear()
            return q
        for attr, op, value in filters:
            if attr == "pk__token":
                key = "pk__token" if op == "eq" else "pk__token__" + op
                exp_list.append((("token", [c.field for c in sp.pk]), SYMBOL[op], [c.col.to_database(v) for c, v in zip(sp.pk, value)]))
                tok = self.F.Token(*value) if rng.random() < 0.5 else self.F.Token(list(value))
                q = flush(q).filter(**{key: tok})
                continue
            cs = sp.by_attr[attr]
            lhs = ("col", cs.field)
            if isinstance(value, QF):
                exp_list.append((lhs, SYMBOL[op], ("func", value.name.lower(), value.ms)))
                q = flush(q).filter(**{attr + "__" + op: getattr(self.F, value.name)(value.dt)})
                continue
            if op == "in":
                exp_list.append((lhs, "in", [cs.col.to_database(v) for v in value]))
            elif op == "contains":
                exp_list.append((lhs, "contains", value))
            else:
                exp_list.append((lhs, SYMBOL[op], cs.col.to_database(value)))
            key = attr if (op == "eq" and rng.random() < 0.8) else attr + "__" + op
            if op in ("eq", "gt", "gte", "lt", "lte") and rng.random() < 0.15:
                ev = getattr(sp.model, attr)
                expr = {"eq": ev == value, "gt": ev > value, "gte": ev >= value, "lt": ev < value, "lte": ev <= value}[op]
                q = flush(q).filter(expr)
                continue
            if key in pending or rng.random() < 0.3:
                q = flush(q)
            pending[key] = value
        return flush(q)

    # ---- SELECT ---------------------------------------------------------------------------------------
    def case_select(self, sp):
        rng = self.rng
        exp = Exp("select", sp.table)
        filters = []
        style = rng.random()
        if style < 0.15:
            vals = [gen_value(rng, c) for c in sp.pk]
            filters.append(("pk__token", rng.choice(["gt", "gte", "lt", "lte", "eq"]), vals))
            if rng.random() < 0.4:
                filters.append(("pk__token", rng.choice(["lt", "lte"]), [gen_value(rng, c) for c in sp.pk]))
        elif style < 0.3 and sp.pk:
            for c in sp.pk[:-1]:
                filters.append((c.attr, "eq", gen_value(rng, c)))
            filters.append((sp.pk[-1].attr, "in", [gen_value(rng, sp.pk[-1]) for _ in range(rng.randint(1, 4))]))
        else:
            filters += self.key_filters(sp, full=False)
        for c in sp.ck:
            r = rng.random()
            if r < 0.35:
                filters.append((c.attr, "eq", gen_value(rng, c)))
            elif r < 0.6:
                filters.append((c.attr, rng.choice(["gt", "gte", "lt", "lte"]), gen_value(rng, c)))
                if rng.random() < 0.4:
                    filters.append((c.attr, rng.choice(["lt", "lte"]), gen_value(rng, c)))
                break
            elif r < 0.7:
                filters.append((c.attr, "in", [gen_value(rng, c) for _ in range(rng.randint(1, 3))]))
            else:
                break
        need_af = False
        for c in sp.data:
            if rng.random() < 0.25:
                if c.container in ("set", "list"):
                    filters.append((c.attr, "contains", gen_scalar(rng, c.kind.split("<")[1][:-1])))
                elif c.container == "map":
                    filters.append((c.attr, "contains", gen_scalar(rng, c.kind[4:-1].split(",")[1])))
                elif c.kind == "text" and rng.random() < 0.4:
                    filters.append((c.attr, "like", gen_scalar(rng, "text") + "%"))
                elif c.kind == "uuid" and rng.random() < 0.6:
                    dt = datetime.datetime(1970, 1, 1) + datetime.timedelta(seconds=rng.randint(0, 4 * 10 ** 9))
                    filters.append((c.attr, rng.choice(["gt", "gte", "lt", "lte"]), QF(rng.choice(["MinTimeUUID", "MaxTimeUUID"]), dt)))
                elif c.kind not in ("bool", "blob"):
                    filters.append((c.attr, rng.choice(["eq", "eq", "gt", "lte", "in"]), None))
                    a, op, _ = filters.pop()
                    filters.append((a, op, [gen_value(rng, c) for _ in range(rng.randint(1, 3))] if op == "in" else gen_value(rng, c)))
                need_af = True
        if rng.random() < 0.3:
            rng.shuffle(filters)
        q = sp.model.objects
        if rng.random() < 0.2:
            q = q.all()
        calls = []
        # chain of non-filter calls interleaved with the filters
        only = defer = None
        attrs = [c.attr for c in sp.cols]
        if rng.random() < 0.3:
            only = rng.sample(attrs, rng.randint(1, len(attrs)))
            calls.append(("only", only))
        if rng.random() < 0.3:
            defer = rng.sample(attrs, rng.randint(1, max(1, len(attrs) - 1)))
            calls.append(("defer", defer))
        order = []
        if sp.ck and rng.random() < 0.4:
            for c in sp.ck[:rng.randint(1, len(sp.ck))]:
                d = rng.random() < 0.5
                order.append(("-" if d else "") + c.attr)
                exp.order_by.append((c.field, "desc" if d else "asc"))
            calls.append(("order_by", order))
        exp.limit = 10000
        if rng.random() < 0.5:
            n = rng.choice([0, None, 1, 5, 10000, rng.randint(1, 10 ** 6)])
            calls.append(("limit", n))
            exp.limit = n if n else None
        if need_af or rng.random() < 0.2:
            calls.append(("allow_filtering", None))
            exp.allow_filtering = True
        if rng.random() < 0.1:
            calls.append(("consistency", 1))
        calls.append(("filters", filters))
        rng.shuffle(calls)
        for name, arg in calls:
            if name == "filters":
                q = self.apply_filters(q, sp, arg, exp.where)
            elif name == "order_by":
                q = q.order_by(*arg)
            elif name == "allow_filtering":
                q = q.allow_filtering()
            else:
                q = getattr(q, name)(arg)
        allf = set(c.field for c in sp.cols)
        f_of = lambda names: set(sp.by_attr[a].field for a in names)
        base = f_of(only) if only else set(allf)
        udef = f_of(defer) if defer else set()
        eqf = set(lhs[1] for lhs, op, _ in exp.where if lhs[0] == "col" and op == "=")
        exp.sel_allowed = base - udef
        exp.sel_required = base - udef - eqf
        exp.sel_star_ok = not only and not defer
        if not exp.sel_required:
            exp.sel_required, exp.sel_allowed = None, None
        mode = rng.random()
        if mode < 0.45:
            # the statement object: rendering and get_context() are repeatable
            stmt = q._select_query()
            obs = [(str(stmt), stmt.get_context(), [exp])]
            for _ in range(rng.choice([0, 1, 1, 2])):
                if rng.random() < 0.3:
                    stmt.get_context_size()
                obs.append((str(stmt), stmt.get_context(), [exp]))
            return obs, "select"
        # executed: the same query set more than once (count() then iterate, first(), get(), ...) and clones chained from an
        # already executed query set; every statement that reaches the session is judged against the request
        obs = []

        def run_ops(qs, e):
            ops = rng.choice([["iter"], ["count"], ["count", "iter"], ["iter", "count"], ["count", "first"], ["count", "get"],
                              ["first", "iter"], ["count", "count"], ["iter", "iter"], ["count", "iter", "get"]])
            for op in ops:
                n0 = len(self.seen)
                try:
                    if op == "iter":
                        list(qs)
                    elif op == "count":
                        qs.count()
                    elif op == "first":
                        qs.first()
                    else:
                        try:
                            qs.get()
                        except qs.model.DoesNotExist:
                            pass
                finally:
                    got = self.seen[n0:]
                for text, params in got:
                    e2 = copy.copy(e)
                    e2.count = op == "count"
                    obs.append((text, params, [e2]))
                if len(got) > 1:
                    obs.append((got[1][0], got[1][1], []))      # one call, two statements
            return ops
        first_ops = run_ops(q, exp)
        if not obs:
            return [("", {}, [exp])], "select"
        label = "select-executed" if len(first_ops) == 1 else "select-executed-again"
        if rng.random() < 0.5:
            # a clone chained from the executed query set
            e2 = copy.copy(exp)
            e2.where = list(exp.where)
            r = rng.random()
            if r < 0.35:
                n = rng.choice([1, 7, 50, rng.randint(1, 10 ** 6)])
                while n == (exp.limit or 0):
                    n += 1
                q2 = q.limit(n)
                e2.limit = n
            elif r < 0.5:
                q2 = q.all()
            elif r < 0.65:
                q2 = q.allow_filtering()
                e2.allow_filtering = True
            else:
                cands = [c for c in sp.data if c.kind in ("int", "bigint", "varint", "double", "decimal", "text")]
                if cands:
                    c = rng.choice(cands)
                    op = rng.choice(["gt", "gte", "lt", "lte"])
                    v = gen_value(rng, c)
                    q2 = q.filter(**{c.attr + "__" + op: v}).allow_filtering()
                    e2.where.append((("col", c.field), SYMBOL[op], c.col.to_database(v)))
                    e2.allow_filtering = True
                else:
                    q2 = q.all()
            run_ops(q2, e2)
            label = "select-executed-clone"
        return obs, label

    # ---- DML through the model API -------------------------------------------------------------------
    def options(self, q, exp_list, allow, is_class=False):
        """randomly add ttl / timestamp to a queryset; returns the queryset"""
        rng = self.rng
        if "ttl" in allow and rng.random() < 0.25:
            n = rng.choice([0, 1, 60, rng.randint(1, 10 ** 6)])
            q = q.ttl(n)
            for e in exp_list:
                if e.kind in ("insert", "update"):
                    e.ttl = n or None
        if "timestamp" in allow and rng.random() < 0.2:
            if rng.random() < 0.6:
                ts = rng.randint(1, 2 ** 50)
                want = ts
            else:
                ts = datetime.datetime(2020, 1, 1) + datetime.timedelta(seconds=rng.randint(0, 10 ** 8), microseconds=rng.randint(0, 999999))
                want = "any"
            q = q.timestamp(ts)
            for e in exp_list:
                if e.kind in allow["timestamp"]:
                    e.timestamp = want
        return q

    def case_create(self, sp, batch=None):
        rng = self.rng
        ins = Exp("insert", sp.table)
        dele = Exp("delete", sp.table)
        kw = {}
        for c in sp.pk + sp.ck:
            kw[c.attr] = gen_value(rng, c)
        for c in sp.data:
            r = rng.random()
            if r < 0.55:
                kw[c.attr] = gen_value(rng, c)
            elif r < 0.7:
                kw[c.attr] = None
        items = list(kw.items())
        rng.shuffle(items)
        kw = dict(items)
        deleted = []
        for c in sp.cols:
            if c.attr not in kw:
                continue
            v = kw[c.attr]
            if v is None or (c.container and not v):
                deleted.append(c)
            else:
                ins.insert.append((c.field, c.col.to_database(v)))
        for c in deleted:
            dele.del_fields.append(("col", c.field))
        static_only = bool(deleted) and all(c.role == "static" for c in deleted)
        for c in (sp.pk if static_only else sp.pk + sp.ck):
            dele.where.append((("col", c.field), "=", c.col.to_database(kw[c.attr])))
        q = sp.model.objects if batch is None else sp.model.batch(batch)
        exps = [ins] + ([dele] if deleted else [])
        q = self.options(q, exps, {"ttl": 1, "timestamp": ("insert",)})
        if rng.random() < 0.2:
            q = q.if_not_exists()
            ins.if_not_exists = True
        if rng.random() < 0.5 and batch is None and not ins.if_not_exists and ins.ttl is None and ins.timestamp is None:
            sp.model.create(**kw)
        else:
            q.create(**kw)
        return exps

    def gen_conditions(self, sp, q, exps_cond):
        rng = self.rng
        conds = []
        cands = [c for c in sp.data if not c.container and c.kind not in ("blob",)]
        if cands and rng.random() < 0.35:
            kw = {}
            for c in rng.sample(cands, rng.randint(1, min(3, len(cands)))):
                op = rng.choice(["eq", "eq", "eq", "gt", "lte", "ne"])
                v = gen_value(rng, c)
                kw[c.attr if op == "eq" and rng.random() < 0.8 else c.attr + "__" + op] = v
                conds.append((("col", c.field), SYMBOL[op], c.col.to_database(v)))
            if rng.random() < 0.5 or len(kw) == 1:
                q = q.iff(**kw)
            else:
                items = list(kw.items())
                q = q.iff(**dict(items[:1])).iff(**dict(items[1:]))
        for e in exps_cond:
            e.conds = list(conds)
        return q, conds

    def case_qs_update(self, sp, batch=None):
        rng = self.rng
        upd = Exp("update", sp.table)
        dele = Exp("delete", sp.table)
        dele.attr_of_field = dict((c.field, c.attr) for c in sp.cols)
        q = sp.model.objects if batch is None else sp.model.objects.batch(batch)
        filters = self.key_filters(sp, full=True)
        if rng.random() < 0.15 and sp.ck:
            a, _, _ = filters[-1]
            filters[-1] = (a, "in", [gen_value(rng, sp.ck[-1]) for _ in range(rng.randint(1, 3))])
        where = []
        steps = ["filters", "conds", "opts"]
        rng.shuffle(steps)
        conds = []
        for s in steps:
            if s == "filters":
                q = self.apply_filters(q, sp, filters, where)
            elif s == "conds":
                q, conds = self.gen_conditions(sp, q, [upd])
            else:
                q = self.options(q, [upd], {"ttl": 1, "timestamp": ("update",)})
        if not conds and rng.random() < 0.15:
            q = q.if_exists()
            upd.if_exists = dele.if_exists = True
        upd.where = list(where)
        dele.where = list(where)
        kw = {}
        updated_fields = set()
        cands = list(sp.data)
        rng.shuffle(cands)
        for c in cands[:rng.randint(1, len(cands))]:
            r = rng.random()
            todb = c.col.to_database
            if r < 0.15:
                kw[c.attr] = None
                dele.del_fields.append(("col", c.field))
                continue
            if not c.container:
                v = gen_value(rng, c)
                kw[c.attr] = v
                upd.assigns.append(("set", c.field, None, todb(v)))
                updated_fields.add(c.field)
                continue
            v = gen_value(rng, c)
            if c.container == "set":
                op = rng.choice([None, "add", "remove"])
                if op is None:
                    upd.assigns.append(("set", c.field, None, todb(v)))
                elif v:
                    upd.assigns.append(("add" if op == "add" else "sub", c.field, None, todb(v)))
            elif c.container == "list":
                op = rng.choice([None, "append", "prepend"])
                if op is None:
                    upd.assigns.append(("set", c.field, None, todb(v)))
                elif v:
                    upd.assigns.append(("add" if op == "append" else "prepend", c.field, None, todb(v)))
            else:
                op = rng.choice([None, "update", "remove"])
                if op is None:
                    upd.assigns.append(("set", c.field, None, todb(v)))
                elif op == "update":
                    dv = todb(v)
                    for k2, v2 in dv.items():
                        upd.assigns.append(("put", c.field, k2, v2))
                    if not v:
                        upd.empty_map_delta.add(c.field)
                else:
                    v = set(v.keys())
                    if v:
                        upd.assigns.append(("sub", c.field, None, set(c.col.key_col.to_database(x) for x in v)))
                    else:
                        upd.empty_map_delta.add(c.field)
            kw[c.attr if op is None else c.attr + "__" + op] = v
            if any(a[1] == c.field for a in upd.assigns) or c.field in upd.empty_map_delta:
                updated_fields.add(c.field)
        items = list(kw.items())
        rng.shuffle(items)
        mentioned = set(sp.by_attr[k.split("__")[0]].field for k, v in kw.items() if v is not None)
        dele.conds = [x for x in conds if x[0][1] not in mentioned]
        dele.conds_optional = [x for x in conds if x[0][1] in mentioned]
        q.update(**dict(items))
        exps = []
        if upd.assigns or upd.empty_map_delta:
            exps.append(upd)
            upd.optional_statement = not upd.assigns      # only empty map deltas requested: no statement is the right answer
        if dele.del_fields:
            exps.append(dele)
        return exps

    def case_qs_delete(self, sp, batch=None):
        rng = self.rng
        dele = Exp("delete", sp.table)
        q = sp.model.objects if batch is None else sp.model.objects.batch(batch)
        filters = self.key_filters(sp, full=rng.random() < 0.7)
        if rng.random() < 0.2 and len(filters) > len(sp.pk):
            a, _, _ = filters[-1]
            filters[-1] = (a, rng.choice(["gt", "lte", "in"]), None)
            a, op, _ = filters[-1]
            c = sp.by_attr[a]
            filters[-1] = (a, op, [gen_value(rng, c) for _ in range(2)] if op == "in" else gen_value(rng, c))
        steps = ["filters", "conds", "opts"]
        rng.shuffle(steps)
        conds = []
        for s in steps:
            if s == "filters":
                q = self.apply_filters(q, sp, filters, dele.where)
            elif s == "conds":
                q, conds = self.gen_conditions(sp, q, [dele])
            else:
                q = self.options(q, [dele], {"timestamp": ("delete",)})
        if not conds and rng.random() < 0.15:
            q = q.if_exists()
            dele.if_exists = True
        q.delete()
        return [dele]

    def case_instance_delete(self, sp, batch=None):
        rng = self.rng
        dele = Exp("delete", sp.table)
        kw = {}
        # the WHERE must restrict exactly the instance's non-None primary-key columns; a None clustering suffix is the documented
        # way to ask for a range delete (control)
        n_set = len(sp.ck) if rng.random() < 0.85 else rng.randint(0, len(sp.ck))
        for i, c in enumerate(sp.pk + sp.ck):
            if c.role == "ck" and i - len(sp.pk) >= n_set:
                if rng.random() < 0.5:
                    kw[c.attr] = None
                continue
            kw[c.attr] = gen_value(rng, c)
            dele.where.append((("col", c.field), "=", c.col.to_database(kw[c.attr])))
        inst = sp.model(**kw)
        if batch is not None:
            inst = inst.batch(batch)
        if rng.random() < 0.2:
            inst = inst.if_exists()
            dele.if_exists = True
        elif rng.random() < 0.2:
            cands = [c for c in sp.data if not c.container and c.kind != "blob"]
            if cands:
                c = rng.choice(cands)
                v = gen_value(rng, c)
                inst = inst.iff(**{c.attr: v})
                dele.conds.append((("col", c.field), "=", c.col.to_database(v)))
        if rng.random() < 0.2:
            ts = rng.randint(1, 2 ** 50)
            inst = inst.timestamp(ts)
            dele.timestamp = ts
        inst.delete()
        return [dele]

    def case_instance_update(self, sp, batch=None):
        """a loaded instance (built by the mapper's own result construction) whose columns are re-assigned - lists as new + previous,
        previous + new, new + previous + new, shrunk, rewritten; sets / maps partially changed; scalars; None - then save() / update()"""
        rng = self.rng
        row, cur = {}, {}
        for c in sp.cols:
            if c.role in ("pk", "ck"):
                v = gen_value(rng, c)
            elif c.container:
                v = gen_value(rng, c, allow_empty=rng.random() < 0.2)
            else:
                v = gen_value(rng, c) if rng.random() < 0.8 else None
            row[c.field] = v
            cur[c.attr] = v
        inst = sp.model._construct_instance(row)
        upd, dele = Exp("update", sp.table), Exp("delete", sp.table)
        full = [(("col", c.field), "=", c.col.to_database(cur[c.attr])) for c in sp.pk + sp.ck]
        part = [(("col", c.field), "=", c.col.to_database(cur[c.attr])) for c in sp.pk]
        for e in (upd, dele):
            e.where, e.where_static_only = list(full), list(part)
            e.static_fields = set(c.field for c in sp.cols if c.role == "static")
        changes = {}
        cands = list(sp.data)
        rng.shuffle(cands)
        lists = [c for c in cands if c.container == "list"]
        chosen = (lists[:1] if lists and rng.random() < 0.7 else []) + cands[:rng.randint(1, min(4, len(cands)))]
        for c in chosen:
            if c.attr in changes:
                continue
            old = cur[c.attr]
            todb = c.col.to_database
            fresh = lambda: gen_value(rng, c, allow_empty=False)
            if rng.random() < 0.12:
                new = None
            elif not c.container:
                new = gen_value(rng, c)
                if new == old:
                    continue        # an equal value (0.0 / -0.0, Decimal('0') / Decimal('0.0')) is no change for the mapper
            elif c.container == "list":
                r = rng.random()
                new = (fresh() + old if r < 0.3 else old + fresh() if r < 0.5 else fresh() + old + fresh() if r < 0.7 else
                       old[:-1] if (r < 0.8 and old) else fresh() if r < 0.9 else [])
            elif c.container == "set":
                new = set(old)
                for _ in range(rng.randint(1, 2)):
                    if new and rng.random() < 0.5:
                        new.discard(rng.choice(sorted(new, key=repr)))
                    else:
                        new |= fresh()
                if rng.random() < 0.1:
                    new = set()
            else:
                new = derive(rng, c, old) if rng.random() < 0.6 else fresh()
                if rng.random() < 0.5:
                    new.update(fresh())
                if rng.random() < 0.1:
                    new = {}
            if c.container and new is not None and new == old:
                continue
            changes[c.attr] = new
            if new is None or (c.container and not new):
                if old is None or (c.container and not old):
                    if new is None and old is None:
                        del changes[c.attr]
                        continue
                dele.del_fields.append(("col", c.field))
                if c.container in ("list", "set") and new is not None:
                    upd.semantic.append((c.field, c.container, todb(old) if old else None, None))
            elif not c.container:
                upd.assigns.append(("set", c.field, None, todb(new)))
            else:
                upd.semantic.append((c.field, c.container, todb(old) if old else None, todb(new)))
                if c.container == "map":
                    for k in sorted((k for k in (old or {}) if k not in new), key=repr):
                        dele.del_fields.append(("elem", c.field, c.col.key_col.to_database(k)))
        if not changes:
            return []
        target = inst.batch(batch)
        items = list(changes.items())
        rng.shuffle(items)
        if rng.random() < 0.35:
            target.update(**dict(items))
        else:
            for a, v in items:
                setattr(inst, a, v)
            if rng.random() < 0.5:
                target.save()
            else:
                target.update()
        upd.optional_statement = not upd.assigns and all(not ops_expected(x) for x in upd.semantic)
        exps = []
        if upd.assigns or upd.semantic:
            exps.append(upd)
        if dele.del_fields:
            exps.append(dele)
        return exps

    def run_api_case(self, sp, kind):
        n0 = len(self.seen)
        fn = {"create": self.case_create, "qs_update": self.case_qs_update, "qs_delete": self.case_qs_delete,
              "inst_delete": self.case_instance_delete, "inst_update": self.case_instance_update}[kind]
        exps = fn(sp)
        got = self.seen[n0:]
        return self.pair(got, exps), kind

    @staticmethod
    def pair(got, exps):
        """pair the intercepted statements with the expectations (one statement each, same order); an expectation whose
        statement may legitimately be absent is dropped when the count does not fit"""
        if len(got) != len(exps):
            exps2 = [e for e in exps if not getattr(e, "optional_statement", False)]
            if len(got) == len(exps2):
                exps = exps2
        out = []
        for i in range(max(len(got), len(exps))):
            text, params = got[i] if i < len(got) else (None, None)
            out.append((text, params, [exps[i]] if i < len(exps) else []))
        return out

    def case_batch(self, sp_pool):
        rng = self.rng
        bt = rng.choice([None, None, self.Q.BatchType.Unlogged])
        ts = None
        kw = {}
        if bt:
            kw["batch_type"] = bt
        if rng.random() < 0.2:
            ts = datetime.datetime(2021, 1, 1) + datetime.timedelta(seconds=rng.randint(0, 10 ** 7))
            kw["timestamp"] = ts
        b = self.Q.BatchQuery(**kw)
        n0 = len(self.seen)
        exps = []
        for _ in range(rng.randint(1, 6)):
            sp = rng.choice(sp_pool)
            kind = rng.choice(["create", "qs_update", "qs_update", "qs_delete", "inst_delete", "inst_update", "inst_update"])
            fn = {"create": self.case_create, "qs_update": self.case_qs_update, "qs_delete": self.case_qs_delete,
                  "inst_delete": self.case_instance_delete, "inst_update": self.case_instance_update}[kind]
            exps += fn(sp, batch=b)
        if len(self.seen) != n0:
            return [(self.seen[n0][0], self.seen[n0][1], None)], "batch"      # something was executed outside the batch
        if rng.random() < 0.5:
            b.execute()
        else:
            with b:
                pass
        got = self.seen[n0:]
        bexp = {"type": "unlogged" if bt else "logged", "timestamp": "any" if ts else None, "statements": exps}
        if not got and all(e.optional_statement for e in exps):
            return [], "batch"
        if len(got) != 1:
            return [(None, None, bexp)], "batch"
        return [(got[0][0], got[0][1], bexp)], "batch"

    # ---- directly constructed statement objects -------------------------------------------------------
    def case_direct(self, sp):
        rng, ST, OPS = self.rng, self.ST, self.OPS
        table = "%s.%s" % ('"%s"' % sp.table[0] if sp.table[0] != sp.table[0].lower() else sp.table[0], sp.table[1])
        kind = rng.choice(["insert", "update", "update", "delete", "select"])
        exp = Exp(kind, sp.table)
        opmap = {"=": OPS.EqualsOperator, ">": OPS.GreaterThanOperator, ">=": OPS.GreaterThanOrEqualOperator, "<": OPS.LessThanOperator,
                 "<=": OPS.LessThanOrEqualOperator, "!=": OPS.NotEqualsOperator}

        def where_clauses():
            out = []
            for c in sp.pk + sp.ck[:rng.randint(0, len(sp.ck))]:
                sym = rng.choice(["=", "=", "=", ">", "<=", "in"]) if c.role == "ck" else rng.choice(["=", "=", "in"])
                if sym == "in":
                    v = [c.col.to_database(gen_value(rng, c)) for _ in range(rng.randint(1, 3))]
                    out.append(ST.WhereClause(c.field, OPS.InOperator(), v))
                    exp.where.append((("col", c.field), "in", v))
                else:
                    v = c.col.to_database(gen_value(rng, c))
                    out.append(ST.WhereClause(c.field, opmap[sym](), v))
                    exp.where.append((("col", c.field), sym, v))
            if rng.random() < 0.15:
                c = rng.choice(sp.data)
                out.append(ST.IsNotNullClause(c.field))
                exp.where.append((("col", c.field), "is not null", None))
            rng.shuffle(out)
            return out

        def cond_clauses():
            out = []
            cands = [c for c in sp.data if not c.container]
            for c in rng.sample(cands, rng.randint(0, min(2, len(cands)))):
                v = c.col.to_database(gen_value(rng, c))
                out.append(ST.ConditionalClause(c.field, v))
                exp.conds.append((("col", c.field), "=", v))
            return out
        ttl = rng.choice([None, None, 5, rng.randint(1, 10 ** 5)])
        ts = rng.choice([None, None, rng.randint(1, 2 ** 50)])
        if kind == "insert":
            assigns = []
            for c in sp.cols:
                if c.role in ("pk", "ck") or rng.random() < 0.5:
                    v = c.col.to_database(gen_value(rng, c, allow_empty=False))
                    assigns.append(ST.AssignmentClause(c.field, v))
                    exp.insert.append((c.field, v))
            ine = rng.random() < 0.3
            if rng.random() < 0.5:
                st = ST.InsertStatement(table, assignments=assigns, ttl=ttl, timestamp=ts, if_not_exists=ine)
            else:
                st = ST.InsertStatement(table, ttl=ttl, timestamp=ts, if_not_exists=ine)
                for a in assigns:
                    st._add_assignment_clause(a)
            exp.ttl, exp.timestamp, exp.if_not_exists = ttl, ts, ine
        elif kind == "update":
            conds = cond_clauses()
            ife = (not conds) and rng.random() < 0.2
            order = rng.random()
            st = ST.UpdateStatement(table, where=where_clauses() if order < 0.5 else None, ttl=ttl, timestamp=ts,
                                    conditionals=conds if rng.random() < 0.5 else None, if_exists=ife)
            if not st.conditionals:
                for cc in conds:
                    st.add_conditional_clause(cc)
            cands = list(sp.data)
            rng.shuffle(cands)
            for c in cands[:rng.randint(1, len(cands))]:
                v = gen_value(rng, c)
                if not c.container:
                    if rng.random() < 0.5:
                        st.add_update(c.col, v)
                    else:
                        st.add_assignment(c.col, v)
                    exp.assigns.append(("set", c.field, None, c.col.to_database(v)))
                    continue
                mode = rng.random()
                if mode < 0.5:
                    # (previous, value) pair: judged by effect
                    prev = rng.choice([None, gen_value(rng, c), derive(rng, c, v)])
                    if c.container == "map" and prev:
                        # keys to remove are the DELETE statement's business; here value keeps a superset / changed entries
                        pass
                    st.add_update(c.col, v, previous=prev)
                    exp.semantic.append((c.field, c.container, c.col.to_database(prev), c.col.to_database(v)))
                else:
                    ops = {"set": ["add", "remove"], "list": ["append", "prepend"], "map": ["update", "remove"]}[c.container]
                    op = rng.choice(ops)
                    if c.container == "map" and op == "remove":
                        raw = dict((k, None) for k in v)
                        st.add_update(c.col, raw, operation=op)
                        if v:
                            exp.assigns.append(("sub", c.field, None, set(c.col.key_col.to_database(k) for k in v)))
                        else:
                            exp.empty_map_delta.add(c.field)
                        continue
                    if not v:
                        v = gen_value(rng, c, allow_empty=False)
                    st.add_update(c.col, v, operation=op)
                    dv = c.col.to_database(v)
                    if c.container == "map":
                        for k2, v2 in dv.items():
                            exp.assigns.append(("put", c.field, k2, v2))
                    else:
                        exp.assigns.append(({"add": "add", "remove": "sub", "append": "add", "prepend": "prepend"}[op], c.field, None, dv))
            if rng.random() < 0.15:
                # a counter delta (the statement classes do not know the table: any column object will do)
                cc = self.C.Counter()
                cc.set_column_name("cnt%d" % rng.randint(0, 3))
                prev, val = rng.choice([None, rng.randint(-50, 50)]), rng.randint(-50, 50)
                st.add_update(cc, val, previous=prev)
                delta = val - (prev or 0)
                exp.assigns.append(("sub" if delta < 0 else "add", cc.db_field_name, None, abs(delta)))
            if order >= 0.5:
                for w in where_clauses():
                    st._add_where_clause(w)
            exp.ttl, exp.timestamp, exp.if_exists = ttl, ts, ife
            if not st.assignments:
                return [], "direct"
        elif kind == "delete":
            conds = cond_clauses()
            ife = (not conds) and rng.random() < 0.2
            fields = []
            for c in rng.sample(sp.data, rng.randint(0, len(sp.data))):
                if c.container == "map" and rng.random() < 0.6:
                    prev = gen_value(rng, c, allow_empty=False)
                    val = dict((k, v) for k, v in prev.items() if rng.random() < 0.5)
                    dp, dv = c.col.to_database(prev), c.col.to_database(val)
                    clause = ST.MapDeleteClause(c.field, dv, dp)
                    removed = [k for k in dp if k not in dv]
                    if not removed:
                        continue
                    fields.append(clause)
                    for k in removed:
                        exp.del_fields.append(("elem", c.field, k))
                else:
                    fields.append(c.field if rng.random() < 0.5 else ST.FieldDeleteClause(c.field))
                    exp.del_fields.append(("col", c.field))
            st = ST.DeleteStatement(table, fields=fields if rng.random() < 0.5 else None, where=where_clauses(), timestamp=ts,
                                    conditionals=conds, if_exists=ife)
            if not st.fields:
                for f in fields:
                    st.add_field(f)
            exp.timestamp, exp.if_exists = ts, ife
        else:
            order = []
            for c in sp.ck[:rng.randint(0, len(sp.ck))]:
                d = rng.choice(["ASC", "DESC"])
                order.append('"%s" %s' % (c.field, d))
                exp.order_by.append((c.field, d.lower()))
            fields = [c.field for c in sp.cols if rng.random() < 0.5]
            limit = rng.choice([None, 0, 1, 100, rng.randint(1, 10 ** 6)])
            af = rng.random() < 0.3
            cnt = rng.random() < 0.15
            st = ST.SelectStatement(table, fields=fields, where=where_clauses(), order_by=order, limit=limit, allow_filtering=af, count=cnt)
            exp.limit = limit or None
            exp.allow_filtering = af
            exp.count = cnt
            if fields:
                exp.sel_required = exp.sel_allowed = set(fields)
                exp.sel_star_ok = False
        base = None
        if rng.random() < 0.5:
            base = rng.choice([0, 1, 7, 100, rng.randint(0, 10 ** 4)])
            st.update_context_id(base)
        if rng.random() < 0.3:
            str(st)
            st.get_context()
            if base is not None and rng.random() < 0.5:
                base = rng.randint(0, 50)
                st.update_context_id(base)
        obs = [(str(st), st.get_context(), [exp])]
        if rng.random() < 0.5:
            if rng.random() < 0.5:
                st.get_context_size()
            obs.append((str(st), st.get_context(), [exp]))       # rendering and get_context() are repeatable
        return obs, "direct-" + kind


def ops_expected(sem):
    """does a (field, ctype, previous, value) entry need rendered operations in the UPDATE?  (a map whose only change is removed keys,
    or a column that is merely nulled, is served by the DELETE statement)"""
    f, ctype, prev, value = sem
    if value is None:
        return False
    if ctype == "map":
        return any(k not in (prev or {}) or vkey((prev or {})[k]) != vkey(v) for k, v in value.items())
    return True


def derive(rng, cs, value):
    """a 'previous' value related to ``value`` (so that partial updates are exercised)"""
    if cs.container == "set":
        v = set(value)
        for x in list(v):
            if rng.random() < 0.4:
                v.discard(x)
        for _ in range(rng.randint(0, 2)):
            v.add(gen_scalar(rng, cs.kind[4:-1]))
        return v
    if cs.container == "list":
        v = list(value)
        r = rng.random()
        if r < 0.6 and len(v) >= 1:
            i = rng.randint(0, len(v) - 1)
            j = rng.randint(i, len(v))
            return v[i:j]
        if r < 0.8:
            return v + [gen_scalar(rng, cs.kind[5:-1])]
        return list(reversed(v))
    v = dict(value)
    for k in list(v):
        r = rng.random()
        if r < 0.3:
            del v[k]
        elif r < 0.5:
            v[k] = gen_scalar(rng, cs.kind[4:-1].split(",")[1])
    return v


class QF(object):
    """a timeuuid query function used as a filter value: MinTimeUUID(dt) / MaxTimeUUID(dt) with a whole-second datetime"""
    def __init__(self, name, dt):
        self.name, self.dt = name, dt
        d = dt - datetime.datetime(1970, 1, 1)
        self.ms = (d.days * 86400 + d.seconds) * 1000

    def __repr__(self):
        return "%s(%r)" % (self.name, self.dt)


SYMBOL = {"eq": "=", "gt": ">", "gte": ">=", "lt": "<", "lte": "<=", "ne": "!=", "in": "in", "contains": "contains", "like": "like"}


# --------------------------------------------------------------------------------------------
# judging one observed (text, context, expectation)
# --------------------------------------------------------------------------------------------
def judge(ctx, M, P, text, params, exps, kind, witness):
    """exps: list with one Exp (single statement) or a dict describing a batch"""
    ctx.count("statements_judged")
    if text is None:
        ctx.violation("requested-statement-not-emitted", "%s: a requested statement was not emitted" % kind, witness)
        return
    if exps is None:
        ctx.violation("batched-request-executed-outside-the-batch", "%s: a request given a batch was executed directly" % kind, witness)
        return
    if isinstance(exps, list) and not exps:
        ctx.violation("unrequested-statement-emitted", "%s: an extra statement was emitted: %s" % (kind, text[:200]), witness)
        return
    try:
        st = P.parse(text)
    except P.StmtError as e:
        ctx.violation("rendered-statement-does-not-parse", "%s: %s" % (kind, e), witness)
        return
    if not isinstance(params, dict):
        ctx.violation("context-is-not-a-dict", "%s: parameters %r" % (kind, params), witness)
        return
    names = [m.name for m in P.markers(st) if m.style == "%("]
    other = [m for m in P.markers(st) if m.style != "%("]
    ctx.count("placeholders_seen", len(names))
    problems = []
    if other:
        problems.append(("unnamed-bind-marker", "markers %r in a cqlengine statement" % (other,)))
    if len(set(names)) != len(names):
        dup = sorted(set(n for n in names if names.count(n) > 1))
        problems.append(("placeholder-id-used-by-two-clauses", "placeholder ids %r occur more than once in the statement" % (dup,)))
    if set(names) != set(params.keys()):
        problems.append(("placeholders-and-context-keys-differ", "placeholders %r, context keys %r" % (
            sorted(set(names) - set(params)), sorted(set(params) - set(names)))))
    if not problems:
        ctx.count("placeholder_context_bijections")
    used = []
    if isinstance(exps, dict):
        if st.kind != "batch":
            problems.append(("wrong-statement-kind", "requested a batch, rendered %s" % st.kind))
        else:
            if st.type != exps["type"]:
                problems.append(("batch-type-differs", "rendered %s, requested %s" % (st.type, exps["type"])))
            if ("timestamp" in st.using) != (exps["timestamp"] is not None):
                problems.append(("using-timestamp-differs", "batch USING TIMESTAMP rendered=%s requested=%s" % ("timestamp" in st.using, exps["timestamp"])))
            want = exps["statements"]
            subs = st.statements
            if len(subs) != len(want):
                # statements that may legitimately be absent: align in order on (kind, table), dropping optional ones as needed
                def align(wi, si):
                    if wi == len(want):
                        return [] if si == len(subs) else None
                    e = want[wi]
                    if getattr(e, "optional_statement", False):
                        rest = align(wi + 1, si)
                        if rest is not None:
                            return rest
                    if si < len(subs) and subs[si].kind == e.kind and subs[si].table == e.table:
                        rest = align(wi + 1, si + 1)
                        if rest is not None:
                            return [e] + rest
                    return None
                aligned = align(0, 0)
                if aligned is not None:
                    want = aligned
            if len(subs) != len(want):
                problems.append(("batch-statement-count-differs", "the batch renders %d statements, %d were requested: %s" % (
                    len(subs), len(want), "; ".join("%s %s set=%r sem=%r del=%r opt=%s" % (e.kind, e.table[1], e.assigns, e.semantic, e.del_fields, e.optional_statement) for e in want))))
            else:
                for sub, e in zip(subs, want):
                    try:
                        problems += M.statement(sub, params, e, used)
                    except Exception as ex:
                        problems.append(("statement-and-context-cannot-be-interpreted", "comparing a batched statement with its context raised %s: %s" % (type(ex).__name__, ex)))
                ctx.count("batched_statements_judged", len(subs))
    else:
        if st.kind == "batch":
            problems.append(("wrong-statement-kind", "rendered a batch"))
        else:
            try:
                problems += M.statement(st, params, exps[0], used)
            except Exception as e:       # the statement text and its context cannot be read together: that is the finding, not a harness error
                problems.append(("statement-and-context-cannot-be-interpreted", "comparing the rendered statement with its context raised %s: %s" % (type(e).__name__, e)))
    seen = set()
    for slug, msg in problems:
        if slug in seen:
            continue
        seen.add(slug)
        ctx.violation(slug, "%s: %s" % (kind, msg), witness)
    if not problems:
        ctx.count("statements_equal_to_request")


def run(ctx):
    from vlib import shim
    shim.import_cluster()
    from vlib.run import Inconclusive
    from props._cqe_session import CqeSession
    from spec import cqllex as L
    from spec import cqlstmt as P
    L._selftest()
    P._selftest()
    ctx.rule = ("a case = one request on a generated model: a query-set chain rendered as SELECT (filters = > >= < <= in contains like, "
                "token(), several filter() calls, column expressions, only/defer/order_by/limit/allow_filtering in random order), create, "
                "query-set update (scalar, set add/remove, list append/prepend, map update/remove, whole-collection assignment, nulled columns, "
                "iff, if_exists, ttl, timestamp), query-set / instance delete, a directly built statement object (with update_context_id), or "
                "a BatchQuery of 1-6 of them; distinct by rendered text shape + values")
    ctx.assume("expected bound values are computed with the column's own to_database (C36 judges it); for CONTAINS the raw value is expected")
    ctx.assume("the select list is only required to respect only()/defer() (equality-filtered columns may be left out); DISTINCT is not generated")
    ctx.assume("USING TIMESTAMP derived from a datetime (local-time arithmetic) is only required to be present; integer timestamps must be equal")
    ctx.assume("a DELETE that accompanies an UPDATE for nulled columns may drop the conditions on columns the UPDATE assigns (documented in the code)")
    ctx.assume("requests cqlengine itself refuses (QueryException / ValidationError) are skipped; IN inside iff(), Token in iff(), static-only "
               "rows (null clustering key) and counters through the model API are not generated here (C35 drives those flows)")
    rng = ctx.rng
    n_cases = ctx.scale(16000, 700000)
    budget = 35 if ctx.quick else 270
    done = 0
    with CqeSession("c37", None, seed=ctx.seed) as h:
        from cassandra.cqlengine import columns as C, models, query as Q, statements as ST, functions as F, operators as OPS
        from cassandra.cqlengine import CQLEngineException
        drv = Driver(ctx, rng, (C, models, Q, ST, F, OPS))
        h.handler = drv.handler
        h.session.execute = lambda query, parameters=None, *a, **kw: drv.handler(query, parameters)
        M = Matcher(ctx, P, L)
        uid = (ctx.worker or 0) * 10 ** 6
        pool = []
        while done < n_cases:
            if ctx.time_left(budget) < 0:
                ctx.note("stopped by time budget after %d cases" % done)
                break
            uid += 1
            sp = build_model(rng, C, models, uid)
            pool.append(sp)
            pool = pool[-3:]
            ctx.count("models")
            for _ in range(rng.randint(8, 20)):
                kind = rng.choice(["select", "select", "select", "create", "qs_update", "qs_update", "qs_delete", "inst_delete", "inst_update", "inst_update",
                                   "direct", "direct", "batch"])
                done += 1
                try:
                    if kind == "select":
                        obs, label = drv.case_select(sp)
                    elif kind == "direct":
                        obs, label = drv.case_direct(sp)
                    elif kind == "batch":
                        obs, label = drv.case_batch(pool)
                    else:
                        obs, label = drv.run_api_case(sp, kind)
                except (Q.QueryException, CQLEngineException, ST.StatementException) as e:
                    ctx.count("requests_refused_by_cqlengine:%s" % type(e).__name__)
                    continue
                ctx.count("cases:" + label)
                key = []
                for text, params, exps in obs:
                    witness = {"request": label, "statement": (text or "")[:1500], "context": dict((k, repr(v)[:120]) for k, v in (params or {}).items()),
                               "model": dict((c.attr, "%s %s%s" % (c.kind, c.role, "" if c.field == c.attr else " db_field=%r" % c.field)) for c in sp.cols)}
                    judge(ctx, M, P, text, params, exps, label, witness)
                    key.append((text, sorted((k, repr(v)) for k, v in (params or {}).items())))
                    if len(ctx.samples) < 6 and rng.random() < 0.002:
                        ctx.sample({"request": label, "statement": text, "context": dict((k, repr(v)[:60]) for k, v in (params or {}).items())})
                ctx.case(repr(key), nontrivial=bool(obs))
        if h.harness_errors():
            raise Inconclusive("harness errors: %r" % (h.harness_errors()[:2],))
    ctx.floor_distinct = 5000 if ctx.quick else 100000
    ctx.floor_counters = {"statements_judged": 8000, "placeholder_context_bijections": 6000, "where_parts_equal_to_request": 6000,
                          "set_parts_equal_to_request": 1500, "if_parts_equal_to_request": 1500, "clause_values_compared": 20000,
                          "batched_statements_judged": 1500, "container_deltas_judged_by_effect": 300, "cases:select": 1500,
                          "statements_intercepted_at_session_execute": 3000, "delete_selections_equal_to_request": 1000, "cases:inst_update": 800, "cases:select-executed-again": 300,
                          "cases:select-executed-clone": 300}
