"""C13 - replacing an overloaded connection never abandons live requests.

Monitor: the C12 world (real Cluster/Session/HostConnection/Connection in the deterministic world) with ``max_in_flight`` = 8
and ``orphaned_threshold`` = 6 on the harness connection class.  A history drives k >= 6 client timeouts on one connection while
other requests stay pending on it (the node keeps their answers back), and interleaves the completion of the pool's replacement
(the node can keep back the new connection's handshake), answers, late answers to orphaned streams, further timeouts and new
borrows; optionally the new connection is overloaded as well (second replacement round).

Oracle
 1. at every ``close()`` of a pool connection before teardown (snapshot taken inside close(), before anything is errored): no
    handler of a non-orphaned request is still registered on it - closing it would fail live requests;
 2. once the pool has installed the replacement (``_connection`` is another connection, ``_is_replacing`` reset), every request
    started afterwards is written to a connection that is not one of the replaced ones;
 3. at quiescence, a replaced connection on which no non-orphaned request awaits an answer any more is closed;
 4. an overloaded connection (threshold reached) does get replaced: after the next borrow and a drain the pool's connection is a
    different one (also the second time);
 5. no fault is injected before teardown, so the pool must still be in service and its host up after the replacements.
"""
import random

PROPERTY = "C13"
LEVEL = "exploration"
ENGINE = "sim"
TECHNIQUE = "runtime monitor in a deterministic world: snapshot of the handler table inside close(), wire-level placement of requests after replacement, closure of the drained old connection"
LEVEL_TEXT = ("Hundreds (quick) to tens of thousands (thorough) of seeded schedules around the orphan threshold of a v3/v4 single-connection "
              "pool with an 8-id stream space: 6-7 timeouts with 0-1 live requests pending, replacement completion delayed or not, answers / "
              "late answers / further timeouts / new requests in random order and with preemption at lock acquisitions, one or two "
              "replacement rounds. Held-on-observed schedules.")
LEVEL_NOTE = ("Trusted base: sim/world.py (switches only at synchronisation points), sim/node.py, sim/s3_pool.py (close() snapshot, handshake "
              "hold). max_in_flight / orphaned_threshold are lowered on the harness connection class, nothing else in the driver is altered. "
              "A borrow that started before the replacement finished may legitimately still use (or wait for) the old connection; only "
              "requests started after the observed completion are judged by oracle 2.")
QUICK_WORKERS = 4
WORKERS = 14

K, THR = 8, 6


def run_history(ctx, seed):
    from sim.s3_pool import PoolWorld, owner_of
    from sim.scen import uid_of
    rng = random.Random(seed)
    proto = rng.choice([3, 4])
    pw = PoolWorld(seed, proto, K=K, thr=THR, nodes=1, p_preempt=rng.choice([0.0, 0.1, 0.3, 0.5]), never_convict=rng.random() < 0.3,
                   chunking=rng.random() < 0.2, timer_thread=rng.random() < 0.6)
    env, world, net, plan = pw.env, pw.world, pw.net, pw.plan
    viol = pw.viol
    steps_log = []
    info = {'seed': seed, 'proto': proto, 'rounds': 0, 'timer_thread': pw.timer_thread}
    with env:
        session = pw.start()
        rec = pw.rec
        cluster = pw.cluster
        pool = pw.pools()[0]
        pw.ch.p_time = rng.choice([0.0, 0.05, 0.15])
        kinds = {}
        started_after = {}        # uid -> frozenset of replaced connection ids known when the request was started
        uid = [0]
        SHORT, LONG = 1.0, 40.0
        replaced = []             # sim_ids of connections whose replacement was observed complete

        # bound statements for requests whose EXECUTE the node answers UNPREPARED (kept back until the scenario lets it go): the driver re-prepares
        # on whatever connection the pool hands out then and retries
        from sim.scen import uid_query
        bound = []
        saved_p_time, pw.ch.p_time = pw.ch.p_time, 0.0       # set-up, not the phase under test: no timeout-vs-answer races here
        if rng.random() < 0.6:
            for j in range(rng.randint(1, 3)):
                u = 1000 + j
                try:
                    bound.append((u, session.prepare(uid_query(u)).bind(())))
                except Exception as e:      # noqa
                    raise RuntimeError("session.prepare failed on a fresh session: %r" % (e,))
        info['bound_statements'] = len(bound)
        pw.ch.p_time = saved_p_time

        def send(kind, timeout):
            if kind == 'unprep':
                if not bound:
                    kind = 'hold'
                else:
                    u, st = bound.pop()
                    kinds[u] = 'unprep'
                    held_unprepared = lambda node, cstate, req, uid: ('hold', node.error(cstate, req, 'unprepared', 'unprepared', query_id=req['query_id'])[1])
                    plan.set(u, [held_unprepared, 'rows'])
                    observe_replacement()
                    started_after[u] = frozenset(replaced)
                    steps_log.append(('send', u, 'unprep', timeout))
                    info['unprepared'] = info.get('unprepared', 0) + 1
                    rec.execute_async(session, u, statement=st, timeout=timeout)
                    return u
            uid[0] += 1
            u = uid[0]
            kinds[u] = kind
            plan.set(u, {'rows': 'rows', 'hold': 'hold', 'late': 'hold', 'edge': 'hold', 'silent': 'silent'}[kind])
            if kind == 'edge':
                # the node's answer leaves at (about) the moment the client timeout fires: response and timeout race
                def answer(u=u):
                    for h in pw.open_held():
                        if pw.uid_of_held(h) == u:
                            h.release()
                world.add_timer(timeout + rng.choice([-3e-6, -1e-6, 0.0, 1e-6, 3e-6, 1e-5]), answer, label='node-answer')
                info['edge'] = info.get('edge', 0) + 1
            observe_replacement()
            started_after[u] = frozenset(replaced)
            steps_log.append(('send', u, kind, timeout))
            rec.execute_async(session, u, timeout=timeout)
            return u

        def observe_replacement():
            with world.inspect():
                cur = pool._connection
                if cur is None or pool._is_replacing:
                    return
                for c in pw.pool_conns():
                    if c is not cur and c.sim_id not in replaced and c.orphaned_threshold_reached and c.connected_event.is_set() and c.sim_id < cur.sim_id:
                        replaced.append(c.sim_id)

        def overload_round():
            """k >= THR timeouts on the current connection while 0-1 other requests stay pending"""
            info['rounds'] += 1
            pend = rng.choice([0, 1, 1])
            if rng.random() < 0.6:
                # first a few requests whose answers leave the node at about the client timeout: each ends answered, orphaned-and-released, or - when the
                # answer slips between the two steps of the timeout handling - in whatever state the driver leaves it
                for _ in range(rng.randint(1, 4)):
                    send('edge', SHORT)
                world.advance_to(world.now + SHORT + 0.05)
                world.settle(advance=False)
            with world.inspect():
                cur = pool._connection
                have = len(cur.orphaned_request_ids) if cur is not None else 0
            order = ['t'] * max(1, THR - have) + ['p'] * pend
            rng.shuffle(order)
            for o in order:
                if o == 't':
                    send(rng.choice(['late', 'silent', 'late']), SHORT)
                else:
                    send(rng.choice(['hold', 'hold', 'unprep']), LONG)
                if rng.random() < 0.2:
                    world.settle(advance=False)
            world.settle(advance=False)
            if rng.random() < 0.5:
                world.advance_to(world.now + SHORT + 0.1)
            else:
                # let the timeouts fire one by one with other things in between
                world.advance_to(world.now + SHORT / 2)
                if rng.random() < 0.5:
                    release_some(['hold', 'unprep'])
                world.advance_to(world.now + SHORT / 2 + 0.1)
            steps_log.append(('overloaded', [(c.sim_id, c.in_flight, len(c.orphaned_request_ids), c.orphaned_threshold_reached) for c in pw.pool_conns() if not c.is_closed]))

        def release_some(which, n=None):
            cand = [h for h in pw.open_held() if kinds.get(pw.uid_of_held(h)) in which]
            rng.shuffle(cand)
            for h in cand[:(n if n is not None else rng.randint(1, max(1, len(cand))))]:
                steps_log.append(('release', pw.uid_of_held(h), kinds.get(pw.uid_of_held(h))))
                h.release()

        def free_step():
            r = rng.random()
            if r < 0.25:
                k = rng.choice(['rows', 'rows', 'hold', 'unprep'])
                send(k, LONG if k == 'unprep' else rng.choice([SHORT, LONG]))
            elif r < 0.45:
                release_some(['hold', 'unprep'], 1)
            elif r < 0.6:
                release_some(['late'], rng.randint(1, 3))
            elif r < 0.7:
                if pw.held_handshakes:
                    pw.hold_handshake[0] = False
                    steps_log.append(('release-handshakes', pw.release_handshakes()))
            elif r < 0.85:
                steps_log.append(('settle',))
                world.settle(advance=False)
            else:
                dt = rng.choice([0.2, 0.6, 1.1])
                steps_log.append(('advance', dt))
                world.advance_to(world.now + dt)

        rounds = rng.choice([1, 1, 2])
        for rnd in range(rounds):
            with world.inspect():
                before = pool._connection
            if before is None or pool.is_shutdown:
                break
            overload_round()
            with world.inspect():
                reached = bool(before.orphaned_threshold_reached) and not before.is_closed
            if not reached:
                info['threshold_not_reached'] = info.get('threshold_not_reached', 0) + 1
                break
            if rng.random() < 0.5:
                # late answers to some orphaned streams make room on the overloaded connection (it stays marked for replacement)
                release_some(['late'], rng.randint(1, 3))
                world.settle(advance=False)
            if rng.random() < 0.5:
                pw.hold_handshake[0] = True
            # the borrow that makes the pool notice
            trigger = send(rng.choice(['rows', 'hold', 'unprep']), LONG)
            for _ in range(rng.randint(1, 8)):
                free_step()
            pw.hold_handshake[0] = False
            pw.release_handshakes()
            world.settle(advance=False)
            world.advance_to(world.now + 2.5)          # borrowers waiting on the old connection give up after 2 s
            world.settle(advance=False)
            observe_replacement()
            # oracle 4: the overloaded connection was replaced
            with world.inspect():
                cur = pool._connection
                if not pool.is_shutdown and not before.is_defunct:
                    info['replacements_expected'] = info.get('replacements_expected', 0) + 1
                    if cur is before or cur is None or pool._is_replacing:
                        viol.append(('overloaded-connection-not-replaced', 'conn %d reached the orphan threshold (%d orphans) and a request was started afterwards, '
                                     'but after a drain the replacement is not complete: the pool uses %s, _is_replacing=%s' % (
                                         before.sim_id, len(before.orphaned_request_ids),
                                         'the same connection' if cur is before else ('no connection' if cur is None else 'conn %d' % cur.sim_id), pool._is_replacing)))
            # requests started now must go to the new connection
            for _ in range(rng.randint(1, 3)):
                send('rows', LONG)
            for _ in range(rng.randint(0, 6)):
                free_step()
            world.settle(advance=False)

        # ---------------- drain: answer everything that is still pending, let every short timeout fire
        release_some(['hold', 'unprep'], 99)
        world.settle(advance=False)
        release_some(['hold', 'unprep'], 99)          # what the retried EXECUTEs / re-prepares left behind
        world.settle(advance=False)
        world.advance_to(world.now + SHORT + 0.5)
        world.settle(advance=False)
        observe_replacement()

        with world.inspect():
            # ---------------- oracle 1: nothing live on a connection at the moment the pool closes it
            for snap in pw.closes:
                if snap['phase'] != 'run' or snap['defunct'] or snap['pool_shutdown'] or not snap['connected']:
                    continue            # teardown, failures and a connection attempt given up by Connection.factory are not replacement closes
                c = net.conns[snap['conn']]
                if c.sim_creator not in ('pool-init', 'pool-replace'):
                    continue
                info['closes_checked'] = info.get('closes_checked', 0) + 1
                if snap['pending']:
                    viol.append(('live-requests-abandoned-by-close', 'conn %d was closed by the pool while %d non-orphaned request(s) (streams %s) still awaited an answer '
                                 '(in_flight %d, %d orphans)' % (snap['conn'], len(snap['pending']), snap['pending'], snap['in_flight'], len(snap['orphans']))))
            # ---------------- oracle 2: placement of requests started after a replacement was complete
            placed = {}
            for s in plan.seen:
                placed.setdefault(s[3], s[1])             # uid -> conn of its first arrival
            for u, repl in started_after.items():
                if u in placed and repl:
                    info['placements_checked'] = info.get('placements_checked', 0) + 1
                    if placed[u] in repl:
                        viol.append(('request-sent-on-replaced-connection', 'request uid=%d was started after the replacement of conn %d had completed but was written to it' % (u, placed[u])))
            # ---------------- oracle 3: drained old connections are closed
            for cid in replaced:
                c = net.conns[cid]
                info['replaced_conns_checked'] = info.get('replaced_conns_checked', 0) + 1
                if not c.is_closed and not c._requests:
                    extra = c.in_flight - len(c.orphaned_request_ids)
                    if pw.free_and_orphaned.get(cid) and 0 < extra <= len(pw.free_and_orphaned[cid]) + info.get('edge', 0):
                        # in_flight carries units no orphan and no handler stands for, and a stream of this connection was seen free AND orphaned
                        viol.append(('timeout-racing-response-leaves-stream-free-and-orphaned', 'conn %d was replaced and nothing awaits an answer on it, but in_flight=%d '
                                     'with %d orphans: stream(s) %s were returned to the free list by process_msg (answer found no handler) and then recorded as '
                                     'orphaned by _on_timeout; the id was reused, so one orphan entry stands for two in_flight units and the trash never drains' % (
                                         cid, c.in_flight, len(c.orphaned_request_ids), sorted(pw.free_and_orphaned[cid]))))
                        continue
                    viol.append(('replaced-connection-not-closed-when-only-orphans-remain', 'conn %d was replaced, no non-orphaned request awaits an answer on it '
                                 '(in_flight %d, %d orphans, in trash: %s) but it is still open at quiescence' % (
                                     cid, c.in_flight, len(c.orphaned_request_ids), c in pool._trash)))
            # ---------------- oracle 5: nothing failed in this history (no fault is injected before teardown): replacing a connection must not cost the pool
            if pool.is_shutdown or pool.host.is_up is False:
                viol.append(('pool-shut-down-although-no-connection-failed', 'no connection failed in this history, yet after the replacement(s) the pool is_shutdown=%s '
                             'and host.is_up=%s: a connection closed on purpose by the replacement logic was taken for a connection failure' % (
                                 pool.is_shutdown, pool.host.is_up)))
            info['pool_alive_checked'] = 1
            info['replaced'] = list(replaced)
            info['duplicate_replacement_requests'] = pw.duplicate_replacements(pool)
            for c in net.conns:
                mm = pw.minmax.get(c.sim_id)
                if mm and mm[0] < 0:
                    viol.append(('in-flight-negative', 'conn %d in_flight went down to %d' % (c.sim_id, mm[0])))
        harness = pw.harness_errors()
        sig = pw.signature()
        pw.phase[0] = 'teardown'
        cluster.shutdown()
        world.settle()
        harness += pw.harness_errors()[len(harness):]
    info.update({'requests': uid[0], 'conns': len(net.conns), 'online_checks': pw.checks[0], 'trashed': len(pw.trashed),
                 'late': sum(1 for v in kinds.values() if v == 'late')})
    return viol, harness, sig, info, (steps_log, rec.events, net.events, pw.closes)


def run(ctx):
    from vlib import shim
    shim.import_cluster()
    from vlib.run import Inconclusive
    from sim.world import WorldLimit
    import gc
    ctx.rule = ("a case is one seeded history (protocol, 1-2 overload rounds of 6 timeouts + 0-1 pending requests, delayed or immediate replacement, "
                "random answers / late answers / timeouts / new requests, schedule); distinct by the event-order signature of the world trace; "
                "non-trivial = a replacement was observed")
    ctx.assume("a request that was started before the pool finished the replacement may still be written to (or wait for) the old connection")
    n = ctx.scale(900, 60000)
    budget = 44 if ctx.quick else 420
    base = ctx.seed * 1000003 + (ctx.worker or 0) * 100003
    n_min = 25 if ctx.quick else 150      # per worker, whatever the box is doing: the floors below must never depend on the load
    for i in range(n):
        if i >= n_min and ctx.time_left(budget) < 0:          # CPU-time budget (vlib/run.py), wall-clock capped
            ctx.note("stopped by time budget after %d histories" % i)
            break
        seed = base + i
        # garbage of earlier histories (Session.__del__ -> shutdown() ...) must not run inside this history's world at a moment chosen by
        # the collector: collect now, keep the cyclic collector off while the history runs (reproducibility from the seed)
        gc.collect()
        gc.disable()
        try:
            viol, harness, sig, info, hist = run_history(ctx, seed)
        except WorldLimit:
            ctx.count("histories_over_budget")
            continue
        except Exception as e:      # noqa
            raise Inconclusive("history seed %d failed in the harness: %s: %s" % (seed, type(e).__name__, e))
        finally:
            gc.enable()
        if harness:
            raise Inconclusive("harness error in history seed %d: %r" % (seed, harness[:2]))
        ctx.case(repr(sig), nontrivial=bool(info.get('replaced')))
        ctx.count("histories")
        ctx.count("requests", info['requests'])
        ctx.count("overload_rounds", info['rounds'])
        ctx.count("replacements_observed", len(info.get('replaced', [])))
        ctx.count("replacements_expected_and_checked", info.get('replacements_expected', 0))
        ctx.count("pool_closes_checked_for_live_requests", info.get('closes_checked', 0))
        ctx.count("placements_checked_after_replacement", info.get('placements_checked', 0))
        ctx.count("replaced_connections_checked_for_closure", info.get('replaced_conns_checked', 0))
        ctx.count("connections_seen_in_trash", info['trashed'])
        ctx.count("pools_checked_alive_after_replacement", info.get('pool_alive_checked', 0))
        ctx.count("late_responses", info['late'])
        ctx.count("executes_answered_unprepared", info.get('unprepared', 0))
        ctx.count("answers_racing_the_client_timeout", info.get('edge', 0))
        if info.get('timer_thread'):
            ctx.count("histories_with_timeouts_on_a_timer_thread")
        ctx.count("threshold_not_reached", info.get('threshold_not_reached', 0))
        ctx.count("invariant_evaluations_under_lock", info['online_checks'])
        if info.get('duplicate_replacement_requests'):
            ctx.count("histories_with_duplicate_replacement_request")
        seen = set()
        for mech, what in viol:
            if mech in seen:
                continue
            seen.add(mech)
            ctx.violation(mech, "%s [seed %d, v%d]" % (what, seed, info['proto']),
                          {"seed": seed, "info": info, "steps": [repr(e) for e in hist[0]][-40:], "client_history": [repr(e)[:120] for e in hist[1][-30:]],
                           "closes": hist[3][-8:]})
        if not viol and len(ctx.samples) < 4 and info.get('replaced') and info['trashed']:
            ctx.sample({"info": info, "steps": [repr(e) for e in hist[0]][:40], "closes": hist[3][-6:]})
    ctx.floor_distinct = 40 if ctx.quick else 1200
    ctx.floor_counters = {"histories": 60, "replacements_observed": 50, "pool_closes_checked_for_live_requests": 30,
                          "placements_checked_after_replacement": 60, "replaced_connections_checked_for_closure": 50, "connections_seen_in_trash": 10}
