"""Shared generator of CQL type trees and values, and the bridge between the canonical
values of spec/cqlcodec.py and the Python objects the driver consumes / returns.

Used by C01, C02, C04, C07, C30, C39.  Nothing here judges the driver; it only builds
inputs and normalises outputs (the documented normalisations: sets come back sorted, maps as
ordered maps, text as str, UDTs as named tuples, dates/times as util.Date/util.Time).
"""
import datetime
import decimal
import ipaddress
import struct
import uuid
from collections import namedtuple

from spec import cqlcodec as S

EPOCH = datetime.datetime(1970, 1, 1)
TS_MIN_MS = -62135596800000          # 0001-01-01T00:00:00.000
TS_MAX_MS = 253402300799999          # 9999-12-31T23:59:59.999

SCALARS_ALL = ['ascii', 'bigint', 'blob', 'boolean', 'date', 'decimal', 'double', 'duration', 'float', 'inet', 'int',
               'smallint', 'text', 'varchar', 'time', 'timestamp', 'timeuuid', 'tinyint', 'uuid', 'varint']

CASS = {
    'ascii': 'AsciiType', 'bigint': 'LongType', 'blob': 'BytesType', 'boolean': 'BooleanType', 'counter': 'CounterColumnType',
    'date': 'SimpleDateType', 'decimal': 'DecimalType', 'double': 'DoubleType', 'duration': 'DurationType', 'float': 'FloatType',
    'inet': 'InetAddressType', 'int': 'Int32Type', 'smallint': 'ShortType', 'text': 'UTF8Type', 'varchar': 'UTF8Type',
    'time': 'TimeType', 'timestamp': 'TimestampType', 'timeuuid': 'TimeUUIDType', 'tinyint': 'ByteType', 'uuid': 'UUIDType',
    'varint': 'IntegerType',
}
PFX = 'org.apache.cassandra.db.marshal.'


# ------------------------------------------------------------------ type trees
def gen_type(rng, depth, pv=4, allow_vector=True, allow_udt=True, counter=[0], scalars=None):
    scalars = scalars or SCALARS_ALL
    if depth <= 0 or rng.random() < 0.35:
        return (rng.choice(scalars),)
    kinds = ['list', 'set', 'map', 'tuple', 'frozen']
    if allow_udt:
        kinds.append('udt')
    if allow_vector and pv >= 3:
        kinds.append('vector')
    k = rng.choice(kinds)
    sub = lambda: gen_type(rng, depth - 1, pv, allow_vector, allow_udt, counter, scalars)
    if k in ('list', 'set'):
        return (k, sub())
    if k == 'map':
        return ('map', sub(), sub())
    if k == 'tuple':
        return ('tuple',) + tuple(sub() for _ in range(rng.randint(1, 4)))
    if k == 'frozen':
        inner = sub()
        if inner[0] in S.SCALARS or inner[0] in ('frozen', 'vector'):
            return inner       # Cassandra never wraps scalars or vectors (never multi-cell) in FrozenType
        return ('frozen', inner)
    if k == 'udt':
        counter[0] += 1
        nf = rng.randint(1, 4)
        names = rng.sample(['a', 'b', 'c', 'd', 'e', 'f_1', 'Zz', 'x y', '1st', 'class'], nf)
        # mostly fresh type names, but regularly the SAME (keyspace, name) with a different shape: the driver keeps a
        # per-name class cache (a type that was dropped and re-created with other field types must not decode stale)
        r = rng.random()
        if r < 0.25:
            # same name, same field names, same OUTER field kinds, different inner parameters (list<int> vs list<text>)
            return ('udt', 'ks1', rng.choice(['addr', 'udt_a']),
                    (('a', ('list', (rng.choice(scalars),))), ('b', ('map', (rng.choice(scalars),), (rng.choice(scalars),)))))
        if r < 0.35:
            # the same OUTER type (name, field names) around a NESTED user type that is re-defined under its name (ALTER TYPE
            # address ADD zip ...): the nested type's CQL name stays 'address' whatever its fields are
            inner = rng.choice([(('street', ('text',)),),
                                (('street', ('text',)), ('zip', ('int',))),
                                (('street', ('text',)), ('zip', ('text',))),
                                (('street', ('text',)), ('zip', ('int',)), ('tags', ('list', ('text',)))),
                                (('zip', ('bigint',)), ('street', ('text',)))])
            return ('udt', 'ks1', 'person', (('name', ('text',)), ('home', ('udt', 'ks1', 'address', inner))))
        uname = 'udt%d' % counter[0] if r < 0.8 else rng.choice(['addr', 'udt_a', 'udt_b'])
        return ('udt', 'ks1', uname, tuple((n, sub()) for n in names))
    if k == 'vector':
        return ('vector', sub(), rng.randint(1, 4))
    raise AssertionError(k)


def is_nested(t):
    return S.strip(t)[0] not in S.SCALARS


def type_depth(t):
    t = S.strip(t)
    k = t[0]
    if k in S.SCALARS:
        return 0
    if k in ('list', 'set'):
        return 1 + type_depth(t[1])
    if k == 'map':
        return 1 + max(type_depth(t[1]), type_depth(t[2]))
    if k == 'tuple':
        return 1 + max(type_depth(x) for x in t[1:])
    if k == 'udt':
        return 1 + max(type_depth(ft) for _, ft in t[3])
    if k == 'vector':
        return 1 + type_depth(t[1])
    raise AssertionError(t)


def cass_descriptor(t):
    """Cassandra marshal-class descriptor string (what result metadata / schema tables carry)."""
    k = t[0]
    if k in CASS:
        return PFX + CASS[k]
    if k == 'list':
        return PFX + 'ListType(%s)' % cass_descriptor(t[1])
    if k == 'set':
        return PFX + 'SetType(%s)' % cass_descriptor(t[1])
    if k == 'map':
        return PFX + 'MapType(%s,%s)' % (cass_descriptor(t[1]), cass_descriptor(t[2]))
    if k == 'tuple':
        return PFX + 'TupleType(%s)' % ','.join(cass_descriptor(x) for x in t[1:])
    if k == 'frozen':
        return PFX + 'FrozenType(%s)' % cass_descriptor(t[1])
    if k == 'reversed':
        return PFX + 'ReversedType(%s)' % cass_descriptor(t[1])
    if k == 'vector':
        return PFX + 'VectorType(%s , %d)' % (cass_descriptor(t[1]), t[2])
    if k == 'udt':
        fields = ','.join('%s:%s' % (n.encode('utf-8').hex(), cass_descriptor(ft)) for n, ft in t[3])
        return PFX + 'UserType(%s,%s,%s)' % (t[1], t[2].encode('utf-8').hex(), fields)
    raise AssertionError(t)


def driver_type(t, via_descriptor=False):
    """The driver's type class for spec type ``t``."""
    from cassandra import cqltypes as C
    if via_descriptor:
        return C.lookup_casstype(cass_descriptor(t))
    k = t[0]
    if k in CASS:
        return getattr(C, CASS[k])
    if k == 'list':
        return C.ListType.apply_parameters([driver_type(t[1])])
    if k == 'set':
        return C.SetType.apply_parameters([driver_type(t[1])])
    if k == 'map':
        return C.MapType.apply_parameters([driver_type(t[1]), driver_type(t[2])])
    if k == 'tuple':
        return C.TupleType.apply_parameters([driver_type(x) for x in t[1:]])
    if k == 'frozen':
        return C.FrozenType.apply_parameters([driver_type(t[1])])
    if k == 'reversed':
        return C.ReversedType.apply_parameters([driver_type(t[1])])
    if k == 'vector':
        return C.VectorType.apply_parameters([driver_type(t[1]), t[2]], None)
    if k == 'udt':
        return C.UserType.make_udt_class(t[1], t[2], tuple(n for n, _ in t[3]), tuple(driver_type(ft) for _, ft in t[3]))
    raise AssertionError(t)


# ------------------------------------------------------------------ canonical values
def _f32(x):
    return struct.unpack('>f', struct.pack('>f', x))[0]


INT_BOUNDS = {'tinyint': 8, 'smallint': 16, 'int': 32, 'bigint': 64, 'counter': 64}
TEXT_POOL = ['', 'a', 'abc', "it's", '"q"', 'é', 'ß∂ƒ', '\U0001F600', 'a\x00b', ' ', '\n', 'x' * 70, '日本語', "''", '%s', '?']


def gen_scalar(rng, k):
    r = rng.random()
    if k in INT_BOUNDS:
        bits = INT_BOUNDS[k]
        lo, hi = -(1 << (bits - 1)), (1 << (bits - 1)) - 1
        if r < 0.4:
            return rng.choice([lo, lo + 1, hi, hi - 1, 0, 1, -1, 127, 128, -128, -129, 255, 256]) if bits > 8 else rng.choice([lo, hi, 0, 1, -1, lo + 1, hi - 1])
        if r < 0.7:
            e = rng.randint(0, bits - 2)
            return max(lo, min(hi, rng.choice([1, -1]) * ((1 << e) + rng.choice([-1, 0, 1]))))
        return rng.randint(lo, hi)
    if k == 'varint':
        if r < 0.5:
            e = rng.choice([7, 8, 15, 16, 31, 32, 63, 64, 127, 128, 255])
            return rng.choice([1, -1]) * ((1 << e) + rng.choice([-2, -1, 0, 1, 2]))
        if r < 0.6:
            return rng.choice([0, 1, -1, 127, 128, -128, -129])
        return rng.randint(-(1 << 200), 1 << 200) >> rng.randint(0, 199)
    if k in ('text', 'varchar'):
        if r < 0.6:
            return rng.choice(TEXT_POOL)
        return ''.join(chr(rng.choice([rng.randint(32, 126), rng.randint(0xa0, 0x2ff), rng.randint(0x4e00, 0x4eff), rng.randint(0x1f600, 0x1f64f)]))
                       for _ in range(rng.randint(0, 12)))
    if k == 'ascii':
        return ''.join(chr(rng.randint(0, 127)) for _ in range(rng.randint(0, 10))) if r < 0.7 else rng.choice(['', 'a', "'", 'abc'])
    if k == 'blob':
        return bytes(rng.getrandbits(8) for _ in range(rng.choice([0, 1, 2, 7, 16, 33, 33, 127, 128, 129, 300] if r < 0.5 else [0, 1, 2, 7, 16])))
    if k == 'boolean':
        return r < 0.5
    if k == 'float':
        if r < 0.3:
            return rng.choice([0.0, -0.0, 1.0, -1.5, float('inf'), float('-inf'), float('nan'), _f32(3.4028234663852886e38), _f32(1e-45)])
        return _f32(rng.uniform(-1e6, 1e6) if r < 0.7 else rng.uniform(-1, 1) * 10 ** rng.randint(-30, 30))
    if k == 'double':
        if r < 0.3:
            return rng.choice([0.0, -0.0, 1.0, -2.5, float('inf'), float('-inf'), float('nan'), 1.7976931348623157e308, 5e-324, 0.1])
        return rng.uniform(-1e9, 1e9) if r < 0.7 else rng.uniform(-1, 1) * 10 ** rng.randint(-300, 300)
    if k == 'decimal':
        if r < 0.3:
            return decimal.Decimal(rng.choice(['0', '1', '-1', '1.5', '-1.28', '1E+2', '0.000', '1E-20', '123456789012345678901234567890.123456789', '-0.1', '12700E-2', '1E+30']))
        digits = tuple(rng.randint(0, 9) for _ in range(rng.randint(1, 30)))
        if digits[0] == 0 and len(digits) > 1:
            digits = (rng.randint(1, 9),) + digits[1:]
        sign = rng.randint(0, 1) if any(digits) else 0
        return decimal.Decimal((sign, digits, rng.randint(-40, 40)))
    if k in ('uuid',):
        return uuid.UUID(int=rng.getrandbits(128))
    if k == 'timeuuid':
        return uuid.UUID(int=(rng.getrandbits(128) & ~(0xf << 76) & ~(0x3 << 62)) | (1 << 76) | (0x2 << 62))
    if k == 'inet':
        if r < 0.5:
            return bytes(rng.getrandbits(8) for _ in range(4))
        if r < 0.6:
            return rng.choice([bytes(16), bytes(15) + b'\x01', b'\x00' * 10 + b'\xff\xff' + bytes([1, 2, 3, 4]), bytes([127, 0, 0, 1]), bytes(4)])
        return bytes(rng.getrandbits(8) for _ in range(16))
    if k == 'timestamp':
        if r < 0.3:
            return rng.choice([0, 1, -1, 999, 1000, -1000, -999, TS_MIN_MS, TS_MAX_MS, TS_MIN_MS + 1, TS_MAX_MS - 1, 1700000000123, -12219292800000,
                               4102444800000, 4102444799999, 32503680000000 - 1])
        if r < 0.6:
            return rng.randint(-2 ** 41, 2 ** 42)       # ~1900..2100
        return rng.randint(TS_MIN_MS, TS_MAX_MS)
    if k == 'date':
        if r < 0.3:
            return rng.choice([0, 1, -1, -(1 << 31), (1 << 31) - 1, -719162, 2932896, 19000, -719163, 2932897])
        if r < 0.8:
            return rng.randint(-719162, 2932896)        # 0001-01-01 .. 9999-12-31
        return rng.randint(-(1 << 31), (1 << 31) - 1)
    if k == 'time':
        if r < 0.3:
            return rng.choice([0, 1, 999, 1000, 86399999999999, 86399999999000, 43200000000000, 3600 * 10 ** 9, 10 ** 9 - 1])
        return rng.randint(0, 86400 * 10 ** 9 - 1)
    if k == 'duration':
        s = rng.choice([1, -1])
        if r < 0.3:
            return rng.choice([(0, 0, 0), (1, 2, 3), (-1, -2, -3), (0, 0, 1), (0, 0, -1), (2 ** 31 - 1, 2 ** 31 - 1, 2 ** 63 - 1),
                               (-2 ** 31, -2 ** 31, -2 ** 63), (0, 0, 64), (0, 0, 63), (0, 1, 0), (12, 0, 0), (0, 0, 10 ** 9)])
        return (s * rng.randint(0, 2 ** rng.randint(0, 31) - 1), s * rng.randint(0, 2 ** rng.randint(0, 31) - 1),
                s * rng.randint(0, 2 ** rng.randint(0, 63) - 1))
    raise AssertionError(k)


def gen_value(rng, t, pv=4, null_p=0.12, top=True, size=3):
    """Canonical value of type t (never None at the top)."""
    t0 = S.strip(t)
    k = t0[0]
    if k in S.SCALARS:
        return gen_scalar(rng, k)
    nulls_ok = (pv >= 3) or not top      # v1/v2 top-level collections cannot carry null elements

    def elem(et, allow_null=True):
        if allow_null and nulls_ok and rng.random() < null_p:
            return None
        return gen_value(rng, et, max(pv, 3), null_p, False, size)
    if k == 'list':
        return [elem(t0[1]) for _ in range(rng.choice([0, 0, 1, 2, size]))]
    if k == 'set':
        out, seen = [], set()
        for _ in range(rng.choice([0, 0, 1, 2, size])):
            e = elem(t0[1])
            key = repr(canon_key(t0[1], e, loose=True))
            if key not in seen:
                seen.add(key)
                out.append(e)
        return out
    if k == 'map':
        out, seen = [], set()
        for _ in range(rng.choice([0, 0, 1, 2, size])):
            kk = elem(t0[1], allow_null=False)       # a map key is never null
            key = repr(canon_key(t0[1], kk, loose=True))
            if key not in seen:
                seen.add(key)
                out.append((kk, elem(t0[2])))
        return out
    if k == 'tuple':
        n = len(t0) - 1
        vals = [elem(x) for x in t0[1:]]
        if rng.random() < 0.15:
            vals = vals[:rng.randint(1, n)]          # short tuples are padded with nulls (an empty tuple has no encoding)
        return tuple(vals)
    if k == 'udt':
        return tuple(elem(ft) for _, ft in t0[3])
    if k == 'vector':
        return [elem(t0[1], allow_null=False) for _ in range(t0[2])]
    raise AssertionError(t)


def canon_key(t, v, loose=False):
    """Hashable, total-equality form of a canonical value (NaN == NaN, -0.0 != 0.0, decimals by digits).
    loose=True merges values Python/Cassandra comparators treat as equal (0.0/-0.0, 1.0/1.00 decimals);
    used only to keep generated set elements / map keys pairwise distinct under every comparator."""
    if v is None:
        return None
    t = S.strip(t)
    k = t[0]
    if loose:
        return _loose_key(t, v)
    if k in ('float', 'double'):
        if v != v:
            return ('nan',)
        return struct.pack('>d', v)
    if k == 'decimal':
        return ('dec',) + tuple(v.as_tuple())
    if k in S.SCALARS:
        return v
    if k in ('list', 'vector'):
        return tuple(canon_key(t[1], e) for e in v)
    if k == 'set':
        return ('set',) + tuple(sorted((canon_key(t[1], e) for e in v), key=repr))
    if k == 'map':
        return tuple((canon_key(t[1], a), canon_key(t[2], b)) for a, b in v)
    if k == 'tuple':
        ft = list(t[1:])
        vals = list(v) + [None] * (len(ft) - len(v))
        return tuple(canon_key(a, b) for a, b in zip(ft, vals))
    if k == 'udt':
        ft = [x for _, x in t[3]]
        vals = list(v) + [None] * (len(ft) - len(v))
        return tuple(canon_key(a, b) for a, b in zip(ft, vals))
    raise AssertionError(t)


def _loose_key(t, v):
    if v is None:
        return None
    t = S.strip(t)
    k = t[0]
    if k in ('float', 'double'):
        return ('nan',) if v != v else (v + 0.0 if v != 0 else 0.0)
    if k == 'decimal':
        return ('dec', str(v.normalize() if v != 0 else 0))
    if k in S.SCALARS:
        return v
    if k in ('list', 'vector'):
        return tuple(_loose_key(t[1], e) for e in v)
    if k == 'set':
        return ('set',) + tuple(sorted((_loose_key(t[1], e) for e in v), key=repr))
    if k == 'map':
        return ('map',) + tuple(sorted(((_loose_key(t[1], a), _loose_key(t[2], b)) for a, b in v), key=repr))
    ft = list(t[1:]) if k == 'tuple' else [x for _, x in t[3]]
    vals = list(v) + [None] * (len(ft) - len(v))
    return tuple(_loose_key(a, b) for a, b in zip(ft, vals))


# ------------------------------------------------------------------ canonical -> driver input
ORDERED_SETS = False     # C02 sets this: hand sets over as sequences so the element order on the wire is known


class AttrObj(object):
    def __init__(self, **kw):
        self.__dict__.update(kw)


def to_driver(rng, t, v, variants=True):
    """Python object handed to the driver for canonical value v."""
    from cassandra import util
    if v is None:
        return None
    t = S.strip(t)
    k = t[0]
    if k == 'inet':
        a = ipaddress.ip_address(bytes(v))
        return a if (variants and rng.random() < 0.3) else a.compressed
    if k == 'timestamp':
        return EPOCH + datetime.timedelta(milliseconds=v)
    if k == 'date':
        if variants and -719162 <= v <= 2932896 and rng.random() < 0.4:
            return datetime.date(1970, 1, 1) + datetime.timedelta(days=v)
        return util.Date(v)
    if k == 'time':
        if variants and v % 1000 == 0 and rng.random() < 0.3:
            us = v // 1000
            return datetime.time(us // 3600000000, us // 60000000 % 60, us // 1000000 % 60, us % 1000000)
        return util.Time(v)
    if k == 'duration':
        return util.Duration(*v)
    if k == 'blob':
        return rng.choice([bytes, bytearray])(v) if variants else bytes(v)
    if k in S.SCALARS:
        return v
    if k in ('list', 'vector'):
        items = [to_driver(rng, t[1], e, variants) for e in v]
        return tuple(items) if (variants and rng.random() < 0.3) else items
    if k == 'set':
        items = [to_driver(rng, t[1], e, variants) for e in v]
        if variants and not ORDERED_SETS and rng.random() < 0.5:
            try:
                s = set(items)
                if len(s) == len(items):
                    return s
            except TypeError:
                pass
        return items          # any sized iterable is accepted for a set column
    if k == 'map':
        # keys: plain tuples/lists only (util.OrderedMap pickles its keys; ad-hoc namedtuples do not pickle)
        pairs = [(to_driver(rng, t[1], a, False), to_driver(rng, t[2], b, variants)) for a, b in v]
        try:
            d = dict(pairs)
            if len(d) == len(pairs):
                return d
        except TypeError:
            pass
        return util.OrderedMap(pairs)
    if k == 'tuple':
        return tuple(to_driver(rng, ft, fv, variants) for ft, fv in zip(t[1:], v))
    if k == 'udt':
        names = [n for n, _ in t[3]]
        vals = [to_driver(rng, ft, fv, variants) for (_, ft), fv in zip(t[3], v)]
        r = rng.random() if variants else 0
        if r < 0.5:
            return tuple(vals)
        if r < 0.75 and all(n.isidentifier() and not n.startswith('_') for n in names):
            import keyword
            if not any(keyword.iskeyword(n) for n in names):
                return namedtuple('U', names)(*vals)
        return AttrObj(**dict(zip(names, vals)))
    raise AssertionError(t)


# ------------------------------------------------------------------ driver output -> canonical
class Mismatch(Exception):
    pass


class MapItemsKeyError(Mismatch):
    def __init__(self, msg, reencoding_differs, key_type):
        Mismatch.__init__(self, msg)
        self.reencoding_differs = reencoding_differs
        self.key_type = key_type


def contains_kind(t, kinds):
    t = S.strip(t)
    if t[0] in kinds:
        return True
    if t[0] in S.SCALARS:
        return False
    if t[0] == 'udt':
        return any(contains_kind(ft, kinds) for _, ft in t[3])
    if t[0] == 'vector':
        return contains_kind(t[1], kinds)
    return any(contains_kind(x, kinds) for x in t[1:])


def from_driver(t, x):
    """Canonical value for what the driver returned; raises Mismatch on an object of the wrong kind."""
    from cassandra import util
    if x is None:
        return None
    t = S.strip(t)
    k = t[0]
    try:
        if k in ('tinyint', 'smallint', 'int', 'bigint', 'counter', 'varint'):
            if type(x) is not int:
                raise Mismatch("expected int, got %r" % (x,))
            return x
        if k in ('text', 'varchar', 'ascii'):
            if type(x) is not str:
                raise Mismatch("expected str, got %r" % (x,))
            return x
        if k == 'blob':
            if not isinstance(x, (bytes, bytearray, memoryview)):
                raise Mismatch("expected bytes, got %r" % (x,))
            return bytes(x)
        if k == 'boolean':
            if type(x) is not bool:
                raise Mismatch("expected bool, got %r" % (x,))
            return x
        if k in ('float', 'double'):
            if type(x) is not float:
                raise Mismatch("expected float, got %r" % (x,))
            return x
        if k == 'decimal':
            if not isinstance(x, decimal.Decimal):
                raise Mismatch("expected Decimal, got %r" % (x,))
            return x
        if k in ('uuid', 'timeuuid'):
            if not isinstance(x, uuid.UUID):
                raise Mismatch("expected UUID, got %r" % (x,))
            return x
        if k == 'inet':
            return ipaddress.ip_address(x).packed
        if k == 'timestamp':
            if not isinstance(x, datetime.datetime):
                raise Mismatch("expected datetime, got %r" % (x,))
            d = x - EPOCH
            us = (d.days * 86400 + d.seconds) * 10 ** 6 + d.microseconds
            if us % 1000:
                return ('not-ms-precision', us)
            return us // 1000
        if k == 'date':
            if not isinstance(x, util.Date):
                raise Mismatch("expected util.Date, got %r" % (x,))
            return x.days_from_epoch
        if k == 'time':
            if not isinstance(x, util.Time):
                raise Mismatch("expected util.Time, got %r" % (x,))
            return x.nanosecond_time
        if k == 'duration':
            return (x.months, x.days, x.nanoseconds)
        if k in ('list', 'vector'):
            if not isinstance(x, (list, tuple)):
                raise Mismatch("expected list, got %r" % (x,))
            return [from_driver(t[1], e) for e in x]
        if k == 'set':
            return [from_driver(t[1], e) for e in x]
        if k == 'map':
            try:
                pairs = list(x.items())
            except KeyError as e:
                # classification aid only: is it the re-encoding of a decoded key that misses the index?
                reenc = False
                try:
                    reenc = any(x._serialize_key(kk) not in x._index for kk, _ in x._items)
                except Exception:
                    reenc = True      # the decoded key cannot even be re-serialized
                raise MapItemsKeyError("items() of %r raised KeyError %s" % (x, e), reenc, t[1])
            return [(from_driver(t[1], a), from_driver(t[2], b)) for a, b in pairs]
        if k == 'tuple':
            if not isinstance(x, tuple):
                raise Mismatch("expected tuple, got %r" % (x,))
            return tuple(from_driver(ft, fv) for ft, fv in zip(t[1:], x))
        if k == 'udt':
            if isinstance(x, tuple):
                vals = list(x)
            else:
                vals = [getattr(x, n) for n, _ in t[3]]
            return tuple(from_driver(ft, fv) for (_, ft), fv in zip(t[3], vals))
    except Mismatch:
        raise
    except Exception as e:
        raise Mismatch("cannot normalise %r as %s: %s: %s" % (x, k, type(e).__name__, e))
    raise AssertionError(t)


def describe(t, v):
    return {"type": S.cql_name(t), "value": repr(v)[:300]}


# ------------------------------------------------------------------ length-field boundary workloads (C01, C02)
# Collection counts and element byte sizes that sit on the boundaries of the length fields used on the wire: one signed/unsigned
# byte (127/128, 255/256: vint and varint prefixes), the v1/v2 [short] (32767/32768 = int16 vs uint16, 65535 = last value) and,
# for protocol >= 3 only, the first value beyond the [short] (65536).
BOUNDS_SMALL = (127, 128, 255, 256)
BOUNDS_BIG = (32767, 32768, 65535)
BOUNDS_OVER = (65536,)
VINT_BOUNDS = (127, 128, 16383, 16384)          # unsigned-vint size prefix of variable-width vector elements: 1/2/3 bytes


def sized_value(rng, nbytes, hashable=False, kind=None):
    """(type, canonical value) whose serialized form as a collection element / tuple field (v3+ inner layout) is exactly
    ``nbytes`` long.  ``hashable``: usable as a set element / map key (no nested multi-cell collections)."""
    kinds = ['blob', 'text', 'ascii', 'tuple']
    if not hashable:
        kinds += ['list', 'udt', 'map']
    if nbytes <= 256:
        kinds += ['varint', 'decimal']
    k = kind or rng.choice(kinds)
    if k in ('tuple', 'udt') and nbytes < 4 or k == 'list' and nbytes < 8 or k == 'map' and nbytes < 13 or k == 'decimal' and nbytes < 5:
        k = 'blob'
    fill = rng.getrandbits(8)

    def blob(n):
        return bytes([fill, 0xff]) * (n // 2) + bytes([fill]) * (n % 2)
    if k == 'blob':
        return ('blob',), blob(nbytes)
    if k == 'ascii':
        return ('ascii',), chr(33 + fill % 90) * nbytes
    if k == 'text':
        two = min(nbytes // 2, rng.choice([0, 1, 3]))        # a few 2-byte characters, the rest 1-byte
        return ('text',), '\xe9' * two + chr(33 + fill % 90) * (nbytes - 2 * two)
    if k == 'varint':
        return ('varint',), rng.choice([(1 << (8 * nbytes - 1)) - 1 - fill, -(1 << (8 * nbytes - 1)) + fill])
    if k == 'decimal':
        unscaled = rng.choice([(1 << (8 * (nbytes - 4) - 1)) - 1 - fill, -(1 << (8 * (nbytes - 4) - 1)) + fill])
        sign, digits, _ = decimal.Decimal(unscaled).as_tuple()
        return ('decimal',), decimal.Decimal((sign, digits, rng.randint(-3, 3)))
    if k == 'tuple':
        return ('tuple', ('blob',)), (blob(nbytes - 4),)
    if k == 'udt':
        return ('udt', 'ks1', 'sized_u', (('payload', ('blob',)),)), (blob(nbytes - 4),)
    if k == 'list':
        return ('frozen', ('list', ('blob',))), [blob(nbytes - 8)]
    if k == 'map':
        return ('frozen', ('map', ('tinyint',), ('blob',))), [(fill % 128, blob(nbytes - 13))]
    raise AssertionError(k)


def _small_value(rng, t, i):
    """A short value of type t (as produced by sized_value), different for different i."""
    t0 = S.strip(t)
    k = t0[0]
    if k == 'blob':
        return bytes([i, i + 1])
    if k in ('ascii', 'text'):
        return 'k%d' % i
    if k in ('varint',):
        return i
    if k == 'decimal':
        return decimal.Decimal(i)
    if k in ('tuple', 'udt'):
        return (bytes([i]),)
    if k == 'list':
        return [bytes([i])]
    if k == 'map':
        return [(i, bytes([i]))]
    raise AssertionError(k)


def wrap_inner(rng, t, v, pv):
    """Put (t, v) in a non-top-level position, where collections always use the v3+ layout."""
    w = rng.choice(['tuple', 'udt', 'list', 'mapval'] + (['vector'] if pv >= 3 else []))
    if w == 'tuple':
        return ('tuple', ('int',), t, ('text',)), (7, v, 'end')
    if w == 'udt':
        return ('udt', 'ks1', 'wrap_u', (('a', t), ('z', ('int',)))), (v, -7)
    if w == 'list':
        return ('list', ('frozen', t) if t[0] in ('list', 'set', 'map') else t), [v]
    if w == 'mapval':
        return ('map', ('int',), ('frozen', t) if t[0] in ('list', 'set', 'map') else t), [(1, v)]
    return ('vector', t, 2), [v, v]


def count_case(rng, kind, n):
    """A list / set / map with exactly n cheap elements."""
    if kind == 'list':
        et = rng.choice(['tinyint', 'boolean', 'smallint'])
        if et == 'boolean':
            vals = [bool((i * 7 + n) & 4) for i in range(n)]
        elif et == 'tinyint':
            vals = [(i * 37 + n) % 256 - 128 for i in range(n)]
        else:
            vals = [(i * 7919 + n) % 65536 - 32768 for i in range(n)]
        return ('list', (et,)), vals
    base = rng.randint(-1000, 1000)
    et = rng.choice(['int', 'bigint'] if n > 65536 else ['int', 'bigint', 'smallint'])
    if et == 'smallint':
        base = -32768
    keys = list(range(base, base + n))          # ascending: the order sets and Cassandra's maps come back in
    if kind == 'set':
        return ('set', (et,)), keys
    vt = rng.choice(['tinyint', 'boolean'])
    return ('map', (et,), (vt,)), [(kk, (i % 2 == 0) if vt == 'boolean' else (i * 31) % 256 - 128) for i, kk in enumerate(keys)]


def elemsize_case(rng, kind, nbytes):
    """A list / set / map with a small, a boundary-sized (nbytes) and another small element; kind 'mapkey' / 'mapval' puts the
    boundary-sized value in the key / value position."""
    hashable = kind in ('set', 'mapkey')
    t, big = sized_value(rng, nbytes, hashable=hashable)
    a, b = _small_value(rng, t, 1), _small_value(rng, t, 2)
    if kind == 'list':
        return ('list', t), [a, big, b]
    if kind == 'set':
        return ('set', t), [a, big, b]
    if kind == 'mapkey':
        return ('map', t, ('int',)), [(a, 1), (big, 2), (b, 3)]
    if kind == 'mapval':
        return ('map', ('int',), t), [(1, a), (2, big), (3, b)]
    raise AssertionError(kind)


def boundary_cases(rng, pv, big_counts='all', big_count_kinds=('list', 'set', 'map')):
    """Yield (cls, label, boundary, type, canonical value) for protocol version pv.

    cls 'count': collections with 127..65535(6) elements; 'elemsize': collections with one element of 127..65535(6) bytes (list,
    set, map key, map value); 'field': tuple / UDT fields of those sizes; 'vector': variable-width vector elements whose unsigned-vint
    size prefix changes width, and vector dimensions 127..256.  big_counts: 'all' = every count in BOUNDS_BIG (+BOUNDS_OVER for
    pv >= 3) for every kind in big_count_kinds; 'v1v2' = 32768 for every kind + 32767 and 65535 for one random kind each; an int =
    that many randomly chosen (kind, count) pairs."""
    over = BOUNDS_OVER if pv >= 3 else ()
    for kind in ('list', 'set', 'map'):
        for n in BOUNDS_SMALL:
            t, v = count_case(rng, kind, n)
            if rng.random() < 0.3:
                t, v = wrap_inner(rng, t, v, pv)
            yield 'count', '%s count=%d' % (S.cql_name(t), n), n, t, v
    pairs = [(kind, n) for kind in big_count_kinds for n in BOUNDS_BIG + over]
    if big_counts == 'v1v2':
        # the [short] framing: 32768 (first count an int16 reads differently) for every kind, 32767 and 65535 for one kind each
        pairs = [(kind, 32768) for kind in big_count_kinds] + [(rng.choice(big_count_kinds), 32767), (rng.choice(big_count_kinds), 65535)]
    elif big_counts != 'all':
        pairs = rng.sample(pairs, min(len(pairs), big_counts))
    for kind, n in pairs:
        t, v = count_case(rng, kind, n)
        yield 'count', '%s count=%d' % (S.cql_name(t), n), n, t, v
    for kind in ('list', 'set', 'mapkey', 'mapval'):
        for nb in BOUNDS_SMALL + BOUNDS_BIG + over:
            t, v = elemsize_case(rng, kind, nb)
            if nb not in BOUNDS_BIG and rng.random() < 0.25:
                t, v = wrap_inner(rng, t, v, pv)
            yield 'elemsize', '%s %s elem=%dB' % (kind, S.cql_name(t), nb), nb, t, v
    for nb in BOUNDS_SMALL + BOUNDS_BIG + BOUNDS_OVER:
        et, big = sized_value(rng, nb)
        if rng.random() < 0.5:
            yield 'field', 'tuple field=%dB' % nb, nb, ('tuple', ('int',), et, ('text',)), (1, big, 'tail')
        else:
            yield 'field', 'udt field=%dB' % nb, nb, ('udt', 'ks1', 'sized_w', (('a', et), ('b', ('int',)))), (big, 2)
    if pv >= 3:
        for nb in VINT_BOUNDS + BOUNDS_SMALL[2:] + BOUNDS_BIG + BOUNDS_OVER:
            et, big = sized_value(rng, nb, kind=rng.choice(['blob', 'text', 'ascii', 'tuple', 'list'] + (['varint'] if nb <= 256 else [])))
            yield 'vector', 'vector elem=%dB' % nb, nb, ('vector', et, 3), [_small_value(rng, et, 1), big, _small_value(rng, et, 2)]
        for n in BOUNDS_SMALL:
            if rng.random() < 0.5:
                yield 'vector', 'vector<int> dim=%d' % n, n, ('vector', ('int',), n), [(i * 7919) % 1000 - 500 for i in range(n)]
            else:
                yield 'vector', 'vector<text> dim=%d' % n, n, ('vector', ('text',), n), ['v%d' % i for i in range(n)]


def flat_input(rng, t, v, ordered=False):
    """Driver input for a count_case value (canonical form == driver form for int / bool scalars)."""
    if t[0] == 'list':
        return list(v)
    if t[0] == 'set':
        return list(v) if ordered or rng.random() < 0.5 else set(v)
    return dict(v)


def flat_equal(t, v, res):
    """Is ``res`` (what the driver decoded) exactly the count_case value v?  Plain equality plus exact element types: the same
    judgement as canon_key(from_driver(res)) == canon_key(v) for these types, without the per-element normaliser.  Never raises;
    callers re-run anything but an exact match through the general path, which classifies it."""
    try:
        k = t[0]
        if k == 'list':
            return type(res) is list and res == v and set(map(type, res)) == set(map(type, v))
        if k == 'set':
            back = list(res)
            return back == v and set(map(type, back)) == set(map(type, v))
        if k == 'map':
            back = list(res.items())
            return (back == v and not (set(map(type, back)) - {tuple}) and {type(a) for a, _ in back} == {type(a) for a, _ in v}
                    and {type(b) for _, b in back} == {type(b) for _, b in v})
    except Exception:
        pass
    return False
