"""C43 - schema agreement is reported only when all live nodes agree.

Monitor: the real Cluster / ControlConnection / Session run in the deterministic world on the
virtual clock.  Every node serves scripted, time-dependent snapshots of its own schema version
and of its peers' schema versions (incl. rows of hosts the driver does not know and null
versions); each snapshot also fixes what the driver believes about every host (up / down /
unknown).  The wait is entered three ways: ControlConnection.wait_for_schema_agreement called
from the application thread, and a DDL request (RESULT schema_change) through a session with
schema metadata enabled / disabled - also with the agreement poll cut short at a chosen poll by
error answers, by a reset of the connection carrying the poll, or by the client request timeout;
in other episodes some polls (varying positions and numbers) are never answered and run into the
control-connection request timeout, with convergence before or after the deadline; and episodes
with two or three overlapping waiters (application thread, DDL response path, pushed schema event,
main thread) with different budgets that serialise on the agreement lock, each judged on its own polls;
and DDL episodes (schema metadata enabled) where the metadata refresh that follows an agreeing poll fails
(schema-table read answered with an error / never answered / unparsable row / connection reset).  Every poll the driver makes is recorded at the node with
its virtual time and exactly the rows it was served; the verdict is recomputed from those polls.
"""
import random

PROPERTY = "C43"
LEVEL = "exploration"
ENGINE = "sim"
TECHNIQUE = "runtime monitor in a deterministic world: scripted time-dependent schema-version snapshots, polls recorded at the node on the virtual clock, verdict recomputed from the served polls"
LEVEL_TEXT = ("Thousands (quick) to tens of thousands (thorough) of seeded episodes (1-4 snapshots of local/peer versions and host states, wait "
              "budgets 0.3-2 s against agreement arriving before / after the budget): reported verdict == some poll served a single version among the "
              "queried node and the known peers not marked down; on disagreement polling goes on (gaps <= one poll interval) until the budget "
              "has elapsed and not beyond; ResponseFuture.is_schema_agreed of a DDL request equals that verdict, and when the poll is cut short (error answers / connection reset at "
              "poll 0-3, client timeout 0.25-0.85 s) the result never records agreement unless a poll served until then showed one. Held-on-observed episodes.")
LEVEL_NOTE = ("Trusted base: sim/world.py (virtual clock; ControlConnection._time is the world clock), sim/node.py, spec/frames.py. What the driver "
              "believes about a host is set through the documented Host.is_up attribute (True / False / None) when a snapshot becomes active. "
              "A DDL request polls the coordinator that answered it, so 'control node' in the statement is read as 'the node being polled'.")
QUICK_WORKERS = 4
WORKERS = 14

CONTROL = '127.0.0.1'
ALL_PEERS = ['127.0.0.2', '127.0.0.3', '127.0.0.4', '127.0.0.5']
STRANGER = '127.0.0.8'        # has rows in the peers tables but was never discovered by the driver
POLL = 0.2
T = lambda k: (k,)
KEYSPACE_COLS = [('keyspace_name', T('text')), ('durable_writes', T('boolean')), ('replication', ('map', T('text'), T('text')))]


def poll_versions(poll, known, ignore_state=None, count_strangers=False):
    """the reference reading of one poll: versions reported by the polled node and by every known peer not marked down"""
    vs = set()
    if poll['local'] is not None:
        vs.add(poll['local'])
    for addr, ver in poll['rows']:
        if ver is None:
            continue
        if addr not in known and not count_strangers:
            continue
        st = poll['states'].get(addr, 'unknown')
        if st == 'down' and ignore_state != 'count-down':
            continue
        if st == 'unknown' and ignore_state == 'drop-unknown':
            continue
        vs.add(ver)
    return vs


def run_history(seed):
    import uuid
    from sim.env import SimEnv
    from sim import world as W
    from sim import node as N
    from spec import frames as F
    from sim.scen import uid_of

    rng = random.Random(seed)
    random.seed(seed)
    proto = rng.choice([3, 4, 4])
    v2 = rng.random() < 0.6
    peers = ALL_PEERS[:rng.randint(1, 4)]
    with_stranger = rng.random() < 0.5
    addrs = [CONTROL] + peers + ([STRANGER] if with_stranger else [])
    known = set([CONTROL] + peers)
    ch = W.RandomChooser(random.Random(seed * 13 + 5), p_time=0.0, p_preempt=rng.choice([0.0, 0.0, 0.1]))
    env = SimEnv(ch, addresses=addrs)
    # native ports: with system.peers_v2 every peer advertises its own (often non-default) native_port and is a host (address, port) for the
    # driver; the legacy table has no port column.  (The sim net routes connections by address, which is all that is needed here.)
    port_of = dict((a, rng.choice([9042, 9043, 19042, 9142]) if (v2 and a != CONTROL) else 9042) for a in addrs)
    net_state = {'stranger_joined': False}      # the stranger joins the ring only after the driver has discovered the cluster
    import re
    PEERS_SELECT = re.compile(r"select (.+?) from system\.(peers_v2|peers)\b")
    VERS = [uuid.UUID(int=0xA0 + i) for i in range(4)]
    ep = {'active': False}
    hosts_by_addr = {}

    def snapshot_now():
        off = env.world.now - ep['t0']
        idx = 0
        for i, (o, _s) in enumerate(ep['schedule']):
            if off >= o:
                idx = i
        return idx, ep['schedule'][idx][1]

    def apply_states(snap):
        for a, st in snap['states'].items():
            h = hosts_by_addr.get(a)
            if h is not None:
                h.is_up = {'up': True, 'down': False, 'unknown': None}[st]

    def peers_answer(node, cstate, req, pm, snap):
        """rows of system.peers_v2 / system.peers as this node sees them, projected on the columns the SELECT asks for"""
        table = pm.group(2)
        all_cols = N.PEERS_V2_COLS if table == 'peers_v2' else N.PEERS_COLS
        types = dict(all_cols)
        names = [n for n, _t in all_cols] if pm.group(1).strip() == '*' else [c.strip() for c in pm.group(1).split(',')]
        for n in names:
            if n not in types:
                return node.error(cstate, req, 'invalid', 'Undefined column name %s' % n), []
        rows, served = [], []
        for a in addrs:
            if a == node.address or (a == STRANGER and not net_state['stranger_joined']):
                continue
            info = env.net.nodes[a].info
            ab = N.ip_bytes(a)
            ver = snap['versions'][a] if snap is not None else info.schema_version
            full = {'peer': ab, 'peer_port': 7000, 'native_address': ab, 'native_port': port_of[a], 'rpc_address': ab, 'host_id': info.host_id,
                    'data_center': info.dc, 'rack': info.rack, 'schema_version': ver, 'tokens': list(info.tokens), 'release_version': info.release}
            rows.append([full[n] for n in names])
            served.append((a, ver))
        return node.rows(cstate, req, [(n, types[n]) for n in names], rows, 'system', table), served

    def behaviour(node, cstate, req):
        if req['op'] != 'QUERY':
            return None
        q = ' '.join(req['query'].lower().split())
        if q.startswith('select * from system_schema.keyspaces where keyspace_name'):
            name = req['query'].split("'")[1]
            rf = ep.get('refresh_fault')
            if rf and ep.get('active') and not ep.get('refresh_fault_fired') and cstate.conn.sim_id == ep.get('ddl_conn', {}).get(ep.get('uid')):
                # the schema-table read that follows the agreeing poll of this DDL fails
                ep['refresh_fault_fired'] = True
                if rf == 'error':
                    return node.error(cstate, req, 'server', 'scripted failure of the schema read')
                if rf == 'unanswered':
                    return ('silence',)
                if rf == 'reset':
                    return ('reset',)
                return node.rows(cstate, req, KEYSPACE_COLS[:2], [[name, True]], 'system_schema', 'keyspaces')     # 'unparsable': no replication column
            return node.rows(cstate, req, KEYSPACE_COLS, [[name, True, [('class', 'org.apache.cassandra.locator.SimpleStrategy'),
                                                                         ('replication_factor', '1')]]], 'system_schema', 'keyspaces')
        if q.startswith('create keyspace') and uid_of(req['query']) is not None:
            ep.setdefault('ddl_nodes', []).append(node.address)
            ep.setdefault('ddl_conn', {})[uid_of(req['query'])] = cstate.conn.sim_id
            return node.reply(cstate, req, 'RESULT', F.body_result_schema_change(req['version'], 'CREATED', 'KEYSPACE', 'ks%d' % uid_of(req['query'])))
        pm = PEERS_SELECT.match(q)
        if pm and pm.group(2) == 'peers_v2' and not v2:
            return None                                  # default: unconfigured table
        if pm and not (ep['active'] and pm.group(1) != '*' and 'schema_version' in pm.group(1)):
            # any other read of the peers tables (node list at connect ...): the same rows, projected on the SELECT list
            return peers_answer(node, cstate, req, pm, None)[0]
        is_peers = bool(pm)
        is_local = q.startswith("select schema_version from system.local where key='local'")
        if not ep['active'] or not (is_peers or is_local):
            return None
        idx, snap = snapshot_now()
        apply_states(snap)
        fault = ep.get('fault')
        if fault and ep['fault_state'] == 0 and is_peers and len(ep['polls']) == ep['fault_at']:
            # the poll is cut short here: error answers to both poll queries, or the connection carrying the poll is reset
            ep['fault_state'] = 1
            ep['fault_node'] = node.address
            ep['fault_conn'] = cstate.conn.sim_id
            return node.error(cstate, req, 'server', 'scripted failure of the schema poll') if fault == 'error' else ('reset',)
        if fault and ep['fault_state'] == 1 and is_local and cstate.conn.sim_id == ep['fault_conn']:
            ep['fault_state'] = 2
            return node.error(cstate, req, 'server', 'scripted failure of the schema poll') if fault == 'error' else ('silence',)
        if is_peers and len(ep['polls']) in ep.get('unanswered', ()):
            # this poll is never answered: the driver's request times out (ControlConnection timeout, clamped to what is left of the wait)
            ep['polls'].append({'t': env.world.now, 'node': node.address, 'snap': idx, 'rows': [], 'states': dict(snap['states']),
                                'local': 'pending', 'unanswered': True, 'thread': env.world.cur().name, 'conn': cstate.conn.sim_id})
            return ('silence',)
        if is_peers:
            reaction, served = peers_answer(node, cstate, req, pm, snap)
            ep['polls'].append({'t': env.world.now, 'node': node.address, 'snap': idx, 'rows': served, 'states': dict(snap['states']),
                                'local': 'pending', 'thread': env.world.cur().name, 'conn': cstate.conn.sim_id})
            return reaction
        poll = ep['polls'][-1] if ep['polls'] else None
        if poll is None or poll['local'] != 'pending' or poll['node'] != node.address:
            ep['torn'] = True
            return None
        if poll['snap'] != idx:
            ep['torn'] = True
        if poll.get('unanswered'):
            poll['local'] = None
            return ('silence',)
        ver = snap['versions'][node.address]
        poll['local'] = ver
        return node.rows(cstate, req, [('schema_version', T('uuid'))], [[ver]], 'system', 'local')

    for a in addrs:
        env.net.nodes[a].behaviour = behaviour
        env.net.nodes[a].peers_v2 = v2

    def make_snapshot(agree):
        base = rng.choice(VERS)
        versions = dict((a, base) for a in addrs)
        states = dict((a, 'up') for a in addrs if a != STRANGER)
        for a in peers:
            states[a] = rng.choices(['up', 'down', 'unknown'], [5, 2, 2])[0]
        states[CONTROL] = rng.choices(['up', 'down', 'unknown'], [8, 1, 1])[0]
        kind = rng.random()
        if kind < 0.07:
            # nobody reports a version that counts
            for a in addrs:
                if rng.random() < 0.5:
                    versions[a] = None
                elif a != STRANGER:
                    states[a] = 'down'
            if agree is not None:
                return {'versions': versions, 'states': states}
        if not agree:
            # somebody differs - perhaps only nodes that do not count
            for a in rng.sample(addrs, rng.randint(1, len(addrs))):
                versions[a] = rng.choice([v for v in VERS if v != base])
        else:
            # live nodes agree; those that do not count may differ
            for a in addrs:
                if (a == STRANGER or states.get(a) == 'down') and rng.random() < 0.6:
                    versions[a] = rng.choice([v for v in VERS if v != base])
        if rng.random() < 0.1:
            versions[rng.choice(addrs)] = None
        return {'versions': versions, 'states': states}

    viol = []
    stats = {'episodes': 0, 'polls': 0, 'verdict_true': 0, 'verdict_false': 0, 'ddl_on': 0, 'ddl_off': 0, 'direct': 0, 'torn': 0,
             'polls_with_down_peer_differing': 0, 'polls_with_unknown_peer_differing': 0, 'polls_with_stranger_differing': 0,
             'polls_without_any_version': 0, 'agreement_after_budget': 0, 'agreement_on_later_poll': 0,
             'ddl_fault': 0, 'ddl_timeout': 0, 'faults_fired': 0, 'faults_fired_reset': 0, 'timeouts_fired_while_polling': 0,
             'cut_short_without_any_agreeing_poll': 0, 'polls_decided_by_peer_on_non_default_port': 0, 'polls_unanswered': 0,
             'episodes_with_unanswered_poll': 0, 'episodes_unanswered_poll_no_agreement_in_budget': 0, 'overlap_episodes': 0, 'overlap_waiters_checked': 0,
             'waiters_queued_behind_a_waiter_that_gave_up': 0, 'queued_waiters_that_then_saw_agreement': 0, 'refresh_faults_fired': 0,
             'refresh_fault_error': 0, 'refresh_fault_reset': 0, 'refresh_fault_unanswered': 0, 'refresh_fault_unparsable': 0}
    ep_log = []
    with env:
        cc_timeout = rng.choice([0.25, 0.45, 0.65])        # per-request timeout of the polls (Cluster.control_connection_timeout)
        cluster = env.cluster(protocol_version=proto, control_connection_timeout=cc_timeout, schema_event_refresh_window=0)
        session = cluster.connect()
        env.world.settle()
        with env.world.inspect():
            for h in cluster.metadata.all_hosts():
                hosts_by_addr[h.endpoint.address] = h
            if set(hosts_by_addr) != known or any(h.endpoint.port != port_of[a] for a, h in hosts_by_addr.items()):
                raise RuntimeError("discovered hosts %r, expected %r" % (sorted(str(h.endpoint) for h in hosts_by_addr.values()),
                                                                         sorted((a, port_of[a]) for a in known)))
        net_state['stranger_joined'] = True
        def overlap_episode(e):
            """two or three agreement waits that overlap in time, entered from different threads with different budgets: an application
            thread calling the wait, the response path of a DDL request (an executor thread), a pushed SCHEMA_CHANGE event (another executor
            thread; no verdict to observe), the scenario's main thread.  They serialise on the control connection's agreement lock."""
            cc = cluster.control_connection
            n = rng.choice([2, 2, 3])
            kinds = []
            for i in range(n):
                opts = ['app', 'app']
                if 'ddl' not in kinds:
                    opts.append('ddl')
                if 'event' not in kinds and i < n - 1:
                    opts.append('event')
                if i == n - 1:
                    opts.append('main')
                kinds.append(rng.choice(opts))
            small, large = [0.3, 0.5, 0.7], [0.9, 1.1, 1.5, 2.0]
            budgets = [rng.choice(small if (i == 0) == (rng.random() < 0.8) else large) for i in range(n)]
            # disagreement first; the nodes converge at some point (often between the first waiter's deadline and a later one's) or never
            sched = [(0.0, make_snapshot(False))]
            if rng.random() < 0.8:
                sched.append((0.1 + POLL * rng.randrange(0, 14), make_snapshot(True)))
            ep.clear()
            ep.update({'active': True, 't0': env.world.now, 'schedule': sched, 'polls': [], 'torn': False, 'fault': None, 'fault_state': 0})
            apply_states(sched[0][1])
            cluster.schema_metadata_enabled = rng.random() < 0.5
            t0 = ep['t0']
            waiters = []
            for i, (kind, b) in enumerate(zip(kinds, budgets)):
                w = {'kind': kind, 'budget': b, 'i': i}
                waiters.append(w)
                if kind == 'app':
                    def body(w=w):
                        w['thread'] = env.world.cur().name
                        w['t_call'] = env.world.now
                        w['verdict'] = cc.wait_for_schema_agreement(wait_time=w['budget'])
                        w['t_ret'] = env.world.now
                    env.world.spawn(body, name='app%d-%d' % (e, i))
                elif kind == 'ddl':
                    cluster.max_schema_agreement_wait = b
                    uid = seed % 100000 * 10 + e
                    w['t_call'] = env.world.now
                    w['uid'] = uid
                    f = session.execute_async("CREATE KEYSPACE /*uid=%d*/ ks%d WITH replication = {'class': 'SimpleStrategy', 'replication_factor': 1}" % (uid, uid),
                                              timeout=60.0)

                    def finished(kind_, value, f=f, w=w):
                        if 't_ret' not in w:
                            w.update(t_ret=env.world.now, verdict=f.is_schema_agreed, thread=env.world.cur().name, completed=kind_)
                    f.add_callbacks(lambda r, fin=finished: fin('result', r), lambda x, fin=finished: fin('error', x))
                elif kind == 'event':
                    cluster.max_schema_agreement_wait = b
                    w['t_call'] = env.world.now
                    env.net.nodes[CONTROL].push_event(F.body_event_schema(proto, 'CREATED', 'KEYSPACE', 'ksev%d' % e))
                else:
                    w['thread'] = 'main'
                    w['t_call'] = env.world.now
                    w['verdict'] = cc.wait_for_schema_agreement(wait_time=b)
                    w['t_ret'] = env.world.now
                    continue
                # let it get as far as it can (to its first poll, or to the lock) before the next waiter arrives, possibly a little later
                env.world.settle(advance=False)
                d = rng.choice([0.0, 0.0, 0.1, 0.3])
                if d:
                    env.world.advance_to(env.world.now + d)
            env.world.settle(until=env.world.now + 30.0)
            ep['active'] = False
            for h in hosts_by_addr.values():
                h.is_up = True
            env.world.settle(until=env.world.now + 1.0)
            stats['episodes'] += 1
            stats['overlap_episodes'] += 1
            observed = [w for w in waiters if w['kind'] != 'event']
            for w in observed:
                if 't_ret' not in w or w.get('completed') == 'error':
                    raise RuntimeError("overlapping waiter did not finish: %r" % (w,))
                if w['verdict'] is None:
                    raise RuntimeError("wait_for_schema_agreement returned None (shutdown?)")
            polls = ep['polls']
            if ep['torn'] or any(p['local'] == 'pending' for p in polls):
                stats['torn'] += 1
                return
            stats['polls'] += len(polls)
            # a waiter's polls: those its own thread sent between its call and its return over the connection it polls on (a DDL's wait polls
            # the connection that carried the request, the others the control connection; an executor thread may have served the event's wait before)
            ctrl_conn = cc._connection.sim_id
            for w in observed:
                conn = ep.get('ddl_conn', {}).get(w.get('uid')) if w['kind'] == 'ddl' else ctrl_conn
                # (the DDL's completion callback may run on the registering thread when the request finished first: its thread is not used)
                w['polls'] = [p for p in polls if (w['kind'] == 'ddl' or p['thread'] == w['thread']) and p['conn'] == conn and
                              w['t_call'] - 1e-9 <= p['t'] <= w['t_ret'] + 1e-9]
            for a in observed:
                for b_ in observed:
                    if a is not b_ and 'ddl' not in (a['kind'], b_['kind']) and a['thread'] == b_['thread'] and not (a['t_ret'] < b_['t_call'] or b_['t_ret'] < a['t_call']):
                        stats['torn'] += 1          # two waits on one executor thread with overlapping windows: polls cannot be attributed
                        return
            first_poll_of = dict((id(w), (w['polls'][0]['t'] if w['polls'] else None)) for w in observed)
            for w in observed:
                wp = w['polls']
                agreed = [len(poll_versions(p, known)) == 1 for p in wp]
                b = w['budget']
                stats['overlap_waiters_checked'] += 1
                # was it queued behind a waiter that gave up in disagreement while this one was blocked on the lock?
                behind = [o for o in waiters if o is not w and o.get('t_ret') is not None and o.get('verdict') is False and
                          w['t_call'] < o['t_ret'] <= (wp[0]['t'] if wp else w['t_ret']) + 1e-9]
                if behind:
                    stats['waiters_queued_behind_a_waiter_that_gave_up'] += 1
                    if w['verdict']:
                        stats['queued_waiters_that_then_saw_agreement'] += 1
                wit = {'seed': seed, 'episode': e, 'mode': 'overlap', 'budget': b, 'proto': proto, 'peers_v2': v2, 'known_hosts': sorted(known),
                       'waiter': dict((k, w[k]) for k in ('kind', 'budget', 'thread', 'verdict')), 'called_at': round(w['t_call'] - t0, 6),
                       'returned_at': round(w['t_ret'] - t0, 6),
                       'all_waiters': [dict((k, (round(o[k] - t0, 6) if k.startswith('t_') else o[k])) for k in ('kind', 'budget', 'thread', 'verdict', 't_call', 't_ret') if k in o)
                                       for o in waiters],
                       'own_polls': [{'at': round(p['t'] - t0, 6), 'node': p['node'], 'local': str(p['local']), 'rows': [(a, str(v)) for a, v in p['rows']],
                                      'states': p['states'], 'single_version': ag} for p, ag in zip(wp, agreed)][-12:],
                       'all_polls': [(round(p['t'] - t0, 3), p['thread']) for p in polls][-30:]}
                if not wp:
                    # it never polled: only acceptable when its whole wait ran out while it was blocked behind the others
                    if w['verdict'] or w['t_ret'] - w['t_call'] < b - 1e-3:
                        viol.append(('waiter-gave-verdict-without-polling', '%s waiter (wait %.1fs) returned %r %.3fs after it was called without a single poll of its own' % (
                            w['kind'], b, w['verdict'], w['t_ret'] - w['t_call']), wit))
                    continue
                start = wp[0]['t']
                if w['verdict'] and not agreed[-1]:
                    viol.append(('agreement-reported-on-differing-versions', '%s waiter: verdict True but its last poll served versions %r' % (
                        w['kind'], sorted(str(v) for v in poll_versions(wp[-1], known))), wit))
                elif w['verdict'] and any(agreed[:-1]):
                    viol.append(('polled-on-after-agreement', '%s waiter: a poll before its last one already served a single version' % w['kind'], wit))
                elif not w['verdict'] and any(agreed):
                    viol.append(('disagreement-reported-although-a-poll-agreed', '%s waiter: verdict False but its poll at %.2fs served a single version' % (
                        w['kind'], wp[agreed.index(True)]['t'] - t0), wit))
                if wp[-1]['t'] - start >= b + 1e-3:
                    viol.append(('polled-beyond-the-configured-wait', '%s waiter polled %.3fs after its first poll, configured wait %.1fs' % (w['kind'], wp[-1]['t'] - start, b), wit))
                if not w['verdict'] and not any(agreed):
                    if w['t_ret'] - start < b - 1e-3:
                        viol.append(('stopped-polling-before-the-wait-elapsed', '%s waiter gave up %.3fs after its first poll (%d polls), its configured wait is %.1fs' % (
                            w['kind'], w['t_ret'] - start, len(wp), b), wit))
                    gaps = [y['t'] - x['t'] for x, y in zip(wp, wp[1:])] + [w['t_ret'] - wp[-1]['t']]
                    if max(gaps) > POLL + 0.01:
                        viol.append(('polling-gap-longer-than-interval', '%s waiter: gap of %.3fs between its polls / before giving up' % (w['kind'], max(gaps)), wit))
                ep_log.append(('overlap', tuple((o['kind'], o['budget']) for o in waiters), w['i'], w['verdict'], round(w['t_call'] - t0, 3), round(w['t_ret'] - t0, 3),
                               tuple((round(p['t'] - t0, 3), p['node'], str(p['local']), tuple((a, str(v), p['states'].get(a)) for a, v in p['rows'])) for p in wp)))

        neps = rng.randint(3, 6)
        for e in range(neps):
            if e < neps - 1 and rng.random() < 0.22:
                overlap_episode(e)
                continue
            mode = rng.choice(['direct', 'direct-default', 'ddl-on', 'ddl-off', 'ddl-timeout'])
            refresh_fault = None         # ddl-on only: the metadata refresh that follows an agreeing poll fails in this way
            if e == neps - 1 and rng.random() < 0.6:
                # either fault defuncts the pool connection that carried the poll (host marked down, reconnection ...): only as the last episode
                mode = rng.choice(['ddl-fault-error', 'ddl-fault-reset', 'ddl-on', 'ddl-on'])
                if mode == 'ddl-on':
                    refresh_fault = rng.choice(['error', 'reset'])       # these, too, defunct the connection that carried the request
            elif mode == 'ddl-on' and rng.random() < 0.45:
                refresh_fault = rng.choice(['unanswered', 'unparsable'])
            cut_short = mode in ('ddl-fault-error', 'ddl-fault-reset', 'ddl-timeout')
            budget = rng.choice([0.3, 0.5, 0.7, 1.0, 1.1, 1.5, 2.0])
            req_timeout = 60.0
            if mode == 'ddl-timeout':
                req_timeout = rng.choice([0.25, 0.45, 0.65, 0.85])
                budget = max(budget, req_timeout + 0.25)
            nsnaps = rng.randint(1, 4)
            offsets = [0.0] + sorted(rng.sample([0.1 + POLL * j for j in range(12)], nsnaps - 1))
            final_agrees = rng.random() < (0.15 if cut_short else 0.6)
            schedule = []
            for i, o in enumerate(offsets):
                last = i == nsnaps - 1
                schedule.append((o, make_snapshot(final_agrees if last else (rng.random() < (0.03 if cut_short else 0.12)))))
            ep.clear()
            ep.update({'active': True, 't0': env.world.now, 'schedule': schedule, 'polls': [], 'torn': False, 'fault': None, 'fault_state': 0})
            if mode.startswith('ddl-fault'):
                ep['fault'] = 'error' if mode == 'ddl-fault-error' else 'reset'
                ep['fault_at'] = rng.choice([0, 1, 1, 2, 3])
            if not cut_short and rng.random() < 0.4:
                # some polls are never answered, in varying positions and numbers
                ep['unanswered'] = set(rng.sample(range(0, 7), rng.randint(1, 3)))
            apply_states(schedule[0][1])
            done = {}
            if mode.startswith('direct'):
                if mode == 'direct':
                    verdict = cluster.control_connection.wait_for_schema_agreement(wait_time=budget)
                else:
                    cluster.max_schema_agreement_wait = budget
                    verdict = cluster.control_connection.wait_for_schema_agreement()
                t_ret = env.world.now
            else:
                cluster.schema_metadata_enabled = (mode == 'ddl-on') or (cut_short and rng.random() < 0.5)
                cluster.max_schema_agreement_wait = budget
                uid = seed % 100000 * 10 + e
                ep['uid'] = uid
                ep['refresh_fault'] = refresh_fault
                f = session.execute_async("CREATE KEYSPACE /*uid=%d*/ ks%d WITH replication = {'class': 'SimpleStrategy', 'replication_factor': 1}" % (uid, uid),
                                          timeout=req_timeout)

                def completed(kind, value, f=f, done=done):
                    # first completion of the request: what the result records at that moment, and how many polls had been served by then
                    if 't' not in done:
                        done.update(t=env.world.now, kind=kind, flag=f.is_schema_agreed, npolls=len(ep['polls']), value=value)
                f.add_callbacks(lambda r: completed('result', r), lambda x: completed('error', x))
                env.world.settle(until=env.world.now + 30.0)
                if 't' not in done or (done['kind'] == 'error' and mode != 'ddl-timeout'):
                    raise RuntimeError("DDL request did not complete: %r" % (done,))
                verdict = f.is_schema_agreed
                t_ret = done['t']
            ep['active'] = False
            for h in hosts_by_addr.values():
                h.is_up = True
            env.world.settle(until=env.world.now + 1.0)
            stats['episodes'] += 1
            stats[{'direct': 'direct', 'direct-default': 'direct', 'ddl-on': 'ddl_on', 'ddl-off': 'ddl_off', 'ddl-fault-error': 'ddl_fault',
                   'ddl-fault-reset': 'ddl_fault', 'ddl-timeout': 'ddl_timeout'}[mode]] += 1
            polls = ep['polls']
            if mode in ('ddl-on', 'ddl-off'):
                # the request's own wait polls the connection that carried it, until the request completes (a failed metadata refresh makes the
                # driver start another refresh in the background, which polls the control connection)
                polls = [p for p in polls if p['conn'] == ep.get('ddl_conn', {}).get(ep.get('uid')) and p['t'] <= t_ret + 1e-9]
                if ep.get('refresh_fault_fired'):
                    stats['refresh_faults_fired'] += 1
                    stats['refresh_fault_' + refresh_fault] += 1
            if cut_short:
                # a schema-changing request whose agreement poll is cut short by a fault or by the client timeout: its result must not
                # record agreement unless some poll served so far showed a single version among the live nodes
                if ep['torn']:
                    stats['torn'] += 1
                    continue
                t0 = ep['t0']
                complete = [p for p in polls if p['local'] != 'pending']
                stats['polls'] += len(complete)
                agreed_at = [(p['t'], len(poll_versions(p, known)) == 1) for p in complete]
                before = [ag for (t, ag) in agreed_at[:done['npolls']]]
                fired = ep['fault_state'] > 0 if ep['fault'] else (done['kind'] == 'error')
                if ep['fault'] and fired:
                    stats['faults_fired'] += 1
                    if ep['fault'] == 'reset':
                        stats['faults_fired_reset'] += 1
                if mode == 'ddl-timeout' and fired:
                    stats['timeouts_fired_while_polling'] += 1
                if fired and not any(before):
                    stats['cut_short_without_any_agreeing_poll'] += 1
                wit = {'seed': seed, 'episode': e, 'mode': mode, 'budget': budget, 'request_timeout': req_timeout, 'proto': proto, 'peers_v2': v2,
                       'known_hosts': sorted(known), 'fault_at_poll': ep.get('fault_at'), 'fault_fired': fired, 'completed_as': done['kind'],
                       'completed_after': round(done['t'] - t0, 6), 'completion_value': repr(done['value'])[:300],
                       'is_schema_agreed_at_completion': done['flag'], 'is_schema_agreed_finally': verdict, 'polls_served_before_completion': done['npolls'],
                       'polls': [{'at': round(p['t'] - t0, 6), 'node': p['node'], 'local': str(p['local']), 'rows': [(a, str(v)) for a, v in p['rows']],
                                  'states': p['states'], 'single_version': ag} for p, (t, ag) in zip(complete, agreed_at)][-12:]}
                if done['flag'] and not any(before) and not fired:
                    viol.append(('ddl-result-records-agreement-without-any-agreeing-poll',
                                 'the request completed with is_schema_agreed True; none of the %d polls served until then showed a single version' % done['npolls'], wit))
                elif done['flag'] and not any(before):
                    viol.append(('ddl-result-records-agreement-although-poll-was-cut-short-%s' % ('by-client-timeout' if mode == 'ddl-timeout' else 'by-fault'),
                                 'the request completed (%s) after %.2fs with is_schema_agreed True; none of the %d polls served until then showed a single version' % (
                                     done['kind'], done['t'] - t0, done['npolls']), wit))
                elif verdict and not any(ag for (t, ag) in agreed_at):
                    viol.append(('ddl-result-records-agreement-without-any-agreeing-poll', 'is_schema_agreed ended up True, no poll ever showed a single version', wit))
                ep_log.append((mode, budget, req_timeout, ep.get('fault_at'), fired, done['kind'], done['flag'], verdict,
                               tuple((round(p['t'] - t0, 3), p['node'], str(p['local']), tuple((a, str(v), p['states'].get(a)) for a, v in p['rows']))
                                     for p in complete)))
                continue
            if ep['torn'] or any(p['local'] == 'pending' for p in polls) or not polls:
                stats['torn'] += 1
                continue
            stats['polls'] += len(polls)
            t0 = ep['t0']
            agreed = [not p.get('unanswered') and len(poll_versions(p, known)) == 1 for p in polls]
            n_unanswered = sum(1 for p in polls if p.get('unanswered'))
            stats['polls_unanswered'] += n_unanswered
            if n_unanswered:
                stats['episodes_with_unanswered_poll'] += 1
            for p in polls:
                if p.get('unanswered'):
                    continue
                ref = poll_versions(p, known)
                if poll_versions(p, known, 'count-down') != ref:
                    stats['polls_with_down_peer_differing'] += 1
                if poll_versions(p, known, 'drop-unknown') != ref:
                    stats['polls_with_unknown_peer_differing'] += 1
                if poll_versions(p, known, None, True) != ref:
                    stats['polls_with_stranger_differing'] += 1
                if not ref:
                    stats['polls_without_any_version'] += 1
                default_port_only = {'local': p['local'], 'states': p['states'], 'rows': [(a, v) for a, v in p['rows'] if port_of[a] == 9042]}
                if (len(poll_versions(default_port_only, known)) == 1) != (len(ref) == 1):
                    stats['polls_decided_by_peer_on_non_default_port'] += 1
            expected = any(agreed)
            wit = {'seed': seed, 'episode': e, 'mode': mode, 'budget': budget, 'proto': proto, 'peers_v2': v2, 'known_hosts': sorted(known),
                   'verdict': verdict, 'returned_after': round(t_ret - t0, 6),
                   'polls': [{'at': round(p['t'] - t0, 6), 'node': p['node'], 'local': str(p['local']), 'rows': [(a, str(v)) for a, v in p['rows']],
                              'states': p['states'], 'single_version': ag, 'answered': not p.get('unanswered')} for p, ag in zip(polls, agreed)][-12:],
                   'control_connection_timeout': cc_timeout}
            if verdict is None:
                raise RuntimeError("wait_for_schema_agreement returned None (shutdown?)")
            ddl_off_masked = False
            if mode == 'ddl-off' and verdict is False and agreed[-1] and not any(agreed[:-1]) and t_ret - t0 < budget - 1e-3 and t_ret - polls[-1]['t'] < POLL / 2:
                # polling stopped early on a poll that shows a single version: the wait itself concluded "agreed"
                viol.append(('ddl-is-schema-agreed-false-although-poll-agreed-with-schema-metadata-disabled',
                             'DDL through a cluster with schema_metadata_enabled=False: the poll found a single version after %.2fs, is_schema_agreed is False' % (polls[-1]['t'] - t0), wit))
                ddl_off_masked = True
            if ddl_off_masked:
                pass
            elif verdict and not agreed[-1]:
                last = polls[-1]
                if last.get('unanswered'):
                    mech = 'agreement-reported-on-an-unanswered-poll'
                elif not poll_versions(last, known):
                    mech = 'agreement-reported-without-any-version'
                elif len(poll_versions(last, known, 'drop-unknown')) == 1:
                    mech = 'agreement-reported-ignoring-peer-of-unknown-state'
                elif len(poll_versions({'local': last['local'], 'states': last['states'],
                                        'rows': [(a, v) for a, v in last['rows'] if port_of[a] == 9042]}, known)) == 1:
                    mech = 'agreement-reported-ignoring-peer-on-non-default-native-port'
                else:
                    mech = 'agreement-reported-on-differing-versions'
                viol.append((mech, 'verdict True but the last poll served versions %r' % (sorted(str(v) for v in poll_versions(last, known)),), wit))
            elif not verdict and expected:
                i = agreed.index(True)
                if mode == 'ddl-on' and ep.get('refresh_fault_fired') and agreed[-1] and t_ret - t0 < budget - 1e-3:
                    mech = 'ddl-result-says-not-agreed-after-agreeing-poll-when-metadata-refresh-failed'
                elif len(poll_versions(polls[i], known, 'count-down')) != 1:
                    mech = 'disagreement-reported-counting-peer-marked-down'
                elif len(poll_versions(polls[i], known, None, True)) != 1:
                    mech = 'disagreement-reported-counting-host-not-in-metadata'
                else:
                    mech = 'disagreement-reported-although-a-poll-agreed'
                viol.append((mech, 'verdict False but poll %d (%.2fs) served a single version' % (i, polls[i]['t'] - t0), wit))
            elif verdict and any(agreed[:-1]):
                viol.append(('polled-on-after-agreement', 'a poll before the last one already served a single version', wit))
            # the wait budget on the virtual clock: no poll starts once the configured wait has elapsed (so no verdict rests on a later snapshot),
            # and an unanswered poll is given up after min(request timeout, what is left of the wait)
            if polls[-1]['t'] - t0 >= budget + 1e-3:
                viol.append(('polled-beyond-the-configured-wait', 'a poll %.3fs after the start, configured wait %.1fs%s' % (
                    polls[-1]['t'] - t0, budget, '; the verdict True rests on it' if verdict and agreed[-1] else ''), wit))
            for i, p in enumerate(polls):
                if p.get('unanswered'):
                    nxt = polls[i + 1]['t'] if i + 1 < len(polls) else t_ret
                    allowed = min(cc_timeout, max(0.0, budget - (p['t'] - t0)))
                    if nxt - p['t'] > allowed + 0.01:
                        viol.append(('poll-request-timeout-exceeds-remaining-wait', 'the unanswered poll at %.3fs was waited for %.3fs; request timeout %.2fs, %.3fs of the %.1fs wait were left' % (
                            p['t'] - t0, nxt - p['t'], cc_timeout, max(0.0, budget - (p['t'] - t0)), budget), wit))
                        break
            if not verdict and not expected:
                if t_ret - t0 < budget - 1e-3:
                    viol.append(('stopped-polling-before-the-wait-elapsed', 'gave up after %.3fs with %d polls, the configured wait is %.1fs' % (
                        t_ret - t0, len(polls), budget), wit))
                if t_ret - t0 > budget + POLL + 0.01:
                    viol.append(('gave-up-long-after-the-wait-elapsed', 'reported disagreement %.3fs after the start, the configured wait is %.1fs' % (t_ret - t0, budget), wit))
                ends = [b['t'] for b in polls[1:]] + [t_ret]
                gaps = [(e_ - a['t']) - (min(cc_timeout, max(0.0, budget - (a['t'] - t0))) if a.get('unanswered') else POLL) for a, e_ in zip(polls, ends)]
                if max(gaps) > 0.01:
                    viol.append(('polling-gap-longer-than-interval', 'a gap between polls / before giving up is %.3fs longer than the poll interval (or the request timeout of an unanswered poll)' % max(gaps), wit))
            if expected:
                stats['verdict_true'] += 1
                if agreed.index(True) > 0:
                    stats['agreement_on_later_poll'] += 1
            else:
                stats['verdict_false'] += 1
                if n_unanswered:
                    stats['episodes_unanswered_poll_no_agreement_in_budget'] += 1
                # would a later snapshot have agreed?
                if any(len(poll_versions({'local': s['versions'][polls[0]['node']], 'rows': [(a, s['versions'][a]) for a in addrs if a != polls[0]['node']],
                                          'states': s['states']}, known)) == 1 for o, s in schedule if o >= budget):
                    stats['agreement_after_budget'] += 1
            ep_log.append((mode, budget, tuple((round(p['t'] - t0, 3), p['node'], str(p['local']), tuple((a, str(v), p['states'].get(a)) for a, v in p['rows']))
                                               for p in polls), verdict))
        harness = list(env.world.errors) + [('parse', p) for p in env.net.parse_failures]
        cluster.shutdown()
        env.world.settle(until=env.world.now + 5.0)
    info = {'seed': seed, 'proto': proto, 'peers_v2': v2, 'peers': len(peers), 'stranger': with_stranger, 'episodes': neps}
    return viol, harness, stats, info, ep_log


def run(ctx):
    from vlib import shim
    shim.import_cluster()
    from vlib.run import Inconclusive
    from sim.world import WorldLimit
    ctx.rule = ("a case is one episode: entry point (direct call with wait_time / with the cluster default, DDL with schema metadata on / off), "
                "budget, and the polls the driver made (virtual offset, polled node, versions and host states served); distinct by that tuple; "
                "non-trivial = at least two nodes' versions were served")
    ctx.assume("a null schema_version is 'no version reported' (such a node neither agrees nor disagrees); a wait budget <= 0 (documented bypass) is not generated")
    ctx.assume("overlapping waiters: a waiter's configured wait is counted from its own first poll, i.e. the time it spends blocked behind another "
               "waiter on the agreement lock is not charged to it (the statement speaks of polling until the configured wait elapses; the driver "
               "starts its clock after taking the lock) - a waiter that never polls must have been blocked for its whole wait")
    ctx.assume("snapshot switches are scheduled midway between polls so that both queries of a poll see the same snapshot (torn polls are counted and skipped)")
    n = ctx.scale(100000, 60000)
    budget = 38 if ctx.quick else 300
    base = ctx.seed * 1000003 + (ctx.worker or 0) * 100003
    import time
    t_start = time.time()          # the budget counts from here (imports can be slow on a loaded machine); a minimum is always run
    for i in range(n):
        if i >= 60 and time.time() - t_start > budget:
            ctx.note("stopped by time budget after %d histories" % i)
            break
        seed = base + i
        try:
            viol, harness, stats, info, ep_log = run_history(seed)
        except WorldLimit:
            ctx.count("histories_over_budget")
            continue
        except Exception as e:
            import traceback
            raise Inconclusive("history seed %d failed in the harness: %s: %s\n%s" % (seed, type(e).__name__, e, traceback.format_exc()[-800:]))
        if harness:
            raise Inconclusive("harness error in history seed %d: %r" % (seed, harness[:2]))
        ctx.count("histories")
        for e in ep_log:
            ctx.case(repr((info['proto'], info['peers_v2'], e)), nontrivial=True)
        for k, v in (("episodes", 'episodes'), ("polls_observed", 'polls'), ("episodes_expected_agreed", 'verdict_true'),
                     ("episodes_expected_not_agreed", 'verdict_false'), ("episodes_direct_call", 'direct'), ("episodes_ddl_schema_metadata_on", 'ddl_on'),
                     ("episodes_ddl_schema_metadata_off", 'ddl_off'), ("episodes_torn_skipped", 'torn'),
                     ("polls_where_a_down_peer_differs", 'polls_with_down_peer_differing'),
                     ("polls_where_an_unknown_state_peer_decides", 'polls_with_unknown_peer_differing'),
                     ("polls_where_a_host_not_in_metadata_differs", 'polls_with_stranger_differing'),
                     ("polls_without_any_counting_version", 'polls_without_any_version'),
                     ("episodes_agreement_only_after_budget", 'agreement_after_budget'), ("episodes_agreement_on_a_later_poll", 'agreement_on_later_poll'),
                     ("episodes_ddl_with_poll_fault", 'ddl_fault'), ("episodes_ddl_with_client_timeout", 'ddl_timeout'),
                     ("poll_faults_fired", 'faults_fired'), ("poll_faults_fired_connection_reset", 'faults_fired_reset'),
                     ("client_timeouts_fired_while_polling", 'timeouts_fired_while_polling'),
                     ("ddl_cut_short_without_any_agreeing_poll", 'cut_short_without_any_agreeing_poll'),
                     ("polls_decided_by_peer_on_non_default_native_port", 'polls_decided_by_peer_on_non_default_port'),
                     ("polls_unanswered_until_request_timeout", 'polls_unanswered'), ("episodes_with_unanswered_poll", 'episodes_with_unanswered_poll'),
                     ("episodes_with_unanswered_poll_and_no_agreement_within_wait", 'episodes_unanswered_poll_no_agreement_in_budget'),
                     ("episodes_with_overlapping_waiters", 'overlap_episodes'), ("overlapping_waiters_checked", 'overlap_waiters_checked'),
                     ("waiters_queued_behind_a_waiter_that_gave_up", 'waiters_queued_behind_a_waiter_that_gave_up'),
                     ("queued_waiters_that_then_saw_agreement", 'queued_waiters_that_then_saw_agreement'),
                     ("ddl_agreed_then_metadata_refresh_failed", 'refresh_faults_fired'), ("metadata_refresh_failed_by_error_answer", 'refresh_fault_error'),
                     ("metadata_refresh_failed_by_connection_reset", 'refresh_fault_reset'), ("metadata_refresh_failed_by_timeout", 'refresh_fault_unanswered'),
                     ("metadata_refresh_failed_by_unparsable_row", 'refresh_fault_unparsable')):
            ctx.count(k, stats[v])
        seen = set()
        for mech, what, wit in viol:
            if mech in seen:
                continue
            seen.add(mech)
            ctx.violation(mech, "%s [seed %d episode %d %s budget %.1f, v%d, %s]" % (what, seed, wit['episode'], wit['mode'], wit['budget'], info['proto'],
                                                                                      'peers_v2' if info['peers_v2'] else 'peers'), wit)
        if not viol and len(ctx.samples) < 3 and ep_log:
            ctx.sample({"info": info, "episode": repr(ep_log[0])[:900]})
    ctx.floor_distinct = 500 if ctx.quick else 10000
    ctx.floor_counters = {"histories": 150, "episodes": 600, "polls_observed": 2000, "episodes_expected_agreed": 150, "episodes_expected_not_agreed": 150,
                          "episodes_direct_call": 150, "episodes_ddl_schema_metadata_on": 80, "episodes_ddl_schema_metadata_off": 80,
                          "polls_where_a_down_peer_differs": 100, "polls_where_an_unknown_state_peer_decides": 100,
                          "polls_where_a_host_not_in_metadata_differs": 50, "polls_without_any_counting_version": 20,
                          "episodes_agreement_only_after_budget": 30, "episodes_agreement_on_a_later_poll": 50,
                          "poll_faults_fired": 60, "poll_faults_fired_connection_reset": 10, "client_timeouts_fired_while_polling": 60,
                          "ddl_cut_short_without_any_agreeing_poll": 100, "polls_decided_by_peer_on_non_default_native_port": 100,
                          "polls_unanswered_until_request_timeout": 200, "episodes_with_unanswered_poll_and_no_agreement_within_wait": 60,
                          "episodes_with_overlapping_waiters": 150, "overlapping_waiters_checked": 300, "waiters_queued_behind_a_waiter_that_gave_up": 80,
                          "queued_waiters_that_then_saw_agreement": 25, "ddl_agreed_then_metadata_refresh_failed": 80,
                          "metadata_refresh_failed_by_error_answer": 5, "metadata_refresh_failed_by_connection_reset": 5,
                          "metadata_refresh_failed_by_timeout": 15, "metadata_refresh_failed_by_unparsable_row": 15}
