"""C17 - hosts are tried in query-plan order and exhaustion is reported.

Monitor: the real Cluster/Session/pool/Connection/ResponseFuture stack runs in the deterministic world against up to
4 scripted wire-level plan hosts plus one healthy bystander (the contact point, never part of a plan).  A fixed-plan
load-balancing policy yields the plan hosts in a scripted arrangement; every plan host is put into one of the states

    missing    host not in session._pools (node down at connect, or the policy reports it IGNORED)
    shut       pool.shutdown() was called, the pool is still registered
    noconn     the pool has no connection (pool._connection is None)
    busy       every stream id of the pool's connection is in use (max_in_flight lowered, held requests outstanding)
    sendfail   the connection was closed/reset by the server under the pool's feet: borrowing works, sending raises
    err_next   the node answers with an error and the statement's retry policy says RETRY_NEXT_HOST
    err_same   error -> RETRY (same host again) -> error -> RETRY_NEXT_HOST
    ok         healthy

and one statement is executed over the plan (or with explicit ``host=`` targeting).  A third family runs an idempotent
statement under a speculative execution policy: virtual time passes the speculative delay while the first host's answer
is held, so 1-2 further executions are in flight on the next usable hosts; then ONE of them answers with an error and a
scripted decision (RETRY / RETRY_NEXT_HOST / RETHROW) is applied - the error belongs to the host that sent it.
A fourth family lets the speculative timer fire while the CALLER is still inside send_request(): the first host it can
pick is busy (borrowing blocks 2 s, longer than the speculative delay) or fails at send; plan order must hold all the same
(that host is given up, the first healthy later host answers; NoHostAvailable only without one, listing every plan host).
A fifth family judges the fetch of the SECOND page of a paged result (load-balanced and host=-targeted): page 1 is served
healthily, the pool states apply to the page-2 fetch (for host= they are produced between the pages, including a pool
that disappears); the reference per fetch is the same plan walk (plan rebuilt per fetch; targeted: that host only).
A sixth family executes a bound statement: one plan host answers UNPREPARED and loses its connection while the driver's
own re-PREPARE is outstanding (state unprep_loss); it was attempted, so it must be listed when the rest of the plan is
unusable, and a healthy later host must still be reached.
A seventh family has a host's answer judged RETRY (same host) while that host is unusable by the time the retry runs
(connection lost with the answer, pool shut down while the request is outstanding, pool without connection while the
error answer is on its way): the walk continues with the next plan host and the host stays listed.  Oracle: the hosts that received
the request (node-side trace) are exactly those a reference walk over (plan, states) visits, in that order; no host
twice without a RETRY decision; the outcome is the first healthy host's row, or NoHostAvailable whose ``errors`` has
an entry with a reason of the right kind for every host of the plan and which is raised only after the plan iterator
was exhausted; with ``host=`` only that host is ever tried; ``future.attempted_hosts`` equals the node-side trace.
"""
import itertools
import random

PROPERTY = "C17"
LEVEL = "exploration"
ENGINE = "sim"
TECHNIQUE = "runtime monitor in a deterministic world: node-side host trace and NoHostAvailable.errors vs. a reference walk over (plan, pool states); state sequences enumerated"
LEVEL_TEXT = ("Thorough enumerates every sequence of the 8 pool states along plans of length 0..4 (4681 plans) plus the 8 states under explicit "
              "host targeting, each on a fresh cluster with a seeded arrangement of the hosts, 'missing' variant, protocol version and schedule, "
              "then keeps sampling; quick samples that space. For every case the hosts that received the request, the outcome, the keys and "
              "reason kinds of NoHostAvailable.errors, plan-iterator exhaustion and attempted_hosts are compared with the reference walk. "
              "Plus 100-odd speculative-execution plans (states missing/shut/noconn/ok, >= 2 healthy hosts) with a seeded choice of attempts, "
              "failing execution and decision. Exhaustive over state sequences (when every worker finishes its slice), sampled over "
              "arrangements, schedules and the speculative parameters.")
LEVEL_NOTE = ("Trusted base: sim/world.py, sim/node.py, spec/frames.py, the reference walk here. 'shut', 'noconn' are injected by calling "
              "pool.shutdown() / clearing pool._connection from the harness; 'busy' by lowering max_in_flight on the harness connection class "
              "and holding requests; everything else happens through the wire. One statement per pool-state setup, then one more explicit-host "
              "statement against the resulting state. No client timeouts (timeout=None); speculative execution only in the 'spec' family, "
              "where time is advanced explicitly and the other in-flight executions never answer.")
QUICK_WORKERS = 4
WORKERS = 14

STATES = ['missing', 'shut', 'noconn', 'busy', 'sendfail', 'err_next', 'err_same', 'ok']
CONTACT = '127.0.0.9'
SPEC_STATES = ['missing', 'shut', 'noconn', 'ok']      # no 'busy' (its 2 s borrow wait would block the timer thread), no scripted errors
SPEC_DELAY = 0.2
REPREP_STATES = ['missing', 'shut', 'noconn', 'busy', 'sendfail', 'ok']
# RETRY decided for this host's answer, yet the host is unusable when the retry runs:
#   retry_loss    the answer IS the loss of the connection (reset / close): the pool is shut down, the host marked down
#   retry_shut    the pool is shut down by the application/session while the request is outstanding (the request fails with it)
#   retry_noconn  the pool loses its connection object while the (held) error answer is on its way
RETRY_UNUSABLE = ['retry_loss', 'retry_shut', 'retry_noconn']


def all_cases():
    cases = []
    for k in range(0, 5):
        for seq in itertools.product(STATES, repeat=k):
            cases.append(('plan', seq))
    for s in STATES:
        cases.append(('host', (s,)))
    # speculative family: >= 2 healthy hosts so that a speculative execution is in flight when an earlier host answers with an error
    for k in range(2, 5):
        for seq in itertools.product(SPEC_STATES, repeat=k):
            if seq.count('ok') >= 2:
                cases.append(('spec', seq))
    # speculative timer vs. a caller that is still inside send_request(): the first host the caller can pick is busy (borrowing blocks
    # longer than the speculative delay) or fails at send; before it only hosts without a usable pool, after it anything quiet
    for npre in range(0, 3):
        for pre in itertools.product(['missing', 'shut', 'noconn'], repeat=npre):
            for x in ('busy', 'sendfail'):
                for npost in range(0, 4 - npre):
                    for post in itertools.product(SPEC_STATES, repeat=npost):
                        cases.append(('specbusy', pre + (x,) + post))
    # paged results: page 1 is served healthily, the pool states apply to the fetch of page 2 (plan rebuilt per fetch; host=: that host only)
    for k in range(1, 4):
        for seq in itertools.product(STATES, repeat=k):
            cases.append(('paged', seq))
    for s in STATES:
        cases.append(('pagedhost', (s,)))
    # bound statement; one host answers UNPREPARED and loses its connection during the re-PREPARE; the rest of the plan in quiet states
    for k in range(1, 4):
        for pos in range(k):
            for rest in itertools.product(REPREP_STATES, repeat=k - 1):
                cases.append(('reprep', rest[:pos] + ('unprep_loss',) + rest[pos:]))
                for x in RETRY_UNUSABLE:
                    cases.append(('retryfail', rest[:pos] + (x,) + rest[pos:]))
    return cases


def reference(order, states):
    """-> (arrival hosts, outcome ('ok', host) | ('nohost',), {host: reason kind}, decisions, number of errors answered)"""
    from sim.s2_common import RETRY, RETRY_NEXT_HOST
    arrivals, reasons, decisions = [], {}, []
    nerr = 0
    for h, s in zip(order, states):
        if s in ('missing', 'shut', 'noconn', 'busy', 'sendfail'):
            reasons[h] = s
            continue
        if s == 'ok':
            arrivals.append(h)
            return arrivals, ('ok', h), reasons, decisions, nerr
        if s == 'unprep_loss':
            # EXECUTE answered UNPREPARED, the connection dies while the driver's own PREPARE is outstanding: the host was attempted,
            # its error is recorded, the walk goes on
            arrivals.append(h)
            reasons[h] = 'connlost'
            continue
        if s in RETRY_UNUSABLE:
            # the host's answer (a server error, or the loss of the connection) is judged RETRY, but by the time the retry runs the host
            # cannot take the request any more: the walk goes on with the next host, the host stays recorded
            arrivals.append(h)
            decisions.append((RETRY, None))
            if s == 'retry_noconn':
                nerr += 1
            reasons[h] = 'retry-unusable'
            continue
        if s == 'err_next':
            arrivals.append(h)
            decisions.append((RETRY_NEXT_HOST, None))
            nerr += 1
        else:
            arrivals += [h, h]
            decisions += [(RETRY, None), (RETRY_NEXT_HOST, None)]
            nerr += 2
        reasons[h] = 'err'
    return arrivals, ('nohost',), reasons, decisions, nerr


def reason_kind_ok(kind, exc, err=None):
    from cassandra.connection import ConnectionException, ConnectionShutdown
    from cassandra.pool import NoConnectionsAvailable
    from sim.s2_common import rethrown_matches
    if not isinstance(exc, BaseException):
        return False
    if kind == 'missing':
        return isinstance(exc, ConnectionException) and 'marked down or removed' in str(exc)
    if kind == 'shut':
        return isinstance(exc, ConnectionException) and 'hutdown' in str(exc)
    if kind == 'shut-or-removed':     # a shut-down pool is dropped when a renewal attempt (triggered by another host going down) fails
        return isinstance(exc, ConnectionException) and ('hutdown' in str(exc) or 'marked down or removed' in str(exc))
    if kind in ('noconn', 'busy'):
        return isinstance(exc, NoConnectionsAvailable)
    if kind in ('sendfail', 'connlost'):
        return isinstance(exc, ConnectionShutdown)
    if kind == 'retry-unusable':  # either what the host answered or why the retry could not be sent, whichever was recorded last
        return isinstance(exc, (ConnectionException, NoConnectionsAvailable)) or hasattr(exc, 'summary_msg') or \
            type(exc).__name__ in ('ReadTimeout', 'WriteTimeout', 'Unavailable')
    if kind == 'unusable':       # state after an earlier statement lost the connection: shut down or already removed
        return isinstance(exc, (ConnectionException, NoConnectionsAvailable))
    if kind == 'err':
        return err is None or rethrown_matches(err, exc)
    return False


def run_case(seed, mode, states):
    from sim.env import SimEnv
    from sim import world as W
    from sim.scen import Plan, Recorder, echoed_uid, uid_query
    from sim import s2_common as C
    from vlib.run import Inconclusive
    from cassandra.cluster import ExecutionProfile, EXEC_PROFILE_DEFAULT, NoHostAvailable
    from cassandra.policies import ConstantReconnectionPolicy
    from cassandra.query import SimpleStatement

    rng = random.Random(seed)
    random.seed(seed)
    k = len(states)
    plan_addrs = ['127.0.0.%d' % (i + 1) for i in range(k)]
    order = rng.sample(plan_addrs, k)
    st_of = dict(zip(order, states))
    bystanders = [CONTACT] + (['127.0.0.8'] if mode in ('host', 'pagedhost') else [])
    addrs = plan_addrs + bystanders
    proto = rng.choice([3, 4, 4, 0x42])
    class BoundedTimeChooser(W.RandomChooser):
        """random chooser that may elect to let virtual time pass at most ``jumps_left`` times while p_time > 0 (keeps the racy
        window of the specbusy/sendfail variant from running the clock into the reconnection schedule)"""
        jumps_left = 0

        def choose(self, kind, options):
            i = W.RandomChooser.choose(self, kind, options)
            if kind == 'run' and len(options) > 1 and options[-1] == '<time>' and i == len(options) - 1:
                self.jumps_left -= 1
                if self.jumps_left <= 0:
                    self.p_time = 0.0
            return i
    ch = BoundedTimeChooser(random.Random(seed * 17 + 3), p_time=0.0, p_preempt=rng.choice([0.0, 0.0, 0.1, 0.3]))
    env = SimEnv(W.PrefixChooser([]), addresses=addrs, max_virtual_time=1.0e6)    # a few elected time jumps may land on the 5000 s reconnection schedule
    if 'busy' in states:
        env.conn_class.max_in_flight = rng.choice([3, 4])
    plan = Plan()
    prepare_loss = {'armed': False, 'how': {}}

    def behaviour(node, cstate, req):
        if req['op'] == 'PREPARE' and prepare_loss['armed'] and node.address in prepare_loss['how']:
            plan.behaviour(node, cstate, req)
            return (prepare_loss['how'][node.address],)
        return plan.behaviour(node, cstate, req)
    for nd in env.net.nodes.values():
        nd.behaviour = behaviour
    lbp = C.make_fixed_plan_policy()
    missing_how = {}
    deferred = mode == 'pagedhost'       # the targeted host must serve page 1: its state is applied between the pages
    for a, s in st_of.items():
        if s == 'missing' and not deferred:
            missing_how[a] = rng.choice(['down', 'ignored'])
            if missing_how[a] == 'down':
                env.net.nodes[a].up = False
            else:
                lbp.ignored.add(a)
    errgen = C.ErrGen(rng)
    viol, infos = [], []
    uidc = [100]
    down_seen = [False]       # a host has been marked down through a failed send in this cluster
    spent = set()             # 'sendfail' hosts a statement has reached: marked down since, pool shut down or removed

    def next_uid():
        uidc[0] += 1
        return uidc[0]

    with env:
        spec_attempts = rng.choice([1, 1, 2])
        spec_delay = SPEC_DELAY
        if mode == 'specbusy':
            spec_attempts = rng.choice([1, 2, 2, 3])
            spec_delay = rng.choice([0.2, 0.45, 0.9])         # always below the driver's 2 s borrow wait
        prof = ExecutionProfile(load_balancing_policy=lbp)
        if mode in ('spec', 'specbusy'):
            from cassandra.policies import ConstantSpeculativeExecutionPolicy
            prof = ExecutionProfile(load_balancing_policy=lbp, speculative_execution_policy=ConstantSpeculativeExecutionPolicy(spec_delay, spec_attempts))
        cluster = env.cluster(contact_points=[CONTACT], protocol_version=proto, reconnection_policy=ConstantReconnectionPolicy(5000.0),
                              execution_profiles={EXEC_PROFILE_DEFAULT: prof})
        session = C.connect_deterministically(env, cluster, ch)
        rec = Recorder(env.world)
        # ---- put the pools into their states
        with env.world.inspect():
            hosts = {}
            for a in addrs:
                try:
                    hosts[a] = lbp.host(a)
                except KeyError:
                    raise Inconclusive("host %s never reached the load-balancing policy" % a)
            for a in addrs:
                has = hosts[a] in session._pools
                if has != (st_of.get(a) != 'missing' or deferred):
                    raise Inconclusive("precondition: host %s (%s) pool present=%s" % (a, st_of.get(a), has))
        def apply_states(which):
          for a in which:
            s = st_of[a]
            if s == 'missing' and deferred:
                # the pool disappears between the pages: the server drops the connection and a (throw-away) statement runs into it,
                # which marks the host down; the session shuts the pool down and removes it
                pool = session._pools[hosts[a]]
                env.net.server_close(pool._connection, reset=rng.random() < 0.5)
                env.world.settle(advance=False)
                env.net.nodes[a].up = False
                tu = next_uid()
                with env.world.inspect():
                    rec.execute_async(session, tu, statement=SimpleStatement(uid_query(tu)), host=hosts[a], timeout=None)
                env.world.settle(advance=False)
                spent.add(a)
                down_seen[0] = True
                continue
            if s == 'unprep_loss':
                prepare_loss['how'][a] = rng.choice(['reset', 'close'])
                env.net.nodes[a].up = False          # its one connection stays; nothing renews the pool after the loss
            if s in RETRY_UNUSABLE:
                env.net.nodes[a].up = False          # nothing renews the pool afterwards
            if s in ('missing', 'ok', 'err_next', 'err_same', 'unprep_loss') or s in RETRY_UNUSABLE:
                continue
            pool = session._pools[hosts[a]]
            if s == 'shut':
                pool.shutdown()
                # any host going down later makes the session renew shut-down pools of hosts it believes up
                # (Session.update_created_pools): keep the state stable by letting the node refuse new connections
                env.net.nodes[a].up = False
            elif s == 'noconn':
                c = pool._connection
                pool._connection = None
                c.close()
            elif s == 'sendfail':
                env.net.server_close(pool._connection, reset=rng.random() < 0.5)
                env.world.settle(advance=False)
                env.net.nodes[a].up = False      # no resurrection by a concurrent pool renewal once the failed send marked the host down
            elif s == 'busy':
                conn = pool._connection
                for _ in range(conn.max_request_id):
                    fu = next_uid()
                    plan.set(fu, 'hold')
                    rec.execute_async(session, fu, statement=SimpleStatement(uid_query(fu)), host=hosts[a], timeout=None)
            env.world.settle(advance=False)

        def check_states(which):
          with env.world.inspect():
            for a in which:
                s = st_of[a]
                if s == 'missing':
                    if deferred and not C.unusable_addresses(session, lbp, [a]):
                        raise Inconclusive("precondition: the pool of %s did not disappear between the pages" % a)
                    continue
                pool = session._pools.get(hosts[a])
                okpre = pool is not None
                if okpre and s == 'shut':
                    okpre = pool.is_shutdown
                elif okpre and s == 'noconn':
                    okpre = pool._connection is None and not pool.is_shutdown
                elif okpre and s == 'sendfail':
                    okpre = pool._connection is not None and (pool._connection.is_closed or pool._connection.is_defunct) and not pool.is_shutdown
                elif okpre and s == 'busy':
                    okpre = pool._connection.in_flight >= pool._connection.max_request_id
                elif okpre:
                    okpre = not pool.is_shutdown and pool._connection is not None and not pool._connection.is_closed
                if not okpre:
                    raise Inconclusive("precondition: could not put host %s into state %s" % (a, s))

        prepared = None
        if mode == 'reprep':
            pu = next_uid()          # prepared while every pool is still healthy (session.prepare walks the hosts itself)
            prepared = (pu, session.prepare(uid_query(pu)))
            env.world.settle(advance=False)
        if not deferred:
            apply_states(order)
            check_states(order)

        def one_statement(tag, target, order_, states_, paged=False):
            """run one statement over (order_, states_) [plan mode] or against ``target`` [host mode] and judge it.
            paged: the first page is served by a healthy host first; what is judged is the fetch of the second page."""
            uid = next_uid() if (prepared is None or tag != 'main') else prepared[0]
            arrivals, outcome, reasons, decisions, nerr = reference(order_, states_)
            if deferred:
                reasons = dict((h_, 'unusable' if k_ == 'missing' else k_) for h_, k_ in reasons.items())
            reached = states_ if outcome[0] == 'nohost' else states_[:list(order_).index(outcome[1])]
            if any(s_ in ('sendfail', 'unprep_loss', 'retry_loss', 'retry_shut') for s_ in reached):
                down_seen[0] = True
            for h_, s_ in zip(order_, reached):
                if s_ in ('sendfail', 'unprep_loss', 'retry_loss', 'retry_shut'):
                    spent.add(h_)
            errs = [errgen.make(rng.choice(C.SERVER_KINDS)) for _ in range(nerr)]
            # if the driver goes on after the decisions end, the extra arrivals are answered with errors and RETHROW
            extra = [errgen.make('overloaded') for _ in range(3)]
            from sim.scen import ECHO_COLS
            page1 = [lambda node, cstate, req, uid_: node.rows(cstate, req, ECHO_COLS, [[uid_, node.address]], 'ks', 't', paging_state=b'page-2')] if paged else []
            walk_acts, it_ = [], iter(errs)
            for s_ in states_:
                if s_ == 'err_next':
                    walk_acts.append(next(it_)['action'])
                elif s_ == 'err_same':
                    walk_acts += [next(it_)['action'], next(it_)['action']]
                elif s_ == 'unprep_loss':
                    walk_acts.append('unprepared')
                elif s_ == 'retry_loss':
                    walk_acts.append(rng.choice(['reset', 'close']))
                elif s_ == 'retry_shut':
                    walk_acts.append('hold')
                elif s_ == 'retry_noconn':
                    a_ = next(it_)['action']
                    walk_acts.append(('hold-error', a_[1], a_[2]))
                elif s_ == 'ok':
                    break
            plan.set(uid, page1 + walk_acts + (['rows'] if outcome[0] == 'ok' else [e['action'] for e in extra]))
            pol = C.make_oracle_retry_policy(script=list(decisions) + ([(C.RETRY_NEXT_HOST, None)] * 2 if target is not None else []))
            stm = SimpleStatement(uid_query(uid), retry_policy=pol, consistency_level=rng.choice(C.CLS))
            if prepared is not None and tag == 'main':
                stm = prepared[1].bind(())
                stm.retry_policy = pol
                stm.consistency_level = rng.choice(C.CLS)
                prepare_loss['armed'] = True
            m_wire = len(env.net.wire_log)
            n_outs = n_att = 0
            page1_problem = None
            if paged:
                with env.world.inspect():
                    if target is None:
                        lbp.order = [CONTACT]
                        fut = rec.execute_async(session, uid, statement=stm, timeout=None)
                    else:
                        lbp.order = [a for a in addrs if a != target]
                        fut = rec.execute_async(session, uid, statement=stm, timeout=None, host=hosts[target])
                env.world.settle(advance=False)
                with env.world.inspect():
                    o1 = rec.outcomes(uid)
                    if len(o1) != 1 or o1[0][0] != 'cb' or not fut.has_more_pages:
                        page1_problem = 'first page: outcomes %r, has_more_pages=%r' % ([(o[0], repr(o[3])[:80]) for o in o1], fut.has_more_pages)
                    n_outs, n_att = len(o1), len(fut.attempted_hosts)
                if deferred and page1_problem is None:
                    apply_states([target])
                    check_states([target])
            m_seen, m_plans = len(plan.seen), len(lbp.plans)
            with env.world.inspect():      # callbacks registered before any answer can be processed
                if page1_problem is not None:
                    pass
                elif paged:
                    lbp.order = list(order_) if target is None else [a for a in addrs if a != target]
                    fut.start_fetching_next_page()
                elif target is None:
                    lbp.order = list(order_)
                    fut = rec.execute_async(session, uid, statement=stm, timeout=None)
                else:
                    lbp.order = [a for a in addrs if a != target]       # would be used if host= were ignored
                    fut = rec.execute_async(session, uid, statement=stm, timeout=None, host=hosts[target])
            env.world.advance_to(env.world.now + 2.2 * (states_.count('busy') + 1) * 2 + 1.0)
            env.world.settle(advance=False)
            # the request now waits on a host whose answer is held: make that host unusable, then let the answer (if any) through
            for hld in list(env.net.held):
                if hld.done or hld.req.get('query') != uid_query(uid):
                    continue
                a_ = hld.node.address
                pool_ = session._pools.get(hosts[a_])
                if st_of.get(a_) == 'retry_shut' and pool_ is not None:
                    hld.drop()
                    pool_.shutdown()             # closes the connection: the outstanding request fails with it
                elif st_of.get(a_) == 'retry_noconn' and pool_ is not None:
                    pool_._connection = None
                    hld.release()
                else:
                    continue
                env.world.advance_to(env.world.now + 2.2 * (states_.count('busy') + 1) * 2 + 1.0)
                env.world.settle(advance=False)
            lbp.order = None
            with env.world.inspect():
                seen = [s_[0] for s_ in plan.seen[m_seen:] if s_[3] == uid]
                outs = rec.outcomes(uid)[n_outs:]
                info = dict(seed=seed, statement=tag, proto=proto, mode=('paged-' if paged else '') + ('host' if target is not None else 'plan'),
                            plan=list(order_), states=list(states_),
                            missing_how=dict(missing_how), target=target, hosts_that_received=seen, expected_hosts=arrivals,
                            expected_outcome=outcome, outcome=[(o[0], repr(o[3])[:300]) for o in outs],
                            decisions=[(C.DECISION_NAMES[l['decision'][0]]) for l in pol.log])
                v = []
                if page1_problem is not None:
                    v.append(('first-page-not-delivered', page1_problem))
                elif seen != arrivals:
                    stray = [h for h in seen if h not in order_]
                    if stray:
                        v.append(('request-sent-to-host-outside-the-plan' if target is None else 'explicit-host-ignored',
                                  'hosts %r received the request; the %s is %r' % (stray, 'plan' if target is None else 'explicit target', list(order_))))
                    elif (target is not None and decisions and seen[:len(arrivals)] == arrivals and set(seen[len(arrivals):]) == {target}
                          and len(pol.log) >= len(decisions) and pol.log[len(decisions) - 1]['decision'][0] == C.RETRY_NEXT_HOST):
                        v.append(('explicit-host-tried-again-after-retry-next-host',
                                  'host=%s: RETRY_NEXT_HOST decided after its error, yet the same host received the request %d more time(s)' % (
                                      target, len(seen) - len(arrivals))))
                    else:
                        k_ = 0
                        while k_ < min(len(seen), len(arrivals)) and seen[k_] == arrivals[k_]:
                            k_ += 1
                        if k_ < len(seen) and seen[k_] in seen[:k_] and (k_ >= len(arrivals) or arrivals[k_] != seen[k_]):
                            v.append(('host-tried-again-without-a-retry-decision', 'hosts that received the request %r, reference walk %r' % (seen, arrivals)))
                        else:
                            v.append(('hosts-not-tried-in-plan-order', 'hosts that received the request %r, reference walk %r' % (seen, arrivals)))
                if not v:
                    att = [h.address for h in (fut.attempted_hosts if fut is not None else [])][n_att:]
                    reprepares = [q_['_node'] for q_ in env.net.wire_log[m_wire:] if q_['op'] == 'PREPARE' and q_.get('query') == uid_query(uid)]
                    if sorted(att) != sorted(seen + reprepares):      # the append races with the answer of a fast node: order is not promised
                        v.append(('attempted-hosts-differs-from-hosts-that-received-the-request', 'attempted_hosts %r, node-side %r' % (att, seen)))
                if not v:
                    if not outs:
                        v.append(('no-outcome-delivered', 'the statement never completed; expected %r' % (outcome,)))
                    elif outcome[0] == 'ok':
                        o = outs[0]
                        rows = list(o[3] or []) if o[0] == 'cb' else []
                        if o[0] != 'cb' or echoed_uid(rows) != uid or rows[0].node != outcome[1]:
                            v.append(('result-not-from-first-healthy-plan-host', 'expected the row of %s, got %r %r' % (outcome[1], o[0], o[3])))
                    else:
                        o = outs[0]
                        if o[0] != 'eb' or not isinstance(o[3], NoHostAvailable):
                            v.append(('plan-exhaustion-not-reported', 'expected NoHostAvailable, got %r %r' % (o[0], o[3])))
                        else:
                            got = dict((h.address if hasattr(h, 'address') else str(h), e) for h, e in o[3].errors.items())
                            if set(got) != set(reasons):
                                v.append(('no-host-available-errors-incomplete', 'errors lists %r, hosts skipped/attempted %r' % (sorted(got), sorted(reasons))))
                            else:
                                errs_by_host = {}
                                it = iter(errs)
                                for h_, s_ in zip(order_, states_):
                                    if s_ == 'err_next':
                                        errs_by_host[h_] = next(it)
                                    elif s_ == 'err_same':
                                        next(it)
                                        errs_by_host[h_] = next(it)
                                    elif s_ == 'retry_noconn':
                                        next(it)
                                for h_, kind in reasons.items():
                                    if kind == 'shut' and down_seen[0]:
                                        kind = 'shut-or-removed'
                                    if not reason_kind_ok(kind, got[h_], errs_by_host.get(h_)):
                                        v.append(('no-host-available-reason-wrong-kind', 'host %s was %s, recorded reason %r' % (h_, kind, got[h_])))
                                        break
                            if target is None and not v:
                                pl = lbp.plans[m_plans:]
                                if len(pl) != 1:
                                    v.append(('query-plan-requested-more-than-once', '%d plans requested for one statement' % len(pl)))
                                elif not pl[0]['exhausted']:
                                    v.append(('no-host-available-before-plan-exhausted', 'NoHostAvailable raised after %d of %d plan hosts were drawn' % (
                                        pl[0]['yielded'], len(order_))))
                if target is None and not v and len(lbp.plans[m_plans:]) != 1:
                    v.append(('query-plan-requested-more-than-once', '%d plans requested for one statement' % len(lbp.plans[m_plans:])))
                if target is not None and lbp.plans[m_plans:]:
                    v.append(('explicit-host-ignored', 'a load-balancing plan was requested although host= was given'))
                for mech, what in v:
                    viol.append((mech, what, info))
                info['errors_answered'] = nerr
                infos.append(info)
            return v

        def spec_statement():
            """idempotent statement with speculative executions in flight; then ONE of the executions is answered with an error and the
            scripted decision is applied.  Reference: the error belongs to the host that sent it (same-host retry goes there, it is that
            host NoHostAvailable.errors lists); hosts that never answered carry no server error."""
            uid = next_uid()
            usable = [h for h in order if st_of[h] == 'ok']
            nspec = min(spec_attempts, len(usable) - 1)
            inflight = usable[:1 + nspec]
            e_idx = rng.choice(list(range(nspec)) * 3 + [nspec])          # mostly NOT the host queried last
            errored = inflight[e_idx]
            decision = rng.choice([C.RETRY, C.RETRY, C.RETRY_NEXT_HOST, C.RETRY_NEXT_HOST, C.RETHROW])
            err = errgen.make(rng.choice(C.SERVER_KINDS))
            a = err['action']
            acts = [('hold-error', a[1], a[2]) if i == e_idx else 'silent' for i in range(len(inflight))] + ['rows']
            plan.set(uid, acts)
            pol = C.make_oracle_retry_policy(script=[(decision, None)])
            stm = SimpleStatement(uid_query(uid), retry_policy=pol, consistency_level=rng.choice(C.CLS), is_idempotent=True)
            arrivals = list(inflight)
            reasons = None
            if decision == C.RETRY:
                arrivals.append(errored)
                outcome = ('ok', errored)
            elif decision == C.RETRY_NEXT_HOST:
                rest = usable[1 + nspec:]
                if rest:
                    arrivals.append(rest[0])
                    outcome = ('ok', rest[0])
                else:
                    outcome = ('nohost',)
                    reasons = dict((h, st_of[h]) for h in order if st_of[h] != 'ok')
                    reasons[errored] = 'err'
            else:
                outcome = ('rethrow',)
            m_seen = len(plan.seen)
            with env.world.inspect():
                lbp.order = list(order)
                fut = rec.execute_async(session, uid, statement=stm, timeout=None)
            env.world.settle(advance=False)
            env.world.advance_to(env.world.now + spec_delay * (spec_attempts + 1) + 0.05)
            env.world.settle(advance=False)
            with env.world.inspect():
                during = [s_[0] for s_ in plan.seen[m_seen:] if s_[3] == uid]
                early_outs = len(rec.outcomes(uid))
            for hld in list(env.net.held):
                if not hld.done:
                    hld.release()
            env.world.settle(advance=False)
            lbp.order = None
            with env.world.inspect():
                seen = [s_[0] for s_ in plan.seen[m_seen:] if s_[3] == uid]
                outs = rec.outcomes(uid)
                info = dict(seed=seed, statement='main', proto=proto, mode='spec', plan=list(order), states=list(states), missing_how=dict(missing_how),
                            target=None, speculative_attempts=spec_attempts, in_flight_when_error_arrived=inflight, host_that_answered_with_error=errored,
                            decision=C.DECISION_NAMES[decision], hosts_that_received=seen, expected_hosts=arrivals, expected_outcome=outcome,
                            outcome=[(o[0], repr(o[3])[:300]) for o in outs], decisions=[C.DECISION_NAMES[l['decision'][0]] for l in pol.log], errors_answered=1)
                v = []
                if during != inflight or early_outs:
                    v.append(('speculative-executions-not-on-next-plan-hosts', 'while no host had answered: requests at %r (outcomes %d), expected %r' % (during, early_outs, inflight)))
                elif seen != arrivals:
                    extra = seen[len(inflight):]
                    if decision == C.RETRY and extra and extra[0] != errored:
                        v.append(('same-host-retry-sent-to-a-host-that-did-not-fail',
                                  '%s answered with an error and RETRY was decided, but the request was sent again to %r (trace %r)' % (errored, extra, seen)))
                    elif len(seen) > len(arrivals) and seen[len(arrivals)] in seen[:len(arrivals)]:
                        v.append(('host-tried-again-without-a-retry-decision', 'hosts that received the request %r, reference %r' % (seen, arrivals)))
                    else:
                        v.append(('hosts-not-tried-in-plan-order', 'hosts that received the request %r, reference %r' % (seen, arrivals)))
                elif sorted(h.address for h in fut.attempted_hosts) != sorted(seen):
                    v.append(('attempted-hosts-differs-from-hosts-that-received-the-request', 'attempted_hosts %r, node-side %r' % (
                        [h.address for h in fut.attempted_hosts], seen)))
                elif not outs:
                    v.append(('no-outcome-delivered', 'the statement never completed; expected %r' % (outcome,)))
                elif len(outs) != 1:
                    v.append(('completed-more-than-once', '%d completions' % len(outs)))
                elif outcome[0] == 'ok':
                    rows = list(outs[0][3] or []) if outs[0][0] == 'cb' else []
                    if outs[0][0] != 'cb' or echoed_uid(rows) != uid or rows[0].node != outcome[1]:
                        v.append(('result-not-from-the-host-the-decision-led-to', 'expected the row of %s, got %r %r' % (outcome[1], outs[0][0], outs[0][3])))
                elif outcome[0] == 'rethrow':
                    if outs[0][0] != 'eb' or not C.rethrown_matches(err, outs[0][3]):
                        v.append(('rethrow-decision-not-the-servers-error', 'RETHROW decided, outcome %r %r' % (outs[0][0], outs[0][3])))
                else:
                    o = outs[0]
                    if o[0] != 'eb' or not isinstance(o[3], NoHostAvailable):
                        v.append(('plan-exhaustion-not-reported', 'expected NoHostAvailable, got %r %r' % (o[0], o[3])))
                    else:
                        got = dict((h.address, e_) for h, e_ in o[3].errors.items())
                        silent_hosts = [h for h in inflight if h != errored]
                        missing_keys = sorted(set(reasons) - set(got))
                        stray = sorted(set(got) - set(reasons) - set(silent_hosts))
                        blamed = [h for h in silent_hosts if h in got and (hasattr(got[h], 'summary_msg') or
                                                                      type(got[h]).__name__ in ('ReadTimeout', 'WriteTimeout', 'Unavailable'))]
                        if errored not in got:
                            v.append(('no-host-available-omits-host-that-answered-with-error',
                                      '%s answered with the error but errors lists %r' % (errored, sorted(got))))
                        elif blamed:
                            v.append(('server-error-attributed-to-host-that-never-answered', 'hosts %r never answered, yet errors has %r' % (
                                blamed, [repr(got[h])[:80] for h in blamed])))
                        elif missing_keys or stray:
                            v.append(('no-host-available-errors-incomplete', 'errors lists %r, hosts skipped/failed %r' % (sorted(got), sorted(reasons))))
                        else:
                            for h_, kind in reasons.items():
                                if not reason_kind_ok(kind, got[h_], err if kind == 'err' else None):
                                    v.append(('no-host-available-reason-wrong-kind', 'host %s was %s, recorded reason %r' % (h_, kind, got[h_])))
                                    break
                            if not v and not lbp.plans[-1]['exhausted']:
                                v.append(('no-host-available-before-plan-exhausted', 'NoHostAvailable although the plan iterator was not exhausted'))
                for mech, what in v:
                    viol.append((mech, what, info))
                infos.append(info)
            return v

        def specbusy_statement():
            """idempotent statement under a speculative policy whose delay is shorter than the time the CALLER spends on the first host it
            can pick (busy: borrow waits 2 s; sendfail: raises at send).  Reference: plan order - that host is given up first (reason
            recorded), then the first healthy later host gets the request and its answer completes it; speculative executions only go to
            healthy hosts after that one; NoHostAvailable only if no later host is healthy, listing every plan host."""
            uid = next_uid()
            ua = [h for h in order if st_of[h] == 'ok']
            nspec = min(spec_attempts, max(0, len(ua) - 1))
            arrivals = ua[:1 + nspec] if ua else []
            plan.set(uid, ['hold'] + ['silent'] * 4)
            stm = SimpleStatement(uid_query(uid), consistency_level=rng.choice(C.CLS), is_idempotent=True)
            reached_all = not ua
            for h_ in order:
                if st_of[h_] == 'sendfail':
                    down_seen[0] = True
                    spent.add(h_)
            m_seen = len(plan.seen)
            racy = st_of[[h for h in order if st_of[h] in ('busy', 'sendfail')][0]] == 'sendfail'
            saved = (ch.p_time, ch.p_preempt)
            lbp.order = list(order)
            if racy:
                # the window between picking the host and failing at send is a few statements wide: let the schedule (and time) move inside it
                ch.jumps_left = rng.choice([1, 2, 3])
                ch.p_time, ch.p_preempt = 0.25, 0.5
                fut = rec.execute_async(session, uid, statement=stm, timeout=None)
                ch.p_time, ch.p_preempt = saved
            else:
                with env.world.inspect():
                    fut = rec.execute_async(session, uid, statement=stm, timeout=None)
            env.world.settle(advance=False)
            env.world.advance_to(env.world.now + spec_delay * (spec_attempts + 2) + 0.1)
            env.world.settle(advance=False)
            with env.world.inspect():
                early = rec.outcomes(uid)
                early_repr = [(o[0], repr(o[3])[:200]) for o in early]
            for hld in list(env.net.held):
                if not hld.done and hld.req.get('query') and uid_query(uid) == hld.req.get('query'):
                    hld.release()
            env.world.settle(advance=False)
            lbp.order = None
            with env.world.inspect():
                seen = [s_[0] for s_ in plan.seen[m_seen:] if s_[3] == uid]
                outs = rec.outcomes(uid)
                info = dict(seed=seed, statement='main', proto=proto, mode='specbusy', plan=list(order), states=list(states), missing_how=dict(missing_how),
                            target=None, speculative_attempts=spec_attempts, speculative_delay=spec_delay, hosts_that_received=seen,
                            expected_hosts=arrivals, expected_outcome=('ok', ua[0]) if ua else ('nohost',), outcome_before_any_answer=early_repr,
                            outcome=[(o[0], repr(o[3])[:300]) for o in outs], decisions=[], errors_answered=0, decision='-')
                v = []
                if ua and early:
                    o = early[0]
                    if o[0] == 'eb' and isinstance(o[3], NoHostAvailable):
                        v.append(('no-host-available-although-a-healthy-plan-host-was-tried',
                                  'NoHostAvailable %r while healthy host(s) %r had the request and had not answered yet (plan %r)' % (
                                      sorted(h.address for h in o[3].errors), seen, list(order))))
                    else:
                        v.append(('outcome-before-any-answer', 'completed with %r %r before any node answered' % (o[0], o[3])))
                elif seen != arrivals:
                    if any(h not in ua for h in seen):
                        v.append(('request-sent-through-unusable-pool', 'hosts %r received the request, healthy plan hosts are %r' % (seen, ua)))
                    elif len(set(seen)) != len(seen):
                        v.append(('host-tried-again-without-a-retry-decision', 'hosts that received the request %r, reference %r' % (seen, arrivals)))
                    else:
                        v.append(('hosts-not-tried-in-plan-order', 'hosts that received the request %r, reference %r' % (seen, arrivals)))
                elif sorted(h.address for h in fut.attempted_hosts) != sorted(seen):
                    v.append(('attempted-hosts-differs-from-hosts-that-received-the-request', 'attempted_hosts %r, node-side %r' % (
                        [h.address for h in fut.attempted_hosts], seen)))
                elif not outs:
                    v.append(('no-outcome-delivered', 'the statement never completed'))
                elif len(outs) != 1:
                    v.append(('completed-more-than-once', '%d completions' % len(outs)))
                elif ua:
                    rows = list(outs[0][3] or []) if outs[0][0] == 'cb' else []
                    if outs[0][0] != 'cb' or echoed_uid(rows) != uid or rows[0].node != ua[0]:
                        v.append(('result-not-from-first-healthy-plan-host', 'expected the row of %s, got %r %r' % (ua[0], outs[0][0], outs[0][3])))
                else:
                    o = outs[0]
                    if o[0] != 'eb' or not isinstance(o[3], NoHostAvailable):
                        v.append(('plan-exhaustion-not-reported', 'expected NoHostAvailable, got %r %r' % (o[0], o[3])))
                    else:
                        got = dict((h.address, e_) for h, e_ in o[3].errors.items())
                        reasons = dict((h, st_of[h]) for h in order)
                        if set(got) != set(reasons):
                            v.append(('no-host-available-errors-incomplete', 'errors lists %r, plan hosts %r' % (sorted(got), sorted(reasons))))
                        else:
                            for h_, kind in reasons.items():
                                if kind == 'shut' and down_seen[0]:
                                    kind = 'shut-or-removed'
                                if not reason_kind_ok(kind, got[h_]):
                                    v.append(('no-host-available-reason-wrong-kind', 'host %s was %s, recorded reason %r' % (h_, kind, got[h_])))
                                    break
                for mech, what in v:
                    viol.append((mech, what, info))
                infos.append(info)
            return v

        if mode == 'plan':
            v = one_statement('main', None, order, list(states))
        elif mode == 'reprep':
            v = one_statement('main', None, order, list(states))
            prepare_loss['armed'] = False
        elif mode == 'retryfail':
            v = one_statement('main', None, order, list(states))
        elif mode == 'paged':
            v = one_statement('main', None, order, list(states), paged=True)
        elif mode == 'pagedhost':
            v = one_statement('main', order[0], order, list(states), paged=True)
        elif mode == 'specbusy':
            v = specbusy_statement()
        elif mode == 'spec':
            v = spec_statement()
        else:
            v = one_statement('main', order[0], order, list(states))
        # ---- one more statement with explicit host targeting against the state the first one left behind
        if not v and mode == 'plan':
            t = rng.choice(order + [CONTACT])
            s0 = st_of.get(t, 'ok')
            s1 = 'unusable' if t in spent else s0
            if s1 == 'unusable':
                # reference() treats unknown skip states like the others: patch in place
                arr, outc, reas, dec, ne = [], ('nohost',), {t: 'unusable'}, [], 0
                uid = next_uid()
                plan.set(uid, ['rows'])
                stm = SimpleStatement(uid_query(uid))
                m_seen = len(plan.seen)
                with env.world.inspect():
                    rec.execute_async(session, uid, statement=stm, timeout=None, host=hosts[t])
                env.world.advance_to(env.world.now + 3.0)
                env.world.settle(advance=False)
                with env.world.inspect():
                    seen = [s_[0] for s_ in plan.seen[m_seen:] if s_[3] == uid]
                    outs = rec.outcomes(uid)
                    info = dict(seed=seed, statement='followup', proto=proto, mode='host', plan=[t], states=['unusable'], target=t,
                                hosts_that_received=seen, expected_hosts=[], outcome=[(o[0], repr(o[3])[:300]) for o in outs], decisions=[], errors_answered=0)
                    if seen:
                        viol.append(('request-sent-through-unusable-pool', 'host %s lost its connection before, yet received %r' % (t, seen), info))
                    elif not outs or outs[0][0] != 'eb' or not isinstance(outs[0][3], NoHostAvailable) or \
                            [h.address for h in outs[0][3].errors] != [t] or not reason_kind_ok('unusable', list(outs[0][3].errors.values())[0]):
                        viol.append(('plan-exhaustion-not-reported', 'explicit host %s unusable: outcome %r' % (t, outs[:1]), info))
                    infos.append(info)
            else:
                one_statement('followup', t, [t], [s1])
        harness = C.harness_problems(env)
        env.world.preempt = False
        cluster.shutdown()
        env.world.settle()
    return viol, harness, infos


def run(ctx):
    from vlib import shim
    shim.import_cluster()
    from vlib.run import Inconclusive
    from sim.world import WorldLimit
    ctx.rule = ("a case is one statement over (sequence of pool states along the plan | explicit target state) on a fresh cluster; distinct by "
                "(mode, state sequence); the arrangement of hosts, the way a host is 'missing', protocol version and schedule are seeded per "
                "case; non-trivial = at least one host is not healthy or the plan has more than one host. Follow-up explicit-host statements "
                "count as cases of their own")
    ctx.assume("a host whose pool is missing / shut down / without connection / out of stream ids / whose send raises is skipped with the "
               "reason recorded and the walk continues; borrowing from a busy pool may wait (2 s in the driver) before giving up")
    ctx.assume("RETRY_NEXT_HOST with explicit host= targeting has no next host: the expected outcome is NoHostAvailable listing that host")
    cases = all_cases()
    budget = 28 if ctx.quick else 150
    base = ctx.seed * 1000003
    done_slice = True
    if ctx.quick:
        # sample: all short sequences first come cheap, so draw by length with weight on long ones
        by_len = {}
        for c in cases:
            by_len.setdefault((c[0], len(c[1])), []).append(c)
        todo = []
        r = random.Random(base + (ctx.worker or 0))
        for _ in range(4000):
            key = r.choices([('plan', 0), ('plan', 1), ('plan', 2), ('plan', 3), ('plan', 4), ('host', 1), ('spec', 2), ('spec', 3), ('spec', 4),
                             ('specbusy', 1), ('specbusy', 2), ('specbusy', 3), ('specbusy', 4),
                             ('paged', 1), ('paged', 2), ('paged', 3), ('pagedhost', 1), ('reprep', 1), ('reprep', 2), ('reprep', 3),
                             ('retryfail', 1), ('retryfail', 2), ('retryfail', 3)],
                            [1, 8, 20, 30, 40, 12, 4, 8, 10, 1, 8, 10, 8, 4, 8, 10, 12, 2, 8, 14, 3, 10, 16])[0]
            todo.append((r.randrange(1 << 30), r.choice(by_len[key])))
    else:
        w, nw = (ctx.worker or 0), max(1, ctx.nworkers)
        todo = [(base + i, c) for i, c in enumerate(cases) if i % nw == w]
        random.Random(base + w).shuffle(todo)
    extra_round = 0
    i = 0
    ncases = 0
    # the time budget bounds the run on a normal machine; on an overloaded one the floors are still reached (count first, capped)
    min_here = -(-200 // max(1, ctx.nworkers))
    while True:
        if i >= len(todo):
            if ctx.quick:
                break
            # slice finished: keep sampling with fresh seeds until the budget is used
            extra_round += 1
            r = random.Random(base + 7919 * extra_round + (ctx.worker or 0))
            todo = [(r.randrange(1 << 30), r.choice(cases)) for _ in range(200)]
            i = 0
        if ctx.time_left(budget) < 0 and (ncases >= min_here or ctx.time_left(budget * (5 if ctx.quick else 2)) < 0):
            if not ctx.quick and extra_round == 0:
                done_slice = False
            ctx.note("stopped by time budget (%s)" % ("slice unfinished" if (not ctx.quick and extra_round == 0) else "sampling"))
            break
        seed, (mode, states) = todo[i]
        i += 1
        ncases += 1
        try:
            viol, harness, infos = run_case(seed, mode, states)
        except WorldLimit:
            ctx.count("cases_over_budget")
            if not ctx.quick and extra_round == 0:
                done_slice = False
            continue
        except Inconclusive:
            raise
        except Exception as e:
            import traceback
            raise Inconclusive("case seed %d %s %r failed in the harness: %s: %s\n%s" % (seed, mode, states, type(e).__name__, e, traceback.format_exc()[-1200:]))
        if harness:
            raise Inconclusive("harness error in case seed %d %s %r: %r" % (seed, mode, states, harness[:2]))
        for q in infos:
            ctx.case(repr((q['mode'], tuple(q['states']))), nontrivial=len(q['states']) > 1 or q['states'] != ['ok'])
            ctx.count("statements_judged")
            ctx.count("hosts_that_received_compared", len(q['hosts_that_received']))
            ctx.count("errors_answered_by_nodes", q.get('errors_answered', 0))
            if 'unprep_loss' in q['states']:
                ctx.count("statements_losing_the_connection_during_reprepare")
            if any(s_ in RETRY_UNUSABLE for s_ in q['states']):
                ctx.count("statements_with_same_host_retry_on_host_turned_unusable")
            if q['mode'].startswith('paged'):
                ctx.count("second_page_fetches_judged")
            if q['mode'].endswith('host'):
                ctx.count("explicit_host_statements")
            if q['mode'] == 'spec':
                ctx.count("speculative_statements_decision_" + q['decision'])
                ctx.count("speculative_statements")
            if q['mode'] == 'specbusy':
                ctx.count("speculative_timer_while_caller_in_send_request_statements")
            if q['outcome'] and q['outcome'][0][0] == 'eb':
                ctx.count("no_host_available_outcomes_checked")
            for s in q['states']:
                ctx.count("state_" + s)
            if len(ctx.samples) < 4 and len(q['states']) >= 3 and q['statement'] == 'main':
                ctx.sample(q)
        seen = set()
        for mech, what, info in viol:
            if mech in seen:
                continue
            seen.add(mech)
            ctx.violation(mech, "%s [seed %d, %s %r]" % (what, seed, info['mode'], info['states']), info)
    if not ctx.quick:
        ctx.exhaustive = done_slice
    ctx.floor_distinct = 120 if ctx.quick else 2000      # the complete enumeration has 4689; ctx.exhaustive says whether it was finished
    ctx.floor_counters = {"statements_judged": 200, "hosts_that_received_compared": 200, "no_host_available_outcomes_checked": 60,
                          "explicit_host_statements": 60, "state_busy": 30, "state_sendfail": 30, "state_missing": 30, "state_shut": 30,
                          "state_noconn": 30, "state_err_next": 30, "state_err_same": 30, "speculative_statements": 25,
                          "speculative_timer_while_caller_in_send_request_statements": 25,
                          "second_page_fetches_judged": 40, "statements_losing_the_connection_during_reprepare": 30,
                          "statements_with_same_host_retry_on_host_turned_unusable": 40}
