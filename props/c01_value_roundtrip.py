"""C01 - every CQL value survives an encode/decode round trip through the driver's codecs.

Monitor: for generated (type tree, value, protocol version) the real
``T.from_binary(T.to_binary(v, pv), pv)`` is executed and the result is normalised
(documented normalisations only) and compared with the original canonical value.
"""
from vlib.run import Inconclusive

PROPERTY = "C01"
LEVEL = "exploration"
ENGINE = "spec"
TECHNIQUE = "runtime monitor: generated type trees/values through the real codecs, normalising comparer as oracle"
LEVEL_TEXT = ("The real to_binary/from_binary of every CQL type are run on tens of thousands (quick) to ~1M (thorough) generated "
              "nested type trees and boundary-heavy values for protocol versions 1-6 and DSE v1/v2, plus per version collections, tuple/UDT "
              "fields and vector elements whose count or byte size sits on a length-field boundary (127/128 ... 32767/32768, 65535, 65536); "
              "each round trip is judged by an input-independent comparer. Held-on-observed, not a proof over all values.")
LEVEL_NOTE = ("Trusted base: generator/normaliser in props/_cqlgen.py (set -> multiset compare, map -> ordered pairs, UDT -> field tuple, "
              "NaN==NaN). v1/v2 top-level collections cannot carry null elements (uint16 lengths) and are generated without them; "
              "vectors are generated for protocol >= 3 only.")
WORKERS = 14

PVS = [1, 2, 3, 4, 5, 6, 0x41, 0x42]


def classify(t, v, back, exc):
    """Mechanism slug for a failed round trip (narrow predicates over the witness)."""
    from props import _cqlgen as G
    from spec import cqlcodec as S

    def find(t, v, b, path=()):
        # locate the first differing leaf
        t0 = S.strip(t)
        k = t0[0]
        if G.canon_key(t0, v) == G.canon_key(t0, b) if _same_shape(v, b) else False:
            return None
        if v is None or b is None or k in S.SCALARS:
            return (t0, v, b, path)
        try:
            if k in ('list', 'vector', 'set'):
                if len(v) != len(b):
                    return (t0, v, b, path)
                if k == 'set':
                    return (t0, v, b, path)
                for i, (x, y) in enumerate(zip(v, b)):
                    r = find(t0[1], x, y, path + (k,))
                    if r:
                        return r
            if k == 'map':
                if len(v) != len(b):
                    return (t0, v, b, path)
                for (k1, v1), (k2, v2) in zip(v, b):
                    r = find(t0[1], k1, k2, path + ('mapkey',)) or find(t0[2], v1, v2, path + ('mapval',))
                    if r:
                        return r
            if k in ('tuple', 'udt'):
                fts = list(t0[1:]) if k == 'tuple' else [ft for _, ft in t0[3]]
                vv = list(v) + [None] * (len(fts) - len(v))
                for ft, x, y in zip(fts, vv, b):
                    r = find(ft, x, y, path + (k,))
                    if r:
                        return r
        except Exception:
            pass
        return (t0, v, b, path)

    if exc is not None:
        return None
    leaf = find(t, v, back)
    if leaf is None:
        return None
    lt, lv, lb, path = leaf
    in_coll = any(p in ('list', 'set', 'mapkey', 'mapval') for p in path)
    if lv is None and lb is not None and in_coll and lt[0] in ('text', 'varchar', 'ascii', 'blob') and lb in ('', b''):
        return "null-collection-element-written-as-empty"
    if lt[0] == 'timestamp' and isinstance(lv, int):
        got = lb[1] if isinstance(lb, tuple) else (lb * 1000 if isinstance(lb, int) else None)
        if got is not None and abs(got - lv * 1000) < 1000:
            return "timestamp-float-seconds-decode"
    return None


def _same_shape(a, b):
    return True


def _flat_roundtrip_equal(dt, t, v, pv, rng):
    """Round trip of a top-level list / set / map of int or bool scalars, compared with plain equality plus exact element types.
    False on any difference or exception."""
    from props import _cqlgen as G
    try:
        return G.flat_equal(t, v, dt.from_binary(dt.to_binary(G.flat_input(rng, t, v), pv), pv))
    except Exception:
        return False


def _short(x):
    r = repr(x)
    return r if len(r) <= 160 else r[:120] + "...(%d chars)" % len(r)


def _len(x):
    try:
        return len(x)
    except TypeError:
        return None


def run(ctx):
    from props import _cqlgen as G
    from spec import cqlcodec as S
    from cassandra import cqltypes  # noqa: F401

    rng = ctx.rng
    ctx.rule = ("seeded type trees (depth<=4, width<=4; all scalars, list/set/map/tuple/UDT/vector/frozen) x boundary-pool+random values with "
                "nulls at depth 1-2 and empty collections x protocol versions {1..6,0x41,0x42}; plus, per protocol version, collections / "
                "tuple+UDT fields / vectors whose element count or element byte size sits on a length-field boundary (127/128, 255/256, "
                "32767/32768, 65535, 65536 for v3+); a case is (type, value, version); distinct by canonical repr; non-trivial = nested "
                "type (depth >= 1)")
    ok = [0]

    def one(t, v, pv, via_desc, sample_p=0.02, flat=False):
        """One monitored round trip; True when it came back equal."""
        nested = G.is_nested(t)
        try:
            dt = G.driver_type(t, via_descriptor=via_desc)
        except Exception as e:
            ctx.violation("type-construction-raises", "building %s raised %s: %s" % (S.cql_name(t), type(e).__name__, e), G.describe(t, v))
            return False
        if flat and _flat_roundtrip_equal(dt, t, v, pv, rng):
            # tens of thousands of int/bool elements: compared directly (same oracle, without the per-element normaliser); anything
            # but an exact match is re-run through the general path below, which classifies it and builds the witness
            ok[0] += 1
            ctx.count("bytes_encoded", 2 * len(v))
            return True
        dv = G.to_driver(rng, t, v)
        exc = back = None
        try:
            b = dt.to_binary(dv, pv)
            ctx.count("bytes_encoded", len(b))
            res = dt.from_binary(b, pv)
            back = G.from_driver(t, res)
        except G.Mismatch as e:
            exc = e
        except Exception as e:
            exc = e
        if exc is None and G.canon_key(t, v) == G.canon_key(t, back):
            ok[0] += 1
            if nested and len(ctx.samples) < 6 and rng.random() < sample_p:
                ctx.sample({"type": S.cql_name(t), "pv": pv, "value": repr(v)[:200], "bytes": b})
            return True
        if exc is not None:
            mech = "roundtrip-raises"
            if isinstance(exc, G.MapItemsKeyError) and exc.reencoding_differs and G.contains_kind(exc.key_type, ('set', 'tuple', 'udt')):
                mech = "map-key-reencoding-differs-items-keyerror"
            what = "round trip of %s at v%d raised %s: %s" % (S.cql_name(t), pv, type(exc).__name__, str(exc)[:200])
        else:
            mech = classify(t, v, back, None) or "roundtrip-value-differs"
            what = "round trip of %s at v%d: %r came back as %r" % (S.cql_name(t)[:120], pv, _short(v), _short(back))
            if isinstance(v, list) and _len(v) != _len(back):
                what += " [%s elements sent, %s came back]" % (_len(v), _len(back))
            what = what[:600]
        ctx.violation(mech, what, {"type": S.cql_name(t), "descriptor": G.cass_descriptor(t), "pv": pv, "value": repr(v)[:400],
                                   "input": repr(dv)[:400], "back": repr(back)[:400], "via_descriptor": via_desc,
                                   "len_value": _len(v), "len_back": _len(back)})
        return False

    # -- length-field boundaries, every protocol version (cheap element types; run first so a time-budget stop cannot skip them)
    for pv in PVS:
        # v1/v2 frame top-level collections with a [short]: every big count for every kind on every run; v3+ (int32): a sample
        for cls, label, bound, t, v in G.boundary_cases(rng, pv, big_counts='v1v2' if pv < 3 else 1):
            ctx.case(repr(("boundary", label, pv)), nontrivial=True)
            ctx.count("boundary_%s_cases" % cls)
            if pv < 3 and bound >= 32768 and cls in ('count', 'elemsize'):
                ctx.count("boundary_v1v2_%s_ge_32768" % cls)
            if one(t, v, pv, rng.random() < 0.3, sample_p=0.0, flat=(cls == 'count' and bound >= 32767)):
                ctx.count("boundary_roundtrips_equal")

    n = ctx.scale(120000, 1600000)
    budget = 45 if ctx.quick else 420
    for i in range(n):
        if i % 256 == 0 and ctx.time_left(budget) < 0:
            ctx.note("stopped by time budget after %d cases" % i)
            break
        pv = rng.choice(PVS)
        depth = rng.choice([0, 1, 1, 2, 2, 3, 4])
        t = G.gen_type(rng, depth, pv)
        v = G.gen_value(rng, t, pv)
        nested = G.is_nested(t)
        ctx.case(repr((S.cql_name(t), G.canon_key(t, v), pv)), nontrivial=nested)
        ctx.count("nested_cases" if nested else "scalar_cases")
        one(t, v, pv, rng.random() < 0.4)
    ok = ok[0]
    ctx.count("roundtrips_equal", ok)
    ctx.floor_distinct = 1500 if ctx.quick else 50000
    ctx.floor_counters = {"roundtrips_equal": 3000, "nested_cases": 1500,
                          # length-field boundary classes (per process: 8 versions x (12 small + >=2 big counts, 28+ element sizes, 8 fields,
                          # 14 vectors for v3+); v1/v2: 2 versions x (3 kinds at 32768 + one at 65535), 2 x 4 positions x 2 sizes >= 32768)
                          "boundary_count_cases": 100, "boundary_elemsize_cases": 220, "boundary_field_cases": 60,
                          "boundary_vector_cases": 80, "boundary_v1v2_count_ge_32768": 8, "boundary_v1v2_elemsize_ge_32768": 16,
                          "boundary_roundtrips_equal": 450}
    n_self = S.selfcheck()
    ctx.count("spec_selfcheck_cases", n_self)
